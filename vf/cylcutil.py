"""Small helpers around the real cylc code (config loading, state reset)."""
from __future__ import annotations

import itertools
import os
from pathlib import Path
from typing import Optional

_counter = itertools.count()


def reset_globals():
    """Reset cylc module-level state that could leak between cases."""
    import cylc.flow.flags
    cylc.flow.flags.verbosity = 0
    cylc.flow.flags.cylc7_back_compat = False
    try:
        # singleton cache of parsed graph nodes: holds cycling-mode specific
        # offsets ("a[^]" -> "+P0" in integer mode, "+P0Y" in datetime mode),
        # cleared by cylc only in get_graph_raw(); one scheduler process only
        # ever sees one cycling mode, a check process sees both
        from cylc.flow.graphnode import GraphNodeParser
        GraphNodeParser.get_inst().clear()
    except Exception:
        pass
    try:
        from cylc.flow.cycling import iso8601
        for name in dir(iso8601):
            obj = getattr(iso8601, name)
            if hasattr(obj, 'cache_clear'):
                obj.cache_clear()
    except Exception:
        pass


def validate_options(**kw):
    from cylc.flow.scripts.validate import ValidateOptions
    return ValidateOptions(**kw)


def load_config(text: str, scratch: str, name: Optional[str] = None,
                options=None, extra_files: Optional[dict] = None, **kw):
    """Write `text` as flow.cylc in a fresh dir and load WorkflowConfig."""
    from cylc.flow.config import WorkflowConfig
    reset_globals()
    n = next(_counter)
    d = Path(scratch) / 'cfg' / f'w{n}'
    d.mkdir(parents=True, exist_ok=True)
    f = d / 'flow.cylc'
    f.write_text(text)
    for fname, ftext in (extra_files or {}).items():
        p = d / fname
        p.parent.mkdir(parents=True, exist_ok=True)
        p.write_text(ftext)
    if options is None:
        options = validate_options()
    try:
        return WorkflowConfig(name or f'w{n}', str(f), options, **kw)
    finally:
        if n % 50 == 49:
            # keep scratch small
            import shutil
            for old in (Path(scratch) / 'cfg').iterdir():
                if old != d:
                    shutil.rmtree(old, ignore_errors=True)
