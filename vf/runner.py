"""Master: shard a property check over worker processes, merge, write
evidence, print VIOLATION / KNOWN-FINDING lines, set the exit code.

exit 0  property held on everything explored (known findings listed)
exit 1  VIOLATION (not listed in known_findings.json)
exit 2  harness error (never a VIOLATION)
"""
from __future__ import annotations

import argparse
import importlib
import json
import os
import shutil
import subprocess
import sys
import tempfile
import time
from collections import Counter

from vf import core

# mutant / scratch runs must not touch the committed evidence and replays
OUT_ROOT = (
    os.path.join(tempfile.gettempdir(), 'vf-scratch-out')
    if os.environ.get('VF_NO_EVIDENCE') else core.ROOT)


def parse_args(argv):
    ap = argparse.ArgumentParser(prog='check')
    ap.add_argument('prop')
    ap.add_argument('--tier', default=os.environ.get('VERIF_TIER', 'quick'),
                    choices=['quick', 'thorough'])
    ap.add_argument('--replay', default=None)
    ap.add_argument('--shards', type=int, default=None)
    ap.add_argument('--budget', type=int, default=None,
                    help='override total case budget')
    return ap.parse_args(argv)


def load_module(prop):
    return importlib.import_module(f'vf.props.{prop.lower()}')


def worker_main(argv):
    """Entry for one shard: python -m vf.runner --worker <json>"""
    spec = json.loads(argv[0])
    out = spec['out']
    os.makedirs(spec['scratch'], exist_ok=True)
    try:
        mod = load_module(spec['prop'])
        col = core.Collector(spec['prop'])
        ctx = core.Ctx(
            prop_id=spec['prop'], tier=spec['tier'], seed=spec['seed'],
            shard=spec['shard'], nshards=spec['nshards'],
            scratch=spec['scratch'], col=col)
        if spec.get('budget') is not None:
            mod.BUDGET = dict(mod.BUDGET)
            mod.BUDGET[spec['tier']] = spec['budget']
        if spec.get('replay') is not None:
            with open(spec['replay']) as f:
                rp = json.load(f)
            case = rp['case'] if isinstance(rp, dict) and 'case' in rp else rp
            res = mod.check_case(case, ctx)
            col.record(case, res)
            for v in col.filter_known(res.violations):
                col.add_violation(v, case)
        else:
            mod.run_shard(ctx)
        with open(out, 'w') as f:
            json.dump(col.to_json(), f, default=str)
        return 0
    except BaseException:  # noqa
        import traceback
        with open(out + '.err', 'w') as f:
            traceback.print_exc(file=f)
        traceback.print_exc()
        return 2


def main(argv=None):
    argv = sys.argv[1:] if argv is None else argv
    if argv and argv[0] == '--worker':
        sys.exit(worker_main(argv[1:]))
    args = parse_args(argv)
    prop = args.prop.upper()
    seed = int(os.environ.get('VERIF_SEED', '1') or 1)
    t0 = time.time()
    try:
        mod = load_module(prop)
    except Exception:
        import traceback
        traceback.print_exc()
        print(f'HARNESS-ERROR property={prop} cannot import module')
        sys.exit(2)

    nshards = args.shards or getattr(mod, 'SHARDS', None) or min(
        16, os.cpu_count() or 4)
    if args.replay:
        nshards = 1
    shm = '/dev/shm' if (
        os.path.isdir('/dev/shm') and os.access('/dev/shm', os.W_OK)
        and not getattr(mod, 'NEEDS_DISK', False)) else None
    tmp_base = tempfile.mkdtemp(prefix=f'vf-{prop}-', dir=shm)
    procs = []
    try:
        for i in range(nshards):
            scratch = os.path.join(tmp_base, f's{i}')
            os.makedirs(os.path.join(scratch, 'home'), exist_ok=True)
            spec = {
                'prop': prop, 'tier': args.tier, 'seed': seed, 'shard': i,
                'nshards': nshards, 'scratch': scratch,
                'out': os.path.join(tmp_base, f'out{i}.json'),
                'replay': os.path.abspath(args.replay) if args.replay else None,
                'budget': args.budget,
            }
            env = dict(os.environ)
            env['HOME'] = os.path.join(scratch, 'home')
            env['TMPDIR'] = scratch
            env['CYLC_CONF_PATH'] = os.path.join(scratch, 'conf')
            os.makedirs(env['CYLC_CONF_PATH'], exist_ok=True)
            env.pop('CYLC_SITE_CONF_PATH', None)
            log = open(os.path.join(tmp_base, f'log{i}.txt'), 'w')
            p = subprocess.Popen(
                [sys.executable, '-m', 'vf.runner', '--worker',
                 json.dumps(spec)],
                env=env, stdout=log, stderr=subprocess.STDOUT,
                cwd=scratch)
            procs.append((p, spec, log))
        limit = getattr(mod, 'WALL_LIMIT', {'quick': 1500, 'thorough': 6 * 3600})[args.tier]
        results = []
        harness_err = []
        for p, spec, log in procs:
            remaining = max(1, limit - (time.time() - t0))
            try:
                rc = p.wait(timeout=remaining)
            except subprocess.TimeoutExpired:
                p.kill()
                rc = -9
            log.close()
            if rc != 0 or not os.path.exists(spec['out']):
                with open(log.name) as f:
                    tail = f.read()[-3000:]
                harness_err.append((spec['shard'], rc, tail))
                continue
            with open(spec['out']) as f:
                results.append(json.load(f))
        if harness_err:
            for shard, rc, tail in harness_err[:3]:
                print(f'--- shard {shard} rc={rc}\n{tail}')
            print(f'HARNESS-ERROR property={prop} shards_failed='
                  f'{len(harness_err)}/{nshards}')
            sys.exit(2)
        rc = finish(mod, prop, args, seed, results, time.time() - t0)
    finally:
        for p, _, _ in procs:
            if p.poll() is None:
                p.kill()
        shutil.rmtree(tmp_base, ignore_errors=True)
    sys.exit(rc)


def finish(mod, prop, args, seed, results, wall):
    ev = 0
    nontriv = set()
    nontriv_extra = 0
    classes = Counter()
    known_hits = Counter()
    samples = []
    incon = rejected = 0
    violations = []
    extra = {}
    for r in results:
        ev += r['evaluations']
        nontriv.update(r['nontrivial'])
        nontriv_extra += r.get('nontrivial_extra', 0)
        classes.update(r['classes'])
        known_hits.update(r['known_hits'])
        incon += r['inconclusive']
        rejected += r['rejected']
        for k, v in r.get('extra', {}).items():
            if isinstance(v, (int, float)) and not isinstance(v, bool):
                extra[k] = extra.get(k, 0) + v
            elif isinstance(v, list):
                extra.setdefault(k, [])
                extra[k] = (extra[k] + v)[:20]
            elif isinstance(v, dict):
                d = extra.setdefault(k, {})
                for kk, vv in v.items():
                    if isinstance(vv, (int, float)) and not isinstance(vv, bool):
                        d[kk] = d.get(kk, 0) + vv
                    else:
                        d[kk] = vv
            else:
                extra[k] = v
        for v in r['violations']:
            ex = next((x for x in violations if x['sig'] == v['sig']), None)
            if ex is None:
                violations.append(v)
            elif len(json.dumps(v['case'], default=str)) < len(
                    json.dumps(ex['case'], default=str)):
                ex.update(v)
    # round-robin samples from shards
    pools = [list(r['samples']) for r in results]
    while len(samples) < 5 and any(pools):
        for pl in pools:
            if pl and len(samples) < 5:
                samples.append(pl.pop(0))
    if not samples:
        samples = [{'note': 'no sample recorded'}]

    known = core.known_sigs(prop)
    rc = 0
    replay_paths = []
    if violations:
        rc = 1
        rdir = os.path.join(OUT_ROOT, 'replays', prop)
        os.makedirs(rdir, exist_ok=True)
        for v in violations:
            name = core.jhash([v['sig'], v['case']]) + '.json'
            path = os.path.join(rdir, name)
            with open(path, 'w') as f:
                json.dump({'property': prop, 'sig': v['sig'],
                           'detail': v['detail'], 'case': v['case']},
                          f, indent=1, default=str)
            replay_paths.append(path)
            print(f'VIOLATION property={prop} replay={path}')
            print(f'  signature: {v["sig"]}')
            print(f'  detail: {v["detail"][:1500]}')
    for sig, what in known.items():
        if args.replay:
            if known_hits.get(sig):
                print(f'KNOWN-FINDING: property={prop} {sig}: {what}')
        else:
            print(f'KNOWN-FINDING: property={prop} {sig}: {what} '
                  f'(hit in {known_hits.get(sig, 0)} cases this run)')

    total = max(ev, 1)
    coverage = {
        'evaluations': ev,
        'distinct_nontrivial': len(nontriv) + nontriv_extra,
        'rule': getattr(mod, 'RULE', ''),
        'samples': samples,
        'classes': {k: v for k, v in sorted(classes.items())},
        'class_fractions': {
            k: round(v / total, 4) for k, v in sorted(classes.items())},
        'known_finding_hits': dict(known_hits),
        'inconclusive': incon,
        'rejected_by_validation': rejected,
        'shards': len(results),
    }
    if getattr(mod, 'EXHAUSTIVE', None):
        exh = mod.EXHAUSTIVE
        coverage['exhaustive'] = bool(
            exh.get(args.tier) if isinstance(exh, dict) else exh)
    coverage.update(extra)
    if args.replay:
        # replay never rewrites evidence
        print(f'replay: evaluations={ev} violations={len(violations)}')
        return rc
    evidence = {
        'property_id': prop,
        'tier': args.tier,
        'seed': seed,
        'level': getattr(mod, 'LEVEL', 'exploration'),
        'coverage': coverage,
        'assumptions': list(getattr(mod, 'ASSUMPTIONS', [])),
        'wall_s': round(wall, 2),
        'violations': len(violations),
    }
    edir = os.path.join(OUT_ROOT, 'evidence')
    os.makedirs(edir, exist_ok=True)
    with open(os.path.join(edir, f'{prop}.json'), 'w') as f:
        json.dump(evidence, f, indent=1, default=str)
    print(f'{prop} tier={args.tier} seed={seed} evaluations={ev} '
          f'distinct_nontrivial={coverage["distinct_nontrivial"]} '
          f'inconclusive={incon} violations={len(violations)} '
          f'wall={wall:.1f}s')
    return rc


if __name__ == '__main__':
    main()
