"""C43 Stop point, stop task and stop modes behave as documented."""
from __future__ import annotations

from hypothesis import strategies as st

from vf.core import CaseResult, Ctx, Violation, hyp_run
from vf.gen.wfspec import wfspecs
from vf.sim.c06c43_util import (
    read_db, return_polls_promptly, run_schedule_ext, stop_kind,
    wrap_commands)
from vf.sim.drive import (
    SCase, job_outputs, outcome_for, outcome_maps, run_async)
from vf.sim.model import Model

PROP_ID = 'C43'
LEVEL = 'exploration'
BUDGET = {'quick': 400, 'thorough': 8000}
MANIFEST = {
    'engine': 'S',
    'technique': 'stateful model-based PBT on the stepped scheduler: stop '
                 'requests of every kind (and reloads) at random points of '
                 'generated runs, '
                 'each shutdown followed by a restart; model of the stop '
                 'point / stop task vs. submissions, shutdown snapshots, the '
                 'virtual cluster, the restarted pool and workflow_params',
}
RULE = (
    'Generated workflow (C01 domain incl. tasks whose graph requires :fail, '
    '<=4 tasks (+1 consumer of an added required output), <=5 cycles, '
    'optional runahead limit P0-P3), outcomes, a stop point from one of: '
    '[scheduling]stop after cycle point, the --stopcp start option, or '
    '`stop <point>` commands (lowering and raising it); a history of <=55 '
    'steps over loop / return / advance / deliver / fair-rounds plus '
    'stop-point, stop-task (pooled, finished or future instance), trigger, '
    'stop (clean), stop --now, reload (definition unchanged) and restart '
    '(stop --now or clean stop + new scheduler on the same run dir).  Three '
    'drawn scenario families (classes focus:*): free histories (1/2); '
    '"reload" (1/4): a stop point the incarnation starts with (--stopcp, '
    'configuration, or an earlier stop-point command carried over a restart '
    'through the DB), then a stop-point command, a few steps and a reload, '
    'then a free history; "incomplete-stop-task" (1/4): the stop task is set '
    'early to an instance whose job is scripted to succeed without '
    'completing the task (a required custom output never sent, or :fail '
    'required), then a free history.  '
    'Whenever the scheduler has shut down during the history - requested, '
    'by the stop task, or automatically - jobs optionally carry on while it '
    'is down, it is restarted (<=4 times) and the history continues; then a '
    'fair drain, and - up to '
    'twice - whenever the scheduler has shut down (for whatever reason) a '
    'restart and another drain.  The model keeps the requested stop point '
    '(command / option: stored; configuration: re-read at restart), the stop '
    'task and whether it succeeded, from the commands and trace alone.  '
    'Oracle: (1) no task beyond the stop point in effect enters the '
    'preparing state unless it carries the manual-submit flag or a trigger '
    'command named it; (2) at the end of the drain the scheduler is not left '
    'running with only runahead-limited waiting tasks beyond the stop point; '
    '(3) after an automatic shutdown (not one a finished stop task may have '
    'caused) a command/option stop point is gone: workflow_params.stopcp is '
    'NULL while down, the restarted pool stops at the configured / final '
    'point and, if a ready task beyond the old point heads the pool, '
    'something beyond it is submitted later; after any requested stop the '
    'stop point is in workflow_params and in force after the restart; (4) '
    'once the stop task turns succeeded (with the stop task set before) a '
    'shutdown follows by the end of the drain; (5) at a clean-stop shutdown '
    'no pooled task that was submitted/running when the iteration began has '
    'a live job in the cluster; (6) stop --now kills no job, and every task '
    'that was submitted/running with a live job at that shutdown is '
    'submitted/running with the same submit number right after the restart '
    'and is not left active with a finished job at the end; (7) right after '
    'a reload the scheduler stops at the stop point that was in force before '
    'it.  Non-trivial = '
    'some stop request was in force (stop point below the final point, stop '
    'task, or stop command), a shutdown happened and a restart followed; '
    'distinct by the whole case.')
ASSUMPTIONS = [
    '"Submitted" beyond the stop point = the status change to preparing '
    '(jobs already in the submission pipeline when the stop point is set are '
    'not covered); manually triggered = manual-submit flag at that moment, or '
    'a trigger command named the instance earlier.',
    '"Shuts down once nothing at or before it remains to run" is decided at '
    'quiescence of the fair drain only, and only the clear case is reported: '
    'every pooled task is a runahead-limited waiting task beyond the stop '
    'point, the incarnation has submitted a job, the scheduler is not in '
    'its restart-timeout wait (observed flag: a restart that finds nothing '
    'left to run waits PT2M for the user; the engine runs commands between '
    'main-loop iterations, so a triggered job can come and go without the '
    'scheduler sampling the change that ends the wait, and the virtual clock '
    'does not run the timeout down) and no stop was requested.',
    '"Forgotten once reached" is read on stop points that the scheduler '
    'stores (stop command, --stopcp): after a shutdown with reason AUTOMATIC '
    'the value is gone.  A configured [scheduling]stop after cycle point is '
    're-read from flow.cylc at every restart by design (documented with the '
    'restart timeout) and is only required to be in force again.  '
    '"Reached" = nothing at or before the stop point remains to run: an '
    'AUTOMATIC shutdown decided (pool at the scheduler\'s AUTO stop '
    'decision) while a stop task is set and an active or released waiting '
    'task at or before the stop point is in the pool has not reached the '
    'stop point; it is attributed to the stop task - which also fires when '
    'it was named while already finished (failed / incomplete) in the pool '
    'and is re-run later, class shutdown-by-stop-task-finished-before-named '
    '- and the stop point must have been kept.  Otherwise, right after the '
    'stop task reached a final state or left the pool finished (or with it '
    'sitting finished in the pool, or with only tasks beyond the stop point '
    'left to run) the cause is ambiguous and clause (3) is skipped from '
    'then on.  The model drops the stop task at such shutdowns (the '
    'scheduler consumes it when it fires) whether or not the stop point is '
    'still being judged.',
    '"A clean stop waits for active jobs": active = task submitted/running '
    '(cylc\'s TASK_STATUSES_ACTIVE).  A task still preparing when the '
    'scheduler decides it can stop, whose jobs-submit command returns while '
    'the process pool drains during shutdown, ends up submitted with a live '
    'job; this is counted (class clean-stop-left-job-submitted-during-'
    'shutdown) but not reported.',
    '"The workflow stops after that task succeeds": any shutdown after the '
    'stop task turned succeeded satisfies it; that the scheduler also stops '
    'when the stop task fails is not contradicted by the statement.  '
    '"Succeeds" = the task status turns succeeded, whether or not the task '
    'then counts as complete (class stop-task-succeeded-incomplete-as-'
    'scripted: by the harness completion model applied to the scripted job '
    'outcome).  Cylc 7 compatibility mode (suite.rc) is not generated.',
    'A stop point is changed only by a stop-point command or by being '
    'reached: a reload of the unchanged definition is neither, so the stop '
    'point in force (TaskPool.stop_point, observation) must be the same '
    'after it (clause 7); what the reload writes to workflow_params is '
    'judged by clause (3) at the next shutdown / restart.  After a clause-7 '
    'violation the remaining stop-point clauses are skipped for that case '
    '(one root cause, one signature).',
    'Order in which pending commands return while the scheduler drains its '
    'process pool during shutdown is FIFO (engine S).',
    'A reload step is skipped while a stop request is pending (scheduler '
    'stop mode set, observation): such a reload loops inside one main-loop '
    'call until the awaited job messages arrive, which engine S can only '
    'deliver between calls (class reload-skipped-stop-pending).',
    'The restart poll returns in the main-loop iteration after the one '
    'that launched it (a poll result that arrives after newer job messages is the '
    'recorded C09/C10 late-poll-result finding and is kept out of the '
    'schedules).',
    'Status changes are taken from the pooled task proxy only (state events '
    'of data-store ghost proxies / proxies rebuilt from DB history are '
    'dropped by comparing with the pooled proxy).',
    'Known finding (own narrow signature ...:stop-task-lost-at-second-'
    'restart): the stop task is restored at the first restart but wiped from '
    'workflow_params then, so it is gone after the second; a stop task that '
    'succeeds 0 or 1 restarts after the command keeps the plain signature.',
]

MAX_RESTARTS = 4
FINAL = ('succeeded', 'failed', 'submit-failed', 'expired')
BASE_OPS = ['loop', 'loop', 'loop', 'ret', 'adv', 'del', 'del', 'fair',
            'fair', 'fair']
CMD_OPS = ['stop-point', 'stop-point', 'stop-point', 'stop-task', 'stop-task',
           'trigger', 'trigger', 'trigger', 'restart', 'stop-clean',
           'stop-now', 'reload']
# scenario families (drawn): free history / a stop point that reaches the
# scheduler by two mechanisms in sequence and is then reloaded / a stop task
# whose job succeeds without completing the task's required outputs
FOCUS = ['free', 'free', 'free', 'free', 'reload', 'reload',
         'incomplete-stop-task', 'incomplete-stop-task']


def incomplete_success_outcomes(spec):
    """[(task, outcome)]: scripted job outcomes that end with the
    `succeeded` message although the task is then incomplete by the
    reference completion rule (a required custom output is never sent, or
    the graph requires :fail)."""
    model = Model(spec)
    out = []
    for t in spec['tasks']:
        if not model.valid.get(t):
            continue
        ocs = [{'final': 'succeeded'}]
        ocs += [{'final': 'succeeded', 'skip': [nm]}
                for nm in spec.get('custom', {}).get(t, {})]
        for oc in ocs:
            outs = job_outputs(spec, t, oc)
            if 'succeeded' in outs and not model.complete(t, outs):
                out.append((t, oc))
    return out


def add_required_output(draw, spec):
    """Give one task a required custom output `zq` (consumed by a new
    last-ranked task `zz` in a section where the task has a home)."""
    cands = [(si, t) for si, sec in enumerate(spec['sections'])
             for t in spec['tasks']
             if not spec['opt'][t].get('fail_required')
             and any(t in ln['rhs'] for ln in sec['lines'])]
    if not cands or 'zz' in spec['tasks']:
        return
    si, u = draw(st.sampled_from(cands))
    spec['custom'].setdefault(u, {})['zq'] = 'zq done'
    spec['opt'][u].setdefault('custom', {})['zq'] = False
    spec['tasks'].append('zz')
    spec['opt']['zz'] = {'succ': False, 'submit': False,
                         'fail_required': False, 'custom': {}}
    spec['sections'][si]['lines'].append({
        'lhs': {'t': u, 'off': None, 'abs': None, 'out': 'zq',
                'implicit': False, 'longform': False},
        'rhs': ['zz']})


@st.composite
def cases(draw):
    spec = draw(wfspecs({'max_tasks': 4, 'max_fcp': 5, 'abs': False,
                         'fail_required': True}))
    focus = draw(st.sampled_from(FOCUS))
    src = draw(st.integers(0, 5))
    how = draw(st.integers(0, 2))
    if focus == 'reload' and how == 0:
        src = 1
    stopcp = None
    if src == 0:
        spec['extra']['stop_after'] = draw(
            st.integers(spec['icp'], spec['fcp']))
    elif src == 1:
        stopcp = draw(st.integers(spec['icp'], spec['fcp']))
    if draw(st.integers(0, 2)) == 0:
        spec['extra']['runahead'] = 'P%d' % draw(st.integers(0, 3))
    target = None
    if focus == 'incomplete-stop-task':
        cands = incomplete_success_outcomes(spec)
        if not cands:
            add_required_output(draw, spec)
            cands = incomplete_success_outcomes(spec)
        if cands:
            t, oc = draw(st.sampled_from(cands))
            p = draw(st.sampled_from(sorted(Model(spec).valid[t])))
            target = (t, p, oc)
    outcomes = draw(outcome_maps(spec))
    num = st.integers(0, 31)
    step = st.tuples(st.sampled_from(BASE_OPS + CMD_OPS), num).map(list)
    base = st.tuples(st.sampled_from(BASE_OPS), num).map(list)
    early = draw(st.lists(
        st.tuples(st.sampled_from(['stop-point', 'stop-task', 'fair', 'fair']),
                  num).map(list), max_size=3))
    if target is not None:
        # the stop task is an instance whose (first) job succeeds incomplete
        t, p, oc = target
        outcomes[f'{p}/{t}'] = [oc]
        idx = Model(spec).instances().index((t, p))
        # odd n: Driver.pick takes model instance n // 2
        early.insert(draw(st.integers(0, len(early))),
                     ['stop-task', 2 * idx + 1])
    pre = []
    if focus == 'reload':
        # a stop point the scheduler started with (--stopcp, configuration,
        # or a stop command followed by a restart: loaded from the DB), a
        # stop-point command on top of it, a reload soon after
        if how == 1:
            pre += [['stop-point', draw(num)]]
            pre += draw(st.lists(base, max_size=2))
            pre += [['restart', draw(num)]]
        pre += [['stop-point', draw(num)]]
        pre += draw(st.lists(base, max_size=3))
        pre += [['reload', 0]]
    sched = early + pre + draw(st.lists(step, min_size=6, max_size=42))
    down = [draw(st.integers(0, 2)), draw(st.integers(0, 2))]
    return {'spec': spec, 'outcomes': outcomes, 'schedule': sched,
            'stopcp': stopcp, 'down': down, 'focus': focus}


def check_case(case, ctx: Ctx) -> CaseResult:
    return run_async(_check(case, ctx))


class StopModel:
    def __init__(self, sc, case):
        self.sc = sc
        self.sim = sc.sim
        self.to_int = sc.drv.to_int
        self.to_str = sc.drv.to_str
        self.fcp = sc.spec['fcp']
        self.S_cfg = sc.spec['extra'].get('stop_after')
        self.S_cmd = case.get('stopcp')
        self.sure = True
        self.stop_task = None
        self.stop_task_final = False
        self.stop_task_final_it = -1
        self.pending_stop_task = None     # detail once the stop task succeeded
        self.stop_task_restarts = 0       # restarts since the stop-task command
        self.pending_restarts = 0
        self.triggered: set = set()
        self.explicit = None              # 'clean' | 'now' once requested
        self.viol: list = []
        self.classes: set = set()
        self.shutdowns: list = []
        self.restarts = 0
        self.submitted_it: dict = {}      # ident -> iteration it turned submitted
        self.now_active: dict = {}        # job key -> ident, left by stop --now
        self.recovering: dict = {}
        self.forgot = None                # old stop point just forgotten
        self.auto_set = None              # pool at the last AUTO stop decision
        self.run_on = None
        self.launch_inc: dict = {}        # incarnation -> [(point, name)]
        self.requested = False
        self.model = sc.model
        self.outcomes = case.get('outcomes') or {}
        # stop point the running incarnation started with from --stopcp or
        # the DB (what it holds apart from later commands)
        self.S_start = self.S_cmd
        self.classes.add('focus:' + case.get('focus', 'free'))
        if self.S_cfg is not None:
            self.classes.add('stop-point:config')
        if self.S_cmd is not None:
            self.classes.add('stop-point:option')
        if self.eff() < self.fcp:
            self.requested = True

    def eff(self) -> int:
        if self.S_cmd is not None:
            return self.S_cmd
        return self.S_cfg if self.S_cfg is not None else self.fcp

    def pt(self, cycle):
        p = self.to_int.get(cycle)
        return p if p is not None else -10 ** 6

    def v(self, sig, detail):
        self.viol.append(Violation('C43:' + sig, detail))

    def is_pool_event(self, ident, ev) -> bool:
        """Drop state events of TaskProxy objects that are not the pooled
        proxy (data-store ghosts, proxies rebuilt from DB history)."""
        schd = self.sim.schd
        itask = schd.pool._get_task_by_id(ident) if schd else None
        if itask is None:
            return False
        s = itask.state
        now = [s.status, bool(s.is_held), bool(s.is_queued),
               bool(s.is_runahead)]
        aft = [ev['after'][0]] + [bool(x) for x in ev['after'][1:]]
        return now == aft and itask.submit_num == ev['submit_num']

    # -- trace hook ---------------------------------------------------------
    def on_ev(self, kind, ev):
        if kind == 'state':
            ident = f'{ev["cycle"]}/{ev["name"]}'
            b, a = ev['before'], ev['after']
            if b[0] == a[0] or not self.is_pool_event(ident, ev):
                return
            if a[0] == 'submitted':
                self.submitted_it[ident] = ev['it']
            if a[0] == 'preparing' and (
                    'prep_submit_task_jobs' in ev['site']
                    or 'submit_nonlive_task_jobs' in ev['site']):
                p = self.pt(ev['cycle'])
                if self.sure and p > self.eff():
                    if ev.get('manual') or ident in self.triggered:
                        self.classes.add('manual-run-beyond-stop-point')
                    else:
                        self.v('submitted-beyond-stop-point',
                               f'{ident} (point {p}) entered the preparing '
                               f'state at iteration {ev["it"]} (incarnation '
                               f'{ev["inc"]}); stop point in effect '
                               f'{self.eff()} (command/option '
                               f'{self.S_cmd}, config {self.S_cfg}); not '
                               f'manually triggered')
            if self.stop_task == ident and a[0] in FINAL:
                self.stop_task_final = True
                self.stop_task_final_it = ev['it']
                if a[0] == 'succeeded':
                    self.classes.add('stop-task-succeeded')
                    outs = job_outputs(
                        self.sc.spec, ev['name'], outcome_for(
                            self.outcomes, ev['name'], self.pt(ev['cycle']),
                            ev['submit_num']))
                    if not self.model.complete(ev['name'], outs):
                        self.classes.add(
                            'stop-task-succeeded-incomplete-as-scripted')
                    self.pending_restarts = self.stop_task_restarts
                    self.pending_stop_task = (
                        f'stop task {ident} turned succeeded at iteration '
                        f'{ev["it"]} (incarnation {ev["inc"]}, '
                        f'{self.stop_task_restarts} restart(s) after the '
                        f'stop-task command)')
        elif kind == 'remove':
            # a stop task named while it sat finished (incomplete) in the
            # pool is flagged when it is looked at again - at the latest
            # when it completes and leaves the pool
            ident = f'{ev["cycle"]}/{ev["name"]}'
            if self.stop_task == ident and ev.get('status') in FINAL:
                self.stop_task_final = True
                self.stop_task_final_it = ev['it']
        elif kind == 'launch':
            self.launch_inc.setdefault(ev['inc'], []).append(
                (self.pt(ev['cycle']), ev['name']))
        elif kind == 'kill':
            if self.explicit == 'now':
                self.v('stop-now-killed-job',
                       f'job {ev["job"]} killed after stop --now')
        elif kind == 'set-stop':
            if ev.get('mode') == 'AUTO':
                self.auto_set = {'inc': ev['inc'], 'it': ev['it'],
                                 'pool': ev['pool']}
        elif kind == 'shutdown':
            self.on_shutdown(ev)
        elif kind == 'stopped':
            self.on_stopped(ev)

    def on_shutdown(self, ev):
        sim = self.sim
        k = stop_kind(ev['reason'])
        self.classes.add('shutdown:' + k)
        # the pool when the scheduler decided to stop by itself (it may wait
        # for active jobs after that), else the pool at the shutdown
        pool0 = ev['pool']
        if k == 'auto' and self.auto_set is not None \
                and self.auto_set['inc'] == ev['inc']:
            pool0 = self.auto_set['pool']
        self.auto_set = None
        rec = {'kind': k, 'it': ev['it'], 'inc': ev['inc'],
               'reason': ev['reason'],
               # tasks that rule out "nothing more to run" as the cause
               'blockers': [
                   (f'{t["cycle"]}/{t["name"]}', self.pt(t['cycle']))
                   for t in pool0
                   if t['status'] in ('preparing', 'submitted', 'running')
                   or (t['status'] == 'waiting' and not t['runahead'])]}
        # the stop task sits in the pool in a final state (e.g. set after it
        # had finished incomplete): it fires whenever the scheduler looks at
        # that task again
        rec['stop_task_final_in_pool'] = any(
            f'{t["cycle"]}/{t["name"]}' == self.stop_task
            and t['status'] in FINAL for t in ev['pool'])
        self.shutdowns.append(rec)
        self.pending_stop_task = None
        active = []
        for t in ev['pool']:
            if t['status'] in ('submitted', 'running'):
                job = sim.jobs.get((t['cycle'], t['name'], t['submit_num']))
                if job is not None and job.live:
                    active.append((t, job))
        if k == 'clean':
            for t, job in active:
                ident = f'{t["cycle"]}/{t["name"]}'
                if self.submitted_it.get(ident) == ev['it']:
                    # jobs-submit returned while the pool drained in shutdown
                    self.classes.add(
                        'clean-stop-left-job-submitted-during-shutdown')
                    continue
                self.v('clean-stop-left-active-job',
                       f'clean stop shut down at iteration {ev["it"]} while '
                       f'{ident} is {t["status"]} and its job {job.rel_id} '
                       f'is live in the cluster (emitted {job.emitted})')
        if k == 'now':
            for t, job in active:
                self.now_active[job.key] = f'{t["cycle"]}/{t["name"]}'
                if job.killed:
                    self.v('stop-now-killed-job',
                           f'{job.rel_id} killed during stop --now')
            if active:
                self.classes.add('stop-now-left-active-jobs')

    def on_stopped(self, ev):
        if not self.shutdowns:
            self.sure = False
            return
        rec = self.shutdowns[-1]
        k = rec['kind']
        db = read_db(self.sim)
        rec['db_stopcp'] = db.get('stopcp')
        self.explicit = None
        self.forgot = None
        # -- who caused an AUTOMATIC shutdown: kept up to date whether or
        # not the stop point is still being judged (the scheduler consumes
        # the stop task when it fires)
        ambiguous = False
        if k == 'auto' and self.stop_task is not None:
            low = [b for b, p in rec['blockers'] if p <= self.eff()]
            may = rec['stop_task_final_in_pool'] or (
                self.stop_task_final
                and self.stop_task_final_it >= rec['it'] - 1)
            if low:
                # something at or before the stop point was active or
                # released when the scheduler decided to stop: the stop
                # point has not been reached, the stop task (named while
                # finished, or finished since) caused this shutdown
                k = 'stop-task'
                self.stop_task = None       # consumed
                self.classes.add('shutdown-by-stop-task')
                if not may:
                    self.classes.add(
                        'shutdown-by-stop-task-finished-before-named')
            elif may or rec['blockers']:
                # the stop task finished in the previous iteration (or sits
                # finished in the pool) and nothing at or before the stop
                # point remained: either cause possible (then the stop
                # point may be kept)
                ambiguous = True
                self.stop_task = None
                self.classes.add('auto-shutdown-cause-ambiguous')
        self.stop_task_final = False
        if ambiguous:
            self.sure = False
        if not self.sure or 'stopcp' not in db:
            return
        want = self.to_str[self.S_cmd] if self.S_cmd is not None else None
        if k == 'auto':
            if self.eff() < self.fcp:
                self.classes.add('auto-shutdown-at-stop-point')
            if self.S_cmd is not None:
                self.classes.add('stop-point-reached-then-restart')
                if db['stopcp'] is not None:
                    self.v('stop-point-not-forgotten-after-reached',
                           f'automatic shutdown at iteration {rec["it"]} '
                           f'with stop point {want} reached, but '
                           f'workflow_params.stopcp = {db["stopcp"]} while '
                           f'the scheduler is down')
                self.forgot = self.S_cmd
                self.S_cmd = None
        elif k in ('clean', 'now', 'stop-task'):
            if db['stopcp'] != want:
                self.v('db-stop-point-differs-from-request',
                       f'shutdown {rec["reason"]} at iteration {rec["it"]}: '
                       f'workflow_params.stopcp = {db["stopcp"]} while down; '
                       f'requested stop point {want} (config '
                       f'{self.S_cfg})')
            if self.S_cmd is not None:
                self.classes.add('stop-point-pending-then-restart')
        else:
            self.sure = False

    # -- command hooks ------------------------------------------------------
    def post(self, name, info, ev):
        self.classes.add('cmd:' + name)
        if ev.get('err'):
            self.sure = False
            self.classes.add('command-error')
            return
        if name in ('stop-point', 'stop-task'):
            # a new stop request: "runs on" is no longer expected
            self.run_on = None
        if name == 'stop-point':
            p = info['point']
            if p != self.eff():
                self.S_cmd = p
            if self.eff() < self.fcp:
                self.requested = True
                self.classes.add('stop-point:command')
        elif name == 'stop-task':
            self.stop_task = info['task']
            self.stop_task_final = False
            self.pending_stop_task = None
            self.stop_task_restarts = 0
            self.requested = True
        elif name == 'trigger':
            self.triggered.add(info['task'])
        elif name == 'reload':
            self.after_reload()
        elif name in ('stop-clean', 'stop-now'):
            if any(t['status'] in ('submitted', 'running')
                   for t in ev['before']):
                self.classes.add(name + '-with-active-tasks')
            if self.explicit is None or name == 'stop-now':
                self.explicit = name.split('-')[1]
            self.requested = True

    # -- reload ---------------------------------------------------------------
    def after_reload(self):
        """The definition is unchanged: the stop point in force before the
        reload is in force after it."""
        sim = self.sim
        if not sim.running or not self.sure:
            return
        if self.eff() < self.fcp:
            self.classes.add('reload-with-stop-point-in-force')
        if self.S_cmd is not None:
            self.classes.add('reload-with-stored-stop-point')
            if self.S_start is not None and self.S_start != self.S_cmd:
                self.classes.add(
                    'reload-after-stop-command-over-startup-stop-point')
            elif self.S_start is None and self.S_cfg is not None:
                self.classes.add(
                    'reload-after-stop-command-over-config-stop-point')
        got = str(sim.schd.pool.stop_point)
        want = self.to_str[self.eff()]
        if got != want:
            self.v('stop-point-changed-by-reload',
                   f'reload at iteration {sim.iteration} (incarnation '
                   f'{sim.incarnation}): stop point in force before it '
                   f'{want} (command/option {self.S_cmd}, config '
                   f'{self.S_cfg}; the incarnation started with '
                   f'{self.S_start} from --stopcp / the DB); after the '
                   f'reload the scheduler stops at {got}')
            # the rest of the history is judged against a stop point the
            # scheduler no longer has
            self.sure = False

    # -- restart --------------------------------------------------------------
    def after_restart(self, drv):
        sim = self.sim
        self.restarts += 1
        self.stop_task_restarts += 1
        self.classes.add('restart')
        snap = sim.pool_snapshot()
        where = f'restart {self.restarts} (iteration {sim.iteration})'
        got = str(sim.schd.pool.stop_point)
        if self.sure:
            want = self.to_str[self.eff()]
            if got != want:
                if self.forgot is not None:
                    self.v('stop-point-not-forgotten-after-reached',
                           f'{where}: stop point {self.to_str[self.forgot]} '
                           f'was reached (automatic shutdown) but the '
                           f'restarted scheduler stops at {got}; expected '
                           f'{want}')
                else:
                    self.v('stop-point-lost-on-restart',
                           f'{where}: requested stop point {want} (command/'
                           f'option {self.S_cmd}, config {self.S_cfg}) but '
                           f'the restarted scheduler stops at {got}; '
                           f'workflow_params.stopcp was '
                           f'{self.shutdowns[-1].get("db_stopcp")}')
            if self.forgot is not None and self.S_cfg is None and snap:
                p0 = min(self.pt(t['cycle']) for t in snap)
                ready = [f'{t["cycle"]}/{t["name"]}' for t in snap
                         if self.pt(t['cycle']) == p0 and p0 > self.forgot
                         and t['status'] == 'waiting' and t['prereqs_all']
                         and not t['held']
                         and all(t['xtriggers'].values())]
                if ready:
                    self.run_on = {'S': self.forgot, 'inc': sim.incarnation,
                                   'ready': ready}
        # jobs left by stop --now must be recovered as active tasks
        by_id = {f'{t["cycle"]}/{t["name"]}': t for t in snap}
        for key, ident in sorted(self.now_active.items()):
            t = by_id.get(ident)
            if t is None or t['status'] not in ('submitted', 'running') \
                    or t['submit_num'] != key[2]:
                self.v('stop-now-active-job-not-recovered',
                       f'{where}: {ident} job {key[2]:02d} was '
                       f'submitted/running with a live job when stop --now '
                       f'shut the scheduler down; after the restart the '
                       f'pool has '
                       f'{None if t is None else (t["status"], t["submit_num"])}')
            else:
                self.classes.add('stop-now-job-recovered-active')
        self.recovering = dict(self.now_active)
        self.now_active = {}
        self.S_start = self.S_cmd

    # -- end of case ------------------------------------------------------------
    def finish(self, sc):
        sim = self.sim
        if sc.inconclusive or sim.crashed is not None:
            return
        running = sim.running
        last_auto = bool(self.shutdowns) and \
            self.shutdowns[-1]['kind'] == 'auto'
        if running:
            snap = sim.pool_snapshot()
            if self.pending_stop_task:
                sig = 'stop-task-succeeded-no-shutdown'
                if self.pending_restarts >= 2:
                    # one root cause recorded as a known finding: the stop
                    # task is wiped from workflow_params at the first restart
                    sig += ':stop-task-lost-at-second-restart'
                self.v(sig,
                       f'{self.pending_stop_task} but the scheduler is '
                       f'still running at quiescence (iteration '
                       f'{sim.iteration})')
            eff = self.eff()
            if getattr(sim.schd, 'is_restart_timeout_wait', False):
                # the restarted scheduler is (still) giving the user its
                # restart-timeout grace period; the virtual clock does not
                # run it down
                self.classes.add('quiescent-in-restart-timeout-wait')
            elif (self.sure and self.explicit is None
                    and self.launch_inc.get(sim.incarnation)
                    and not sim.schd.is_paused
                    and all(self.pt(t['cycle']) > eff
                            and t['status'] == 'waiting' and t['runahead']
                            and not t['held'] for t in snap)):
                self.v('no-shutdown-at-stop-point',
                       f'stop point {eff}: at quiescence (iteration '
                       f'{sim.iteration}) the scheduler is still running '
                       f'although the pool holds only runahead-limited '
                       f'waiting tasks beyond it: '
                       f'{[(t["cycle"], t["name"]) for t in snap]}')
            # jobs recovered after stop --now: not left active once finished
            by_id = {f'{t["cycle"]}/{t["name"]}': t for t in snap}
            for key, ident in sorted(self.recovering.items()):
                t = by_id.get(ident)
                job = sim.jobs.get(key)
                if (t is not None and job is not None
                        and t['status'] in ('submitted', 'running')
                        and t['submit_num'] == key[2]
                        and (job.final is not None or job.killed)):
                    self.v('stop-now-job-result-never-recovered',
                           f'{ident} job {key[2]:02d} finished '
                           f'({job.emitted}) but the task is still '
                           f'{t["status"]} at quiescence after the restart')
        if self.run_on and (running or last_auto):
            S = self.run_on['S']
            later = [x for inc, xs in self.launch_inc.items()
                     if inc >= self.run_on['inc'] for x in xs if x[0] > S]
            if later:
                self.classes.add('ran-on-after-stop-point-forgotten')
            else:
                self.v('no-run-on-after-stop-point-forgotten',
                       f'stop point {S} was reached and forgotten; after '
                       f'the restart (incarnation {self.run_on["inc"]}) '
                       f'{self.run_on["ready"]} were ready at the head of '
                       f'the pool but nothing beyond {S} was submitted')


async def _check(case, ctx: Ctx) -> CaseResult:
    from vf.sim.drive import point_maps
    _ti, to_str = point_maps(case['spec'])
    start_opts = {}
    if case.get('stopcp') is not None:
        start_opts['stopcp'] = to_str[case['stopcp']]
    async with SCase(case, ctx, start_opts=start_opts) as sc:
        if sc.rejected:
            return CaseResult(sc.crash_violations('C43'), False,
                              ['rejected:' + sc.rejected])
        sim = sc.sim
        m = StopModel(sc, case)
        sim.hooks.append(m.on_ev)
        wrap_commands(sc.drv, None, m.post)
        sc.drv.after_restart.append(m.after_restart)
        sc.drv.after_loop.append(return_polls_promptly)
        down = case.get('down') or [0, 0]

        async def restart_after_shutdown():
            """The scheduler is down: jobs may carry on (their messages are
            lost), then a new scheduler on the same run directory."""
            for msg in list(sim.inflight):
                sim.deliver(msg)
            act = down[m.restarts % len(down)]
            for _ in range(0 if not act else (1 if act == 1 else 20)):
                for job in sorted(sim.live_jobs(), key=lambda j: j.key):
                    msg = sim.advance(job)
                    if msg is not None:
                        sim.deliver(msg)
            await sc.drv.restart()

        # the generated history continues across shutdowns (every shutdown,
        # requested or automatic, is followed by a restart), up to MAX_RESTARTS
        for step in sc.schedule:
            if not sim.running:
                if sim.crashed is not None or m.restarts >= MAX_RESTARTS:
                    break
                await restart_after_shutdown()
                if not sim.running:
                    break
            if step[0] == 'reload' and sim.schd.stop_mode is not None:
                # a reload while a stop request waits for active jobs spins
                # inside one main-loop call until a job message arrives;
                # engine S delivers messages between calls only
                m.classes.add('reload-skipped-stop-pending')
                continue
            await run_schedule_ext(sc, [step])
            if step[0] == 'stop-clean' and sim.running:
                # the scheduler iterates once before any job gets further
                await sc.drv.loop()
        for rnd in range(3):
            await sc.drain()
            if sim.running or sim.crashed is not None or rnd == 2 \
                    or m.restarts >= MAX_RESTARTS + 2:
                break
            await restart_after_shutdown()
        m.finish(sc)
        viol = sc.crash_violations('C43') + m.viol
        uniq = {}
        for v in viol:
            uniq.setdefault(v.sig, v)
        nontrivial = bool(m.requested and m.shutdowns and m.restarts)
        return CaseResult(list(uniq.values()), nontrivial, sorted(m.classes),
                          inconclusive=sc.inconclusive,
                          info={'flow': sc.drv.flow_text,
                                'start_opts': start_opts,
                                'shutdowns': [
                                    [s['kind'], s['it'], s.get('db_stopcp')]
                                    for s in m.shutdowns]})


def run_shard(ctx: Ctx):
    hyp_run(ctx, cases(), check_case, ctx.share(BUDGET[ctx.tier]))
