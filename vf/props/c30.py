"""C30 Removing a task undoes exactly its effects."""
from __future__ import annotations

from hypothesis import strategies as st

from vf.core import CaseResult, Ctx, Violation, exc_sig, hyp_run
from vf.gen.wfspec import wfspecs
from vf.sim.c08_util import (
    FlowMonitor, basic_steps, children_of, db_task_tables, flow_commands,
    run_step, settle_steps)
from vf.sim.drive import SCase, outcome_maps, run_async

PROP_ID = 'C30'
LEVEL = 'exploration'
BUDGET = {'quick': 360, 'thorough': 9000}
MANIFEST = {
    'engine': 'S',
    'technique': 'stateful PBT on the stepped scheduler: pool snapshot and '
                 'DB (task_states/task_outputs per flow) before/after every '
                 '`remove` compared with a predicted diff from the harness '
                 'graph model; later respawn attempts monitored',
}
RULE = (
    'Generated workflow (AND/OR joins, inter-cycle offsets, optional/custom '
    'outputs, runahead P0-P2 in 3/4 of the cases; no absolute/future '
    'triggers) + outcomes and a history = settle(0-5 fair rounds) followed by '
    '2-7 blocks [0-3 filler steps (loop / return / advance / deliver / '
    'settle / trigger or set with --flow=new|N|none|default, --wait / set '
    '--pre=<one atom> of a pooled task), optionally a restart or another '
    'such command, ONE REMOVAL, optionally a "respawn" (cylc set of an '
    'output of a parent of the removed instance) or a settle], then a fair '
    'drain.  A removal targets any pooled / finished / not-yet-spawned '
    'instance, or (2/3) a graph parent of a pooled task, with no --flow or '
    '--flow=N[,M]; it is raw (command only, 1/3) or quiet (2/3: one '
    'main-loop iteration before and after with nothing delivered in '
    'between; task_states / task_outputs read through a fresh connection '
    'before and after).  One main-loop iteration follows every restart '
    'before the next command.  Oracle per removal, '
    'from the pool snapshots taken immediately before/after the command: the '
    'target loses exactly the requested flows it had and leaves the pool iff '
    'none remain; in each pooled graph child (harness AST) that shares a '
    'removed flow every atom on the target that was "satisfied naturally" is '
    'unsatisfied afterwards (if the target verifiably had a removed flow), '
    'every "force satisfied" atom is untouched, atoms '
    'on other tasks are untouched; such a child is still pooled if any atom '
    'stays satisfied and is gone if it was waiting, had all its flows '
    'removed, lost an atom and has none satisfied; every other pooled task '
    'keeps its flows (plus flows merged into it by the runahead release the '
    'command ends with), outputs and prerequisite atoms and stays pooled.  '
    'Quiet removals also: afterwards no task_states / task_outputs row of '
    'the target carries a removed flow, every flow of its rows that was not '
    'removed is still recorded, rows of other instances (except children '
    'removed with it) are still there with their flows and outputs.  Run '
    'again later: the first spawn_task attempt for a target that left the '
    'pool / was not pooled, made in removed flows only, must not be refused '
    '(other than by cycle bounds).  Non-trivial = a removal changed the pool '
    'or the target\'s database rows and the target had a pooled child or a '
    'database history; distinct by the case.')
ASSUMPTIONS = [
    'Children\'s atoms are required to be unset only if the target verifiably '
    'had one of the removed flows: it lost flows in the pool, or it was not '
    'pooled and its task_states rows carry a removed flow (read before the '
    'command).  Otherwise (e.g. `remove --flow=3` of an instance that was '
    'never in flow 3) unsetting is accepted but not required.',
    'A target that is in no flow (--flow=none proxy) has no flows to be '
    'removed from; nothing is demanded of it.  More generally, when the '
    'pooled proxy is in none of the requested flows cylc declines the '
    'command ("Task(s) not removable"): the check then only demands that '
    'nothing else changes; history the instance may have in the requested '
    'flows from an earlier life is NOT required to be erased (counted as '
    'class pooled-target-not-removable-history-kept).',
    'Children that share none of the removed flows: their atoms on the '
    'target may or may not be unset (the statement does not say); everything '
    'else about them must be unchanged.',
    'Atoms recorded as "satisfied from database" / "satisfied by skip mode" '
    'are neither required to be unset nor to be kept.',
    'Removal of a child is demanded only if it was waiting, all of its flows '
    'were removed, this removal unset one of its atoms and none is satisfied '
    'any more; it is forbidden if an atom stays satisfied; otherwise either '
    'outcome is accepted (active children, children in further flows).',
    'Runahead / queue / held flags and newly spawned parentless successors '
    'are not compared (the statement names outputs, flows, prerequisites).',
    'The DB clause is evaluated for quiet removals only: the removal\'s table '
    'updates are flushed by the next main-loop iteration, during which the '
    'harness delivers no message and returns no command.',
]

RM_FLOWS = [[], [], [], ['1'], ['2'], ['2'], ['3'], ['1', '2'], ['2', '3']]


@st.composite
def removal_steps(draw):
    kind = draw(st.sampled_from(['remove', 'rmpar', 'rmpar']))
    flow = list(draw(st.sampled_from(RM_FLOWS)))
    quiet = draw(st.integers(0, 2)) > 0
    n = draw(st.integers(0, 23))
    if kind == 'remove':
        return ['rm', n, flow, quiet]
    return ['rmpar', n, draw(st.integers(0, 5)), flow, quiet]


@st.composite
def cases(draw):
    spec = draw(wfspecs({'max_tasks': 5, 'max_fcp': 6, 'abs': False,
                         'future': False}))
    if draw(st.integers(0, 3)):
        spec['extra']['runahead'] = 'P%d' % draw(st.integers(0, 2))
    outcomes = draw(outcome_maps(spec))
    setpre = st.tuples(st.just('setpre'), st.integers(0, 11),
                       st.integers(0, 5)).map(list)
    respawn = st.tuples(st.just('respawn'), st.integers(0, 5)).map(list)
    restart = st.integers(0, 5).map(lambda n: ['restart', n])
    filler = st.one_of(basic_steps(), basic_steps(), basic_steps(),
                       settle_steps(1, 2), flow_commands(), setpre)
    sched = [['settle', draw(st.integers(0, 5))]]
    for _ in range(draw(st.integers(2, 7))):
        # preparation, removal, follow-up
        sched += draw(st.lists(filler, max_size=3))
        k = draw(st.integers(0, 9))
        if k == 0:
            sched.append(draw(restart))
        elif k <= 2:
            sched.append(draw(setpre))
        elif k <= 4:
            sched.append(draw(flow_commands()))
        sched.append(draw(removal_steps()))
        k = draw(st.integers(0, 5))
        if k <= 1:
            sched.append(draw(respawn))
        elif k == 2:
            sched.append(['settle', draw(st.integers(1, 3))])
    return {'spec': spec, 'outcomes': outcomes, 'schedule': sched}


def check_case(case, ctx: Ctx) -> CaseResult:
    return run_async(_check(case, ctx))


def _db_json(tabs):
    return {k: {f'{c}/{n}': rows for (c, n), rows in v.items()}
            for k, v in tabs.items()}


class Runner:
    """Interprets the C30 schedule; keeps the removal records."""

    def __init__(self, sc):
        self.sc = sc
        self.sim = sc.sim
        self.drv = sc.drv
        self.removals = []
        self.last_target = None

    def db(self):
        schd = self.sim.schd
        return _db_json(db_task_tables(schd.workflow_db_mgr.pri_path))

    async def cmd(self, name, gen, **info):
        await self.drv._run(name, gen, **info)

    async def remove(self, id_, flow, quiet):
        from cylc.flow import commands
        sim = self.sim
        if id_ is None or not sim.running:
            return
        rec = {'quiet': quiet, 'task': id_, 'flow': list(flow)}
        if quiet:
            await self.drv.loop()
            if not sim.running:
                return
        rec['db0'] = self.db()
        rec['at'] = len(sim.trace)
        await self.cmd('remove', commands.remove_tasks(
            sim.schd, [id_], list(flow)), task=id_, flow=list(flow))
        rec['ev'] = sim.trace[-1]
        assert rec['ev']['k'] == 'cmd'
        rec['end'] = len(sim.trace)
        cyc, name = id_.split('/', 1)
        gone = False
        # flows merged into pooled tasks by the runahead release that the
        # command runs at its end (parentless successor already pooled)
        rec['merged'] = {}
        for e in sim.trace[rec['at']:rec['end']]:
            if e['k'] == 'x-merge':
                rec['merged'].setdefault(
                    f'{e["cycle"]}/{e["name"]}', []).extend(e['arg'])
            if e.get('cycle') == cyc and e.get('name') == name:
                if e['k'] == 'remove':
                    gone = True
                elif e['k'] == 'add' and gone:
                    rec['readded'] = True
        if quiet:
            schd = sim.schd
            await self.drv.loop()
            rec['db1'] = _db_json(
                db_task_tables(schd.workflow_db_mgr.pri_path))
            rec['running1'] = sim.running
            rec['pool1'] = sim.pool_snapshot() if sim.running else []
        self.removals.append(rec)
        self.last_target = id_

    def parents(self, id_):
        cyc, name = id_.split('/', 1)
        p = self.drv.to_int.get(cyc)
        if p is None:
            return []
        out = []
        for (u, q, o) in self.sc.model.real_atoms(name, p):
            if (u, q, o) not in out and self.sc.model.is_valid(u, q):
                out.append((u, q, o))
        return out

    async def step(self, step):
        from cylc.flow import commands
        sim, drv = self.sim, self.drv
        op = step[0]
        if op == 'rm':
            _, n, flow, quiet = step
            await self.remove(drv.pick(n), flow, quiet)
        elif op == 'rmpar':
            _, n, k, flow, quiet = step
            child = drv.pick(2 * n)
            par = self.parents(child) if child else []
            if par:
                u, q, _o = par[k % len(par)]
                await self.remove(f'{drv.to_str[q]}/{u}', flow, quiet)
            else:
                await self.remove(child, flow, quiet)
        elif op == 'setpre':
            _, n, k = step
            child = drv.pick(2 * n)
            par = self.parents(child) if child else []
            if par and sim.running:
                u, q, o = par[k % len(par)]
                pre = f'{drv.to_str[q]}/{u}:{o}'
                await self.cmd('set', commands.set_prereqs_and_outputs(
                    sim.schd, [child], [], outputs=None,
                    prerequisites=[pre]), task=child, prereqs=[pre],
                    outputs=None, flow=[])
        elif op == 'respawn':
            _, k = step
            par = self.parents(self.last_target) if self.last_target else []
            if par and sim.running:
                u, q, o = par[k % len(par)]
                pid = f'{drv.to_str[q]}/{u}'
                await self.cmd('set', commands.set_prereqs_and_outputs(
                    sim.schd, [pid], [], outputs=[o], prerequisites=None),
                    task=pid, outputs=[o], prereqs=None, flow=[],
                    respawn_of=self.last_target)
        else:
            await run_step(self.sc, step)
            if op == 'restart' and sim.running:
                # a command is never processed before the first main-loop
                # iteration of an incarnation has released the loaded tasks
                await drv.loop()


def _tid(key: str) -> str:
    """'cycle/task:output' -> 'cycle/task'."""
    return key.split(':', 1)[0]


def check_removal(rec, spec, model, to_int, to_str, classes):
    """Violations of one removal record."""
    out = []
    ev = rec['ev']
    tid = rec['task']
    R = {int(x) for x in rec['flow']}
    bmap = {f'{t["cycle"]}/{t["name"]}': t for t in ev['before']}
    amap = {f'{t["cycle"]}/{t["name"]}': t for t in ev['after']}

    def V(sig, detail):
        out.append(Violation(
            'C30:' + sig,
            f'remove {tid}'
            + (f' --flow={",".join(rec["flow"])}' if rec['flow'] else '')
            + f' at iteration {ev["it"]}: {detail}'))

    if ev.get('err'):
        classes.add('remove-rejected')
        if ev['before'] != ev['after']:
            V('rejected-command-changed-pool', f'error {ev["err"]} but the '
              f'pool changed')
        return out
    cyc, name = tid.split('/', 1)
    p = to_int.get(cyc)
    changed = ev['before'] != ev['after']
    # -- target ---------------------------------------------------------
    tb = bmap.get(tid)
    left_pool = False
    hist = set()
    for r in rec['db0']['states'].get(tid, []):
        hist.update(r['flows'])
    # removed flows the target verifiably had (pool or recorded history)
    had = (hist & R) if R else set(hist)
    if tb is not None:
        had |= (set(tb['flows']) & R) if R else set(tb['flows'])
    if not had:
        classes.add('target-never-in-requested-flows')
    # the target's effects must be undone if it lost pool flows, or was not
    # pooled and has history in the removed flows
    rem_pool = set()
    if tb is not None and tb['flows']:
        rem_pool = (set(tb['flows']) & R) if R else set(tb['flows'])
    must_undo = bool(rem_pool) or (tb is None and bool(had))
    if tb is not None:
        classes.add('target-pooled-' + (
            'active' if tb['status'] in ('preparing', 'submitted', 'running')
            else tb['status']))
        F = set(tb['flows'])
        if not F:
            classes.add('target-in-no-flow')
        else:
            rem = F if not R else F & R
            ta = amap.get(tid)
            if rem == F:
                left_pool = True
                classes.add('target-leaves-pool')
                if ta is not None and rec.get('readded'):
                    # removed, then spawned again inside the command (its
                    # parentless predecessor was released from runahead)
                    classes.add('target-respawned-within-the-command')
                    if ta['status'] != 'waiting' or ta['outputs']:
                        V('removal-not-yet-in-database:'
                          'respawned-with-old-state',
                          f'it was removed and at once spawned again by '
                          f'the runahead release inside the command, as '
                          f'{ta["status"]} with outputs {ta["outputs"]}, '
                          f'submit number {ta["submit_num"]} (state before '
                          f'the removal: {tb["status"]}): spawn_task read '
                          f'the history the removal had not yet erased')
                elif ta is not None:
                    V('target-still-pooled-with-no-flow-left',
                      f'it had flows {sorted(F)}, all removed, but is still '
                      f'in the pool with flows {ta["flows"]}')
            elif rem:
                classes.add('target-keeps-some-flows')
                if ta is None:
                    V('target-left-pool-with-flows-remaining',
                      f'it had flows {sorted(F)}; {sorted(F - rem)} should '
                      f'remain but it left the pool')
                elif set(ta['flows']) != F - rem:
                    V('target-flows-wrong',
                      f'flows {sorted(F)} -> {ta["flows"]}, expected '
                      f'{sorted(F - rem)}')
            else:
                classes.add('target-not-in-requested-flows')
                if ta is None:
                    V('target-left-pool-with-flows-remaining',
                      f'it is in flows {sorted(F)} only, none requested, '
                      f'but it left the pool')
                elif set(ta['flows']) != F:
                    V('target-flows-wrong',
                      f'flows {sorted(F)} -> {ta["flows"]}, none of them '
                      f'requested')
    else:
        classes.add('target-not-pooled')
    # -- children ---------------------------------------------------------
    kids = set()
    if p is not None:
        kids = {f'{to_str[q]}/{c}' for (c, q) in children_of(model, name, p)}
    kids.discard(tid)
    handled = set()
    for cid in sorted(kids):
        cb = bmap.get(cid)
        if cb is None:
            continue
        classes.add('child-pooled')
        FC = set(cb['flows'])
        crem = set() if not FC else (FC if not R else FC & R)
        ca = amap.get(cid)
        if not crem:
            # shares no removed flow: atoms on the target may be unset
            classes.add('child-in-other-flows-only')
        handled.add(cid)
        if ca is None:
            classes.add('child-removed')
            if not crem:
                V('unrelated-task-left-pool',
                  f'child {cid} (flows {sorted(FC)}) shares no removed flow '
                  f'but left the pool')
                continue
            stay = [k for k, v in cb['sat'].items() if v and (
                _tid(k) != tid or v == 'force satisfied')]
            if stay:
                V('child-with-satisfied-prerequisite-removed',
                  f'child {cid} left the pool although {stay} stay '
                  f'satisfied (before: {cb["sat"]})')
            continue
        unset = False
        for k, bv in cb['sat'].items():
            av = ca['sat'].get(k)
            if _tid(k) != tid:
                if av != bv:
                    V('prerequisite-on-another-task-changed',
                      f'child {cid}: {k} {bv!r} -> {av!r}')
                continue
            if bv == 'satisfied naturally':
                if crem and must_undo:
                    classes.add('natural-atom-on-target')
                    if av:
                        V('naturally-satisfied-prerequisite-not-unset',
                          f'child {cid} (flows {sorted(FC)}): {k} still '
                          f'{av!r}')
                    else:
                        unset = True
                elif av not in (bv, False):
                    V('prerequisite-changed-oddly',
                      f'child {cid}: {k} {bv!r} -> {av!r}')
                elif not av:
                    unset = True
            elif bv == 'force satisfied':
                classes.add('forced-atom-on-target')
                if av != bv:
                    V('force-satisfied-prerequisite-unset',
                      f'child {cid}: {k} was force satisfied (cylc set '
                      f'--pre / trigger), now {av!r}')
            elif not bv:
                if av:
                    V('prerequisite-became-satisfied',
                      f'child {cid}: {k} {bv!r} -> {av!r}')
            else:
                if not av:
                    unset = True
        if set(ca['flows']) != FC | set(rec['merged'].get(cid, ())):
            V('child-flows-changed',
              f'child {cid}: flows {sorted(FC)} -> {ca["flows"]}')
        if ca['outputs'] != cb['outputs']:
            V('child-outputs-changed',
              f'child {cid}: outputs {cb["outputs"]} -> {ca["outputs"]}')
        if unset:
            classes.add('child-atom-unset')
            if any(ca['sat'].values()):
                classes.add('child-kept-by-another-satisfied-atom')
        if (crem and unset and crem == FC and cb['status'] == 'waiting'
                and not any(ca['sat'].values())):
            V('child-without-satisfied-prerequisite-kept',
              f'child {cid} (waiting, flows {sorted(FC)} all removed) has '
              f'no satisfied prerequisite left ({ca["sat"]}) but is still '
              f'in the pool')
    # -- everything else ----------------------------------------------------
    for oid, ob in bmap.items():
        if oid == tid or oid in handled:
            continue
        oa = amap.get(oid)
        if oa is None:
            V('unrelated-task-left-pool',
              f'{oid} ({ob["status"]}, flows {ob["flows"]}) is neither the '
              f'target nor a child sharing a removed flow, but left the pool')
            continue
        if rec['merged'].get(oid):
            classes.add('flows-merged-by-runahead-release-inside-command')
        if set(oa['flows']) != set(ob['flows']) | set(
                rec['merged'].get(oid, ())):
            V('unrelated-task-flows-changed',
              f'{oid}: flows {ob["flows"]} -> {oa["flows"]}')
        if oa['outputs'] != ob['outputs']:
            V('unrelated-task-outputs-changed',
              f'{oid}: outputs {ob["outputs"]} -> {oa["outputs"]}')
        if oa['sat'] != ob['sat']:
            V('unrelated-task-prerequisites-changed',
              f'{oid}: {ob["sat"]} -> {oa["sat"]}')
    if set(amap) - set(bmap):
        classes.add('new-task-appeared-during-remove')
    # -- database -----------------------------------------------------------
    db_changed = False
    had_history = False
    if rec['quiet']:
        classes.add('quiet-removal')
        db0, db1 = rec['db0'], rec['db1']
        db_changed = any(db0[tab].get(tid) != db1[tab].get(tid)
                         for tab in ('states', 'outputs'))
        pool1 = {f'{t["cycle"]}/{t["name"]}' for t in rec['pool1']}
        respawned = (tid in pool1 and tid not in amap) or bool(
            rec.get('readded'))
        if respawned:
            classes.add('target-respawned-in-next-iteration')
        for tab in ('states', 'outputs'):
            rows0 = db0[tab].get(tid, [])
            rows1 = db1[tab].get(tid, [])
            if any(r['flows'] for r in rows0):
                had_history = True
            if tab == 'states' and rows0:
                classes.add('target-has-db-history')
                if len({tuple(r['flows']) for r in rows0}) > 1:
                    classes.add('target-has-history-in-several-flow-sets')
            fl1 = [set(r['flows']) for r in rows1]
            bad = [sorted(f) for f in fl1 if (f & R if R else f)]
            if bad and tb is not None and not rem_pool:
                # cylc declines the command ("not removable") when the
                # pooled proxy is in none of the requested flows
                classes.add('pooled-target-not-removable-history-kept')
            elif not respawned:
                if bad:
                    V('history-not-erased',
                      f'task_{tab} rows of the target still carry removed '
                      f'flows: {bad} (before: '
                      f'{[r["flows"] for r in rows0]})')
            if R:
                for r in rows0:
                    keep = set(r['flows']) - R
                    if keep and r['flows'] and set(r['flows']) & R:
                        classes.add('history-row-partly-removed')
                    if keep and not any(keep <= f for f in fl1):
                        V('history-of-other-flows-erased',
                          f'task_{tab} row of the target with flows '
                          f'{r["flows"]} should keep {sorted(keep)}; rows '
                          f'now: {[sorted(f) for f in fl1]}')
            if not rec['running1']:
                classes.add('shutdown-right-after-remove')
                continue
            for oid, orows0 in db0[tab].items():
                if oid == tid:
                    continue
                if oid in kids and oid in bmap and oid not in amap:
                    continue        # child removed with the target
                orows1 = db1[tab].get(oid, [])
                for r in orows0:
                    match = [x for x in orows1 if x['flows'] == r['flows']]
                    if not match:
                        V('history-of-another-task-changed',
                          f'task_{tab} row {oid} flows {r["flows"]} is gone;'
                          f' rows now {[x["flows"] for x in orows1]}')
                    elif tab == 'outputs' and not (
                            set(r['outputs']) <= set(match[0]['outputs'])):
                        V('outputs-of-another-task-changed',
                          f'task_outputs row {oid} flows {r["flows"]}: '
                          f'{r["outputs"]} -> {match[0]["outputs"]}')
    rec['nontrivial'] = (changed or db_changed) and (
        bool(kids & set(bmap)) or had_history)
    rec['left_pool'] = left_pool
    return out


def check_run_again(removals, trace, classes):
    """First spawn attempt after a removal must not be blocked by history."""
    out = []
    for rec in removals:
        ev = rec['ev']
        if ev.get('err'):
            continue
        tid = rec['task']
        amap = {f'{t["cycle"]}/{t["name"]}' for t in ev['after']}
        if tid in amap:
            continue
        R = {int(x) for x in rec['flow']}
        cyc, name = tid.split('/', 1)
        # the removal's table updates are queued; they are executed at the
        # end of the main-loop iteration that follows the command
        flushed = False
        for e in trace[rec['end']:]:
            k = e['k']
            if k == 'iter-end':
                flushed = True
                continue
            if k in ('add', 'launch') and e['cycle'] == cyc \
                    and e['name'] == name:
                classes.add('target-in-pool-again-after-removal')
                break
            if k == 'cmd' and e.get('task') == tid:
                break
            if k == 'restarted':
                break
            spawns = e['spawns'] if k == 'x-soo' else (
                [e] if k == 'x-spawn' else [])
            hit = None
            for s in spawns:
                if s['cycle'] == cyc and s['name'] == name:
                    hit = s
                    break
            if hit is None:
                continue
            arg = set(hit['arg'])
            if not arg or (R and not arg <= R):
                break
            classes.add('respawn-attempt-after-removal')
            if k == 'x-soo':
                classes.add('natural-respawn-attempt-after-removal')
            if not flushed:
                classes.add('respawn-attempt-in-same-iteration-as-removal')
            if hit['res'] is None and not hit.get('refused'):
                sig = 'removed-task-cannot-run-again'
                if not flushed:
                    sig += ':respawn-before-removal-reached-the-database'
                out.append(Violation(
                    'C30:' + sig,
                    f'{tid} was removed'
                    + (f' from flows {sorted(R)}' if R else '')
                    + f' at iteration {ev["it"]}; the next attempt to spawn '
                    f'it (flows {sorted(arg)}, iteration {e["it"]}, '
                    + (f'by output {e["cycle"]}/{e["name"]}:{e["output"]}'
                       if k == 'x-soo' else 'by command')
                    + ') was refused: its history was '
                    + ('still in the database (the removal is written at '
                       'the end of the main-loop iteration)'
                       if not flushed else 'not erased')))
            break
    return out


async def _check(case, ctx: Ctx) -> CaseResult:
    spec = case['spec']
    async with SCase(case, ctx) as sc:
        if sc.rejected:
            return CaseResult(sc.crash_violations('C30'), False,
                              ['rejected:' + sc.rejected])
        sim, to_int, to_str, model = (
            sc.sim, sc.drv.to_int, sc.drv.to_str, sc.model)
        FlowMonitor(sc)
        run = Runner(sc)
        cmd_crash = None
        for step in case['schedule']:
            if not sim.running:
                break
            try:
                await run.step(step)
            except Exception as exc:
                sig = exc_sig(exc)
                if sig.endswith('@?') or isinstance(exc, AssertionError):
                    raise               # not raised inside cylc: harness
                cmd_crash = Violation(
                    'C30:command-crashed:' + sig,
                    f'step {step} raised {exc!r}')
                break
        if cmd_crash is None:
            await sc.drain()
        viol = sc.crash_violations('C30')
        if cmd_crash is not None:
            viol.append(cmd_crash)
        classes = set()
        for rec in run.removals:
            viol += check_removal(rec, spec, model, to_int, to_str, classes)
        viol += check_run_again(run.removals, sim.trace, classes)
        flows_seen = set()
        for e in sim.trace:
            if e['k'] in ('add', 'state'):
                flows_seen.update(e.get('flows') or ())
        if len(flows_seen) >= 2:
            classes.add('several-flows')
        if any(r['flow'] for r in run.removals):
            classes.add('remove-with-flow-option')
        if any(e['k'] == 'restarted' for e in sim.trace):
            classes.add('restart')
        n_nt = sum(1 for r in run.removals if r.get('nontrivial'))
        uniq = {}
        for v in viol:
            uniq.setdefault(v.sig, v)
        return CaseResult(list(uniq.values()), n_nt > 0, sorted(classes),
                          inconclusive=sc.inconclusive,
                          info={'flow': sc.drv.flow_text,
                                'removals': len(run.removals),
                                'nontrivial_removals': n_nt})


def run_shard(ctx: Ctx):
    hyp_run(ctx, cases(), check_case, ctx.share(BUDGET[ctx.tier]))
