"""C17 Datetime recurrences are consistent with brute-force enumeration.

Reference (named by the statement): "the ordered list obtained by iterating
the recurrence and removing excluded points".  The list is built without any
of the query methods under test: `iter(seq.recurrence)` (metomi-isodatetime
TimeRecurrence) inside a bounded window, each point converted the way cylc
converts it (`ISO8601Point(str(time_point))`), and a point is dropped when
brute-force exclusion membership holds: it equals an exclusion *point* (the
harness knows these instants by itself: it wrote them) or it occurs in the
iteration of the recurrence of an exclusion *sequence*.

A case then issues a drawn list of queries (method, point) with repeats on
one *warm* ISO8601Sequence object and, for every query, on a *fresh* object
built from the same arguments; warm == fresh == list answer.
"""
from __future__ import annotations

import bisect
import os
import time

from hypothesis import strategies as st

from vf.core import CaseResult, Ctx, Violation, hyp_run, exc_sig

PROP_ID = 'C17'
LEVEL = 'exploration'
BUDGET = {'quick': 3200, 'thorough': 120000}
RULE = (
    'Hypothesis draws: calendar (gregorian/360day/365day/366day), time zone '
    'class (UTC mode, explicit cycle point time zone Z/+01/+0530/-0800/+1245/'
    '-0330, or local time zone through TZ), expanded year digits (0; 2 for '
    '~8 %), an initial cycle point (any spelling: basic/extended/hour-only/'
    'date-only, own zone designator or none), an optional final cycle point, '
    'one of the 13 recurrence formats of CylcTimeParser (S, Rn/S/E, S/Pk, Pk, '
    'Pk/E, Rn/S, Rn/S/Pk, Rn//Pk, Rn/Pk/E, Rn/Pk, Rn//E, R1, R1//E; reps '
    'absent, 1 or n) whose start/end are absolute, truncated (T06, T-30, '
    '05T00, 0205T00, 032T00, -W-1T00, W021T00 ...), relative (+P1D, -PT6H, '
    'chains +P1M-P1D, T06+P1D) or min(a,b); steps from PT1M to P2Y incl. '
    'nominal (month/year) and compound ones; 0-3 exclusions: points placed on '
    'the i-th point of the exclusion-free iteration (or just off it), in '
    'several spellings, and exclusion sequences (multiples of the step, '
    'relative/truncated starts, Rn/<i-th point>/<step> runs).  10-26 queries '
    '(is_valid, is_on_sequence, get_next_point, get_next_point_on_sequence, '
    'get_prev_point, get_first_point, get_nearest_prev_point, '
    'get_start_point, get_stop_point) are drawn over a pool of 3-7 points '
    '(i-th raw point +- minutes, j-th excluded point, below the first / '
    'above the last point, the context points) so that points repeat; the '
    'drawn order is the order on the warm object.  Window: at most 60 '
    'iterated points; unbounded (and over-long) recurrences are queried '
    'below the last listed member only.  Non-trivial = the recurrence has an '
    'exclusion or a truncated/relative/min() point, and >= 10 queries were '
    'compared with >= 1 (method, point) repeated; distinct by the whole case.')
ASSUMPTIONS = [
    'metomi.isodatetime TimeRecurrence.__iter__ on seq.recurrence, TimePoint '
    'parsing/arithmetic/comparison and CylcTimeParser.parse_recurrence (which '
    'produces seq.recurrence and the recurrences of exclusion sequences) are '
    'the reference, as the statement names the iteration as the reference; '
    'what is checked is the query API of ISO8601Sequence against that list.',
    'Exclusion points are known to the harness as instants (it generated '
    'them); the parsed exclusion_points must be those instants and every '
    'exclusion sequence item must yield one exclusion sequence object.',
    'Query points are standardised cycle points in the workflow dump format '
    '(what the scheduler passes); whole minutes only (the default dump '
    'format has no seconds).',
    'get_prev_point and get_next_point_on_sequence are only compared for '
    'points of the raw (exclusion-free) iteration: their contract "assumes '
    'the point is on-sequence"; elsewhere only warm == fresh is required.',
    'is_on_sequence ("disregarding bounds") is compared with list membership '
    'only between the first and last iterated point; is_valid everywhere.',
    'get_stop_point: None for a recurrence without repetitions and end point, '
    'else the last member (None if every point is excluded).',
    'A context start point is always given (the scheduler always has an '
    'initial cycle point); so recurrences never iterate in reverse.',
    'Constructor rejections with CylcTimeSyntaxError / CylcMissing*Error / '
    'IsodatetimeError / PointParsingError / IntervalParsingError / ValueError '
    'are out of the domain (counted as rejected).  Any other exception from '
    'the constructor also means "not accepted" (the statement quantifies '
    'over accepted recurrences and names no exception type); such cases are '
    'counted under the class rejected:*:undocumented-exception:<type>.',
    'An unbounded recurrence whose listed tail is entirely excluded is out '
    'of the domain (the API cannot decide emptiness of an infinite set).',
    'The iso8601 module lru caches are cleared and iso8601.init() re-run when '
    'a case starts, never inside a case.',
]
MANIFEST = {
    'engine': 'P',
    'technique': 'Hypothesis: constructive recurrence grammar, query '
                 'histories, warm vs fresh object vs brute-force list',
}

CAP = 60             # window (iterated points) of an unbounded recurrence
LONG = 240           # bounded recurrences are listed whole up to this length
MAX_RUN = 30         # longest run of consecutive excluded points exercised
EXCL_ITER_CAP = 4000

CALS = ['gregorian', '360day', '365day', '366day']
TZS = [
    {'kind': 'utc'},
    {'kind': 'fixed', 'tz': 'Z'},
    {'kind': 'fixed', 'tz': '+01'},
    {'kind': 'fixed', 'tz': '+0530'},
    {'kind': 'fixed', 'tz': '-0800'},
    {'kind': 'fixed', 'tz': '+1245'},
    {'kind': 'fixed', 'tz': '-0330'},
    {'kind': 'local', 'env': 'XXX-5:30'},
    {'kind': 'local', 'env': 'XXX+8'},
    {'kind': 'local', 'env': 'UTC0'},
]
ZONE_SPELL = [None, None, None, 'Z', 'Z', '+0100', '-0500', '+0530', '+13']

UNIT_FMT = {'TM': 'PT%dM', 'TH': 'PT%dH', 'D': 'P%dD', 'W': 'P%dW',
            'Mo': 'P%dM', 'Y': 'P%dY'}
UNIT_MIN = {'TM': 1, 'TH': 60, 'D': 1440, 'W': 10080, 'Mo': 43200,
            'Y': 525600}
MULTS = {'TM': [1, 5, 15, 30, 90], 'TH': [1, 2, 3, 6, 12, 24, 36],
         'D': [1, 2, 3, 7, 10], 'W': [1, 2], 'Mo': [1, 2, 3, 6],
         'Y': [1, 2]}
COMPOUND = [('P1DT12H', 2160), ('P1DT6H', 1800), ('PT1H30M', 90),
            ('P1M1D', 44640), ('P1Y1M', 568800), ('P1W', 10080)]

# truncated points: (text, nominal minutes of the implied period)
TRUNC_SUB = [('T00', 1440), ('T06', 1440), ('T12', 1440), ('T18', 1440),
             ('T0630', 1440), ('T1230', 1440), ('T06:30', 1440),
             ('T-30', 60), ('T-00', 60), ('T-15', 60)]
TRUNC_DAY = [('01T00', 43200), ('15T06', 43200), ('---05T00', 43200),
             ('28T12', 43200), ('31T00', 43200), ('30T00', 43200),
             ('-W-1T00', 10080), ('W-3T12', 10080), ('-W-5', 10080),
             ('W-1', 10080), ('W-7T06', 10080)]
TRUNC_MON = [('0101T00', 525600), ('--0615T00', 525600), ('0205T00', 525600),
             ('0229T00', 525600), ('032T00', 525600), ('-100T12', 525600),
             ('W021T00', 525600), ('-W10-3T00', 525600), ('0731T06', 525600)]

OFFSETS = [('P0D', 0), ('PT0M', 0), ('PT90M', 90), ('PT6H', 360),
           ('P1D', 1440), ('P2D', 2880), ('P1W', 10080), ('P1M', 44640)]
CHAIN = [('-PT0M', 0), ('-PT30M', 30), ('+PT6H', 360), ('-P1D', 1440),
         ('+P1M-P1D', 44640)]

FORMS = ['S', 'Rn/S/E', 'S/Pk', 'Pk', 'Pk/E', 'Rn/S', 'Rn/S/Pk', 'Rn//Pk',
         'Rn/Pk/E', 'Rn/Pk', 'Rn//E', 'R1', 'R1//E']
USES = {'S': 'S', 'Rn/S/E': 'nSE', 'S/Pk': 'Sk', 'Pk': 'k', 'Pk/E': 'kE',
        'Rn/S': 'nS', 'Rn/S/Pk': 'nSk', 'Rn//Pk': 'nk', 'Rn/Pk/E': 'nkE',
        'Rn/Pk': 'nk', 'Rn//E': 'nE', 'R1': '', 'R1//E': 'E'}

METHODS = ['is_valid', 'is_on_sequence', 'get_next_point',
           'get_next_point_on_sequence', 'get_prev_point', 'get_first_point',
           'get_nearest_prev_point', 'get_start_point', 'get_stop_point']
NOARG = ('get_start_point', 'get_stop_point')


# --------------------------------------------------------------------------
# generator-side date arithmetic (only used to place points near each other;
# never part of the oracle)
# --------------------------------------------------------------------------
def _dim(cal, y, m):
    if cal == '360day':
        return 30
    if m == 2:
        if cal == '365day':
            return 28
        if cal == '366day':
            return 29
        return 29 if (y % 4 == 0 and (y % 100 != 0 or y % 400 == 0)) else 28
    return 31 if m in (1, 3, 5, 7, 8, 10, 12) else 30


def _add_minutes(cal, c, minutes):
    y, mo, d, h, mi = c
    total = h * 60 + mi + minutes
    days, rem = divmod(total, 1440)
    h, mi = divmod(rem, 60)
    d += days
    while d > _dim(cal, y, mo):
        d -= _dim(cal, y, mo)
        mo += 1
        if mo > 12:
            mo = 1
            y += 1
    while d < 1:
        mo -= 1
        if mo < 1:
            mo = 12
            y -= 1
        d += _dim(cal, y, mo)
    return [y, mo, d, h, mi]


def _spell(c, zone, fmt, xyd):
    y, mo, d, h, mi = c
    ys = ('+%0*d' % (4 + xyd, y)) if xyd else '%04d' % y
    if fmt == 'date' and h == 0 and mi == 0:
        return '%s%02d%02d' % (ys, mo, d)       # no zone designator on dates
    if fmt == 'ext':
        z = zone or ''
        if len(z) == 5:
            z = z[:3] + ':' + z[3:]
        return '%s-%02d-%02dT%02d:%02d%s' % (ys, mo, d, h, mi, z)
    if fmt == 'hour' and mi == 0:
        return '%s%02d%02dT%02d%s' % (ys, mo, d, h, zone or '')
    return '%s%02d%02dT%02d%02d%s' % (ys, mo, d, h, mi, zone or '')


@st.composite
def _abs_point(draw, cal, base, minutes, xyd):
    c = _add_minutes(cal, base, minutes)
    zone = draw(st.sampled_from(ZONE_SPELL))
    fmt = draw(st.sampled_from(['basic', 'basic', 'ext', 'hour', 'date']))
    return _spell(c, zone, fmt, xyd)


@st.composite
def _step(draw):
    if draw(st.integers(0, 7)) == 0:
        return list(draw(st.sampled_from(COMPOUND))) + [None, None]
    unit = draw(st.sampled_from(['TM', 'TH', 'TH', 'D', 'D', 'W', 'Mo',
                                 'Mo', 'Y']))
    mult = draw(st.sampled_from(MULTS[unit]))
    return [UNIT_FMT[unit] % mult, UNIT_MIN[unit] * mult, unit, mult]


def _trunc_menu(nominal):
    if nominal < 1440:
        return TRUNC_SUB
    if nominal < 43200:
        return TRUNC_SUB + TRUNC_DAY
    return TRUNC_SUB + TRUNC_DAY + TRUNC_MON


@st.composite
def _rel_offset(draw, step, sign_choices, limit=None):
    """A +P.. / -P.. offset of a few steps, or a chain.  `limit` (minutes)
    bounds the offsets of end points (the number of points of a recurrence
    counted back from its end grows with them)."""
    text, nominal, unit, mult = step
    sign = draw(st.sampled_from(sign_choices))
    k = draw(st.integers(0, 4))
    if unit is not None and draw(st.integers(0, 3)) > 0:
        off = sign + (UNIT_FMT[unit] % (mult * k))
    else:
        off = sign + draw(st.sampled_from(
            [t for t, mins in OFFSETS if limit is None or mins <= limit]))
    if draw(st.integers(0, 5)) == 0:
        off += draw(st.sampled_from(
            [t for t, mins in CHAIN if limit is None or mins <= limit]))
    return off


@st.composite
def _point(draw, role, cal, icp_c, step, m, xyd, allow_min=True):
    """-> (text, kind) for a start (role 'S') or end (role 'E') point."""
    nominal = step[1]
    limit = None if role == 'S' else 30 * nominal
    menu = _trunc_menu(nominal)
    if role == 'E':
        # a truncated end lies up to one period after the final point
        menu = [t for t in menu if t[1] <= limit] or [('T-00', 60)]
    kind = draw(st.sampled_from(
        ['abs', 'abs', 'trunc', 'trunc', 'rel', 'rel', 'min', 'trunc+off']))
    if kind == 'min' and not allow_min:
        kind = 'trunc'
    if kind == 'abs':
        if role == 'S':
            j = draw(st.integers(-3, 5))
        else:
            j = draw(st.integers(0, m + 2))
        if role == 'E' and step[2] in ('Mo', 'Y') and draw(st.booleans()):
            # an end on day 29-31, a whole number of steps after the initial
            # month: counting months back from it and forward again does not
            # give the same days
            months = j * step[3] * (12 if step[2] == 'Y' else 1)
            y, mo = icp_c[0], icp_c[1] - 1 + months
            y, mo = y + mo // 12, mo % 12 + 1
            d = min(draw(st.sampled_from([29, 30, 31])), _dim(cal, y, mo))
            c = [y, mo, d, icp_c[3], icp_c[4]]
            return _spell(c, draw(st.sampled_from(ZONE_SPELL)), draw(
                st.sampled_from(['basic', 'ext', 'hour', 'date'])), xyd), 'abs'
        slack = draw(st.sampled_from([0, 0, 0, 1, nominal // 2]))
        return draw(_abs_point(cal, icp_c, nominal * j + slack, xyd)), 'abs'
    if kind == 'trunc':
        return draw(st.sampled_from(menu))[0], 'trunc'
    if kind == 'rel':
        signs = ['+', '+', '+', '-'] if role == 'S' else ['-', '-', '-', '+']
        return draw(_rel_offset(step, signs, limit)), 'rel'
    if kind == 'trunc+off':
        t = draw(st.sampled_from(menu))[0]
        return t + draw(_rel_offset(step, ['+', '-'], limit)), 'trunc+rel'
    a = draw(_point(role, cal, icp_c, step, m, xyd, allow_min=False))[0]
    b = draw(_point(role, cal, icp_c, step, m, xyd, allow_min=False))[0]
    return 'min(%s,%s)' % (a, b), 'min'


@st.composite
def _implied(draw, role):
    """A truncated point that implies the step: -> (text, kind, step)."""
    text, period = draw(st.sampled_from(TRUNC_SUB + TRUNC_DAY + TRUNC_MON))
    kind = 'trunc'
    step = ['', period, None, None]
    r = draw(st.integers(0, 9))
    if r == 0:
        same = [t for t, per in TRUNC_SUB + TRUNC_DAY + TRUNC_MON
                if per == period]
        text = 'min(%s,%s)' % (text, draw(st.sampled_from(same)))
        kind = 'min'
    elif r == 1:
        unit = {60: 'TM', 1440: 'TH', 10080: 'D', 43200: 'D',
                525600: 'Mo'}[period]
        off = UNIT_FMT[unit] % draw(st.sampled_from([1, 2, 6, 15]))
        text += draw(st.sampled_from('+-')) + off
        kind = 'trunc+rel'
    return text, kind, step


@st.composite
def cases(draw):
    cal = draw(st.sampled_from(CALS))
    tz = draw(st.sampled_from(TZS))
    xyd = 2 if draw(st.integers(0, 11)) == 11 else 0
    y = draw(st.one_of(st.sampled_from([2000, 2019, 2020, 2023, 2024]),
                       st.integers(1900, 2100)))
    mo = draw(st.integers(1, 12))
    if draw(st.integers(0, 3)) == 0:
        d = _dim(cal, y, mo) - draw(st.integers(0, 2))   # month end
    else:
        d = draw(st.integers(1, 28))
    h = draw(st.sampled_from([0, 0, 6, 12, 18, 23, 5]))
    mi = draw(st.sampled_from([0, 0, 0, 30, 15, 59]))
    icp_c = [y, mo, d, h, mi]
    icp = _spell(icp_c, draw(st.sampled_from(ZONE_SPELL)),
                 draw(st.sampled_from(['basic', 'ext', 'hour', 'date'])), xyd)

    form = draw(st.sampled_from(FORMS))
    uses = USES[form]
    step = draw(_step())
    m = draw(st.one_of(st.integers(0, 12), st.integers(0, 40)))

    S = E = None
    skind = ekind = None
    if 'S' in uses:
        if form in ('S', 'Rn/S') and draw(st.integers(0, 19)) > 0:
            # the step is implied by the truncation
            S, skind, step = draw(_implied('S'))
        else:
            S, skind = draw(_point('S', cal, icp_c, step, m, xyd))
    if 'E' in uses:
        if form == 'Rn//E' and draw(st.integers(0, 19)) > 0 or (
                form == 'R1//E' and draw(st.integers(0, 9)) > 5):
            E, ekind, step = draw(_implied('E'))
        else:
            E, ekind = draw(_point('E', cal, icp_c, step, m, xyd))
    nominal = step[1]

    n = None
    if 'n' in uses:
        r = draw(st.integers(0, 11))
        if r <= 2:
            n = None
        elif r <= 4:
            n = 1
        else:
            n = draw(st.one_of(st.integers(2, 6), st.integers(2, 30)))
        if form == 'Rn/S' and skind == 'abs':
            n = 1
    # context end point
    needs_fcp = ('E' in uses or form in ('Rn/Pk',)) and ekind != 'abs'
    no_fcp = draw(st.integers(0, 19)) < (1 if needs_fcp else 6)
    if no_fcp:
        fcp = None
    else:
        slack = draw(st.sampled_from([0, 0, 1, nominal // 2, nominal - 1]))
        fcp = draw(_abs_point(cal, icp_c, nominal * m + slack, xyd))

    rn = 'R' if n is None else 'R%d' % n
    k = step[0]
    main = {
        'S': '{S}', 'Rn/S/E': '{rn}/{S}/{E}', 'S/Pk': '{S}/{k}', 'Pk': '{k}',
        'Pk/E': '{k}/{E}', 'Rn/S': '{rn}/{S}', 'Rn/S/Pk': '{rn}/{S}/{k}',
        'Rn//Pk': '{rn}//{k}', 'Rn/Pk/E': '{rn}/{k}/{E}', 'Rn/Pk': '{rn}/{k}',
        'Rn//E': '{rn}//{E}', 'R1': 'R1', 'R1//E': 'R1//{E}',
    }[form].format(S=S, E=E, k=k, rn=rn)

    # exclusions (resolved against the exclusion-free iteration in the check)
    excl = []
    n_ex = draw(st.sampled_from([0, 0, 1, 1, 1, 2, 2, 3]))
    if (form in ('R1', 'R1//E') or n == 1) and draw(st.integers(0, 3)) > 0:
        n_ex = 0        # a one-off sequence with exclusions is mostly empty
    unit, mult = step[2], step[3]
    for _ in range(n_ex):
        kind = draw(st.sampled_from(['pt', 'pt', 'pt', 'seq', 'seqat']))
        idx = draw(st.sampled_from([0, 1, 2, -1, -2, -3, 3, 5, 8]))
        if kind == 'pt':
            off = draw(st.sampled_from([0, 0, 0, 0, 0, 0, 1, -nominal // 2]))
            spell = draw(st.sampled_from(['dump', 'dump', 'Z', 'ext',
                                          'other', 'hour']))
            excl.append(['pt', idx, off, spell])
        elif kind == 'seq':
            if unit is not None and draw(st.integers(0, 2)) > 0:
                kk = draw(st.sampled_from([2, 2, 3, 4]))
                ks = UNIT_FMT[unit] % (mult * kk)
                one = UNIT_FMT[unit] % mult
                text = draw(st.sampled_from(
                    [ks, 'R/' + ks, '+' + one + '/' + ks, 'R3/' + ks,
                     'R2/+' + one + '/' + one, 'R3//' + ks,
                     'R1/+' + one, 'R2/' + ks + '/-' + one]))
            else:
                # (a much finer exclusion sequence costs thousands of
                # iterations per membership test in cylc and here)
                text = draw(st.sampled_from(
                    [t for t in _trunc_menu(max(nominal * 2, 1440))
                     if t[1] * 10 >= nominal]))[0]
            excl.append(['seq', text])
        else:
            reps = draw(st.sampled_from([None, 1, 2, 2, 3, 5]))
            if unit is not None:
                kk = draw(st.sampled_from([1, 1, 2, 3]))
                if reps is None and kk == 1:
                    kk = 2      # never an unbounded copy of the main step
                ks = UNIT_FMT[unit] % (mult * kk)
            else:
                ks = draw(st.sampled_from(['P2D', 'P1W', 'PT12H', 'P1M']))
            excl.append(['seqat', idx, reps, ks])

    # query pool and queries
    npool = draw(st.integers(3, 7))
    pool = []
    for _ in range(npool):
        pk = draw(st.sampled_from(['u', 'u', 'u', 'u', 'x', 'x', 'below',
                                   'above', 'ctx']))
        if pk == 'u':
            i = draw(st.one_of(st.integers(0, 6), st.integers(-4, CAP)))
            off = draw(st.sampled_from(
                [0, 0, 0, 0, 0, 1, -1, nominal // 2, -(nominal // 2), 30,
                 -30, 1440, -1440]))
            pool.append(['u', i, off])
        elif pk == 'x':
            pool.append(['x', draw(st.integers(0, 5)), 0])
        elif pk in ('below', 'above'):
            pool.append([pk, draw(st.sampled_from(
                [1, nominal, nominal, 2 * nominal, nominal // 2 + 1, 1440]))])
        else:
            pool.append(['ctx', draw(st.sampled_from(['icp', 'fcp']))])
    nq = draw(st.integers(10, 26))
    queries = []
    for _ in range(nq):
        if queries and draw(st.integers(0, 4)) == 0:
            queries.append(list(draw(st.sampled_from(queries))))   # repeat
        else:
            queries.append([draw(st.integers(0, len(METHODS) - 1)),
                            draw(st.integers(0, npool - 1))])
    return {
        'cal': cal, 'tz': tz, 'xyd': xyd, 'icp': icp, 'fcp': fcp,
        'main': main, 'excl': excl, 'pool': pool, 'queries': queries,
        'meta': {'form': form, 'S': skind, 'E': ekind,
                 'reps': 'none' if n is None else ('1' if n == 1 else 'n'),
                 'step': k},
    }


# --------------------------------------------------------------------------
# check
# --------------------------------------------------------------------------
def _clear_iso_caches():
    from cylc.flow.cycling import iso8601
    for holder in (iso8601, iso8601.ISO8601Point, iso8601.ISO8601Interval):
        for name in dir(holder):
            obj = getattr(holder, name)
            if hasattr(obj, 'cache_clear'):
                obj.cache_clear()


def _exc_name(exc):
    if isinstance(exc, RecursionError):
        return 'RecursionError'
    return exc_sig(exc)


class _Skip(Exception):
    def __init__(self, label):
        super().__init__(label)
        self.label = label


def check_case(case, ctx: Ctx) -> CaseResult:
    from vf.cylcutil import reset_globals
    old_tz = os.environ.get('TZ')
    tz = case['tz']
    try:
        reset_globals()
        if tz['kind'] == 'local':
            os.environ['TZ'] = tz['env']
            time.tzset()
        return _check(case, ctx)
    finally:
        if tz['kind'] == 'local':
            if old_tz is None:
                os.environ.pop('TZ', None)
            else:
                os.environ['TZ'] = old_tz
            time.tzset()


def _dump(tp, spell, xyd):
    from metomi.isodatetime.dumpers import TimePointDumper
    x = '+X' if xyd else ''
    fmt = {
        'Z': x + 'CCYYMMDDThhmmZ',
        'ext': x + 'CCYY-MM-DDThh:mm+01:00',
        'other': x + 'CCYYMMDDThhmm-0330',
        'hour': x + 'CCYYMMDDThhmm+09',
    }.get(spell)
    if fmt is None:
        return str(tp)
    return TimePointDumper().dump(tp, fmt)


def _check(case, ctx):
    from metomi.isodatetime.data import Duration
    from metomi.isodatetime.exceptions import IsodatetimeError
    from cylc.flow.cycling import iso8601
    from cylc.flow.cycling.iso8601 import (
        ISO8601Point, ISO8601Sequence, point_parse)
    from cylc.flow.exceptions import (
        CylcMissingContextPointError, CylcMissingFinalCyclePointError,
        CylcTimeSyntaxError, IntervalParsingError, PointParsingError,
        SequenceParsingError)
    REJECT = (CylcTimeSyntaxError, CylcMissingContextPointError,
              CylcMissingFinalCyclePointError, IsodatetimeError,
              PointParsingError, IntervalParsingError, SequenceParsingError,
              ValueError)

    cal, tz, xyd = case['cal'], case['tz'], case['xyd']
    meta = case.get('meta') or {}
    _clear_iso_caches()
    kw = dict(num_expanded_year_digits=xyd, cycling_mode=cal)
    if tz['kind'] == 'utc':
        kw['assume_utc'] = True
    elif tz['kind'] == 'fixed':
        kw['time_zone'] = tz['tz']
    iso8601.init(**kw)

    tzclass = tz['kind'] + ':' + (tz.get('tz') or tz.get('env') or 'Z')
    classes = ['cal:' + cal, 'tz:' + tzclass, 'tzkind:' + tz['kind'],
               'xyd:%d' % xyd, 'form:' + str(meta.get('form')),
               'reps:' + str(meta.get('reps'))]
    kinds = [k for k in (meta.get('S'), meta.get('E')) if k]
    for k in kinds:
        classes.append('point:' + k)
    special_point = any(k != 'abs' for k in kinds)
    if case['fcp'] is None:
        classes.append('no-final-point')
    for e in case['excl']:
        classes.append('excl:' + ('point' if e[0] == 'pt' else 'sequence'))

    def key(tp):
        # the instant: UTC calendar date and time of day (orders
        # chronologically in every calendar mode)
        u = tp.to_utc()
        return u.get_calendar_date() + u.get_hour_minute_second()

    def reject(label, exc=None):
        ctx.col.rejected += 1
        lab = 'rejected:' + label
        if exc is not None:
            lab += ':' + type(exc).__name__
        return CaseResult([], False, classes + ['rejected', lab])

    def listing(rec):
        """-> (iterated points, complete?): a bounded recurrence is listed
        whole (up to LONG points), an unbounded one on a window."""
        cap = CAP if (rec.repetitions is None
                      and rec.end_point is None) else LONG
        out = []
        for tp in rec:
            if len(out) >= cap:
                return out, False
            out.append(tp)
        return out, True

    icp, fcp, main = case['icp'], case['fcp'], case['main']

    def construct(expr):
        return ISO8601Sequence(expr, icp, fcp)

    # ---- exclusion-free sibling: the raw iteration ------------------------
    try:
        seq0 = construct(main)
    except REJECT as exc:
        return reject('main', exc)
    except Exception as exc:
        # not "accepted by Cylc" either: the statement does not say how a
        # recurrence is to be refused (kept visible as its own class)
        return reject('main:undocumented-exception', exc)
    U0, done0 = listing(seq0.recurrence)
    if not done0 and len(U0) > CAP:
        return reject('too-long')
    if not U0:
        return reject('empty-iteration')
    k0 = [key(tp) for tp in U0]
    if any(b <= a for a, b in zip(k0, k0[1:])):
        return reject('non-increasing-iteration')

    # ---- resolve the exclusions -------------------------------------------
    items = []
    x_pts = set()        # instants of exclusion points (harness knowledge)
    n_seq_items = 0
    for e in case['excl']:
        if e[0] == 'pt':
            tp = U0[e[1] % len(U0)]
            if e[2]:
                tp = tp + Duration(minutes=e[2])
            text = _dump(tp, e[3], xyd)
            if text not in items:
                items.append(text)
            x_pts.add(key(tp))
        elif e[0] == 'seq':
            items.append(e[1])
            n_seq_items += 1
        else:
            tp = U0[e[1] % len(U0)]
            rn = 'R' if e[2] is None else 'R%d' % e[2]
            items.append('%s/%s/%s' % (rn, str(tp), e[3]))
            n_seq_items += 1
    if not items:
        expr = main
    elif len(items) == 1:
        expr = main + '!' + items[0]
    else:
        expr = main + '!(' + ','.join(items) + ')'
    where = f'ISO8601Sequence({expr!r}, {icp!r}, {fcp!r})'
    info = {'expr': expr}

    try:
        warm = construct(expr) if items else seq0     # (not queried yet)
    except REJECT as exc:
        return reject('with-exclusions', exc)
    except Exception as exc:
        return reject('with-exclusions:undocumented-exception', exc)

    # ---- the reference list -----------------------------------------------
    rec = warm.recurrence
    U, done = listing(rec)
    if not done and len(U) > CAP:
        return reject('too-long')
    uk = [key(tp) for tp in U]
    if not U or any(b <= a for a, b in zip(uk, uk[1:])):
        return reject('non-increasing-iteration')
    if uk != k0:
        classes.append('iteration-differs-with-exclusions')
    viol = []

    def add(sig, detail):
        if not any(v.sig == sig for v in viol):
            viol.append(Violation(sig, detail))

    excluded = set()
    if items:
        ex = warm.exclusions
        got_pts = sorted(
            key(point_parse(p.value))
            for p in getattr(ex, 'exclusion_points', []) or [])
        got_seqs = list(getattr(ex, 'exclusion_sequences', []) or [])
        if got_pts != sorted(x_pts):
            add('C17:exclusions:points-differ',
                f'{where}: parsed exclusion points '
                f'{[str(p) for p in getattr(ex, "exclusion_points", [])]} '
                f'are not the {len(x_pts)} instants written in the '
                'expression')
        if len(got_seqs) != n_seq_items:
            add('C17:exclusions:sequence-count',
                f'{where}: {n_seq_items} exclusion sequence items but '
                f'{len(got_seqs)} exclusion sequence objects')
        top = uk[-1]
        for es in got_seqs:
            cnt = 0
            for tp in es.recurrence:
                kk = key(tp)
                if kk > top:
                    break
                excluded.add(kk)
                cnt += 1
                if cnt > EXCL_ITER_CAP:
                    return reject('exclusion-sequence-too-long')
        excluded |= x_pts
    member = [k not in excluded for k in uk]
    L = [k for k, m in zip(uk, member) if m]           # member keys
    Lset = set(L)
    Uset = set(uk)
    bykey = {k: tp for k, tp in zip(uk, U)}
    removed = len(L) < len(uk)
    if removed:
        classes.append('exclusion-removed-point')
    if not L:
        classes.append('empty-set')
    run = best = 0
    for m in member:
        run = 0 if m else run + 1
        best = max(best, run)
    if best > MAX_RUN:
        return reject('long-excluded-run')
    if best >= 2:
        classes.append('consecutive-excluded>=2')

    unbounded = (not done) and rec.repetitions is None and (
        rec.end_point is None)
    windowed = not done
    if windowed:
        classes.append('unbounded' if unbounded else 'long-bounded')
        if len(L) < 2:
            return reject('infinite-tail-excluded')
        # queries stay strictly below the last listed member
        qtop = uk.index(L[-1])          # raw indices 0 .. qtop-1
        if qtop < 1:
            return reject('infinite-tail-excluded')
    else:
        classes.append('bounded')
        qtop = len(uk)
    if len(U) == 1:
        classes.append('single-point')

    dur = rec.duration
    nominal_dur = bool(dur is not None and (dur.years or dur.months))
    if nominal_dur:
        classes.append('nominal-step')

    # Root-cause input classes, computed from the reference library only.
    # cylc keeps points as strings in calendar-date form and re-parses them
    # before stepping; the iteration steps TimePoint objects.  Where the two
    # differ every walk-based answer derives from a point off the iteration.
    fwd_leaves = bwd_leaves = False
    # (also for exact steps: the library's arithmetic on ordinal / week
    # dates is itself representation-dependent across a leap-year end, see
    # the C18 ordinal-date finding)
    if dur is not None:
        for i, tp in enumerate(U):
            rp = point_parse(str(tp))
            if i + 1 < len(U) and key(rp + dur) != uk[i + 1]:
                fwd_leaves = True
            if i > 0 and key(rp - dur) != uk[i - 1]:
                bwd_leaves = True
    if fwd_leaves:
        classes.append('in:reparsed-point-plus-step-leaves-iteration')
    if bwd_leaves:
        classes.append('in:point-minus-step-leaves-iteration')

    # ---- expected answers ---------------------------------------------------
    def first_ge(k):
        i = bisect.bisect_left(L, k)
        return L[i] if i < len(L) else None

    def first_gt(k):
        i = bisect.bisect_right(L, k)
        return L[i] if i < len(L) else None

    def last_lt(k):
        i = bisect.bisect_left(L, k)
        return L[i - 1] if i > 0 else None

    UNSPEC = object()

    def where_is(k):
        if k in Lset:
            return 'member'
        if k in Uset:
            return 'excluded-point'
        if k < uk[0]:
            return 'below-first'
        if k > uk[-1]:
            return 'above-last'
        return 'off-sequence'

    def expected(method, k):
        if method == 'get_start_point':
            return L[0] if L else None
        if method == 'get_stop_point':
            if windowed:
                return None if unbounded else UNSPEC
            return L[-1] if L else None
        pos = where_is(k)
        if method == 'is_valid':
            return k in Lset
        if method == 'is_on_sequence':
            if pos in ('below-first', 'above-last'):
                return UNSPEC
            return k in Lset
        if method == 'get_next_point':
            return first_gt(k)
        if method == 'get_first_point':
            return first_ge(k)
        if method == 'get_nearest_prev_point':
            return last_lt(k)
        if method == 'get_prev_point':
            return last_lt(k) if k in Uset else UNSPEC
        if method == 'get_next_point_on_sequence':
            return first_gt(k) if k in Uset else UNSPEC
        raise AssertionError(method)

    # ---- resolve the query pool ---------------------------------------------
    xs = [i for i in range(qtop) if not member[i]]

    def resolve(spec):
        kind = spec[0]
        if kind == 'x' and xs:
            return U[xs[spec[1] % len(xs)]], 'pool:excluded-point'
        if kind in ('u', 'x'):
            i = spec[1] % qtop
            tp = U[i]
            off = spec[2] if kind == 'u' else 0
            if off:
                tp2 = tp + Duration(minutes=off)
                if not windowed or key(tp2) < uk[qtop]:
                    return tp2, 'pool:raw-point+offset'
            return tp, 'pool:raw-point'
        if kind == 'below':
            return U[0] - Duration(minutes=spec[1]), 'pool:below-first'
        if kind == 'above':
            if windowed:
                return U[qtop - 1], 'pool:raw-point'
            return U[-1] + Duration(minutes=spec[1]), 'pool:above-last'
        if kind == 'ctx':
            name = spec[1]
            pt = warm.context_end_point if name == 'fcp' else (
                warm.context_start_point)
            if pt is None:
                pt = warm.context_start_point
            tp = point_parse(pt.value)
            if windowed and key(tp) >= uk[qtop]:
                return U[0], 'pool:raw-point'
            return tp, 'pool:context-point'
        raise AssertionError(spec)

    pool = []
    for spec in case['pool']:
        tp, lab = resolve(spec)
        pool.append((str(tp), key(tp)))
        classes.append(lab)

    # ---- run the history ------------------------------------------------------
    def call(seq, method, pstr):
        try:
            if method in NOARG:
                r = getattr(seq, method)()
            else:
                r = getattr(seq, method)(ISO8601Point(pstr))
        except Exception as exc:
            return ('exc', _exc_name(exc), repr(exc))
        if r is None or isinstance(r, bool):
            return ('ok', r, r)
        try:
            return ('ok', key(point_parse(r.value)), str(r))
        except Exception as exc:
            return ('bad', repr(getattr(r, 'value', r)), repr(exc))

    def show(k):
        if k is None or isinstance(k, bool) or k is UNSPEC:
            return repr(k)
        tp = bykey.get(k)
        return str(tp) if tp is not None else f'<instant UTC {k}>'

    listed = ', '.join(
        ('' if m else '!') + str(tp) for tp, m in list(zip(U, member))[:12])
    seen = set()
    compared = 0
    repeats = 0
    for qi, (mi, pi) in enumerate(case['queries']):
        method = METHODS[mi % len(METHODS)]
        pstr, pk = pool[pi % len(pool)]
        qk = (method, None if method in NOARG else pk)
        if qk in seen:
            repeats += 1
        seen.add(qk)
        classes.append('q:' + method)
        got_w = call(warm, method, pstr)
        try:
            fresh = construct(expr)
        except Exception as exc:   # accepted a moment ago
            add('C17:construct:not-repeatable:' + _exc_name(exc),
                f'{where} raised {exc!r} on re-construction')
            break
        got_f = call(fresh, method, pstr)
        want = expected(method, pk)
        arg = '' if method in NOARG else pstr
        pos = '' if method in NOARG else where_is(pk)
        ctxt = (f'{where}.{method}({arg}) [query #{qi}, point is {pos}]; '
                f'iteration (! = excluded): {listed}'
                f'{" ..." if len(U) > 12 else ""}')
        if got_w[:2] != got_f[:2]:
            add('C17:reparsed-point-plus-step-leaves-iteration' if fwd_leaves
                else f'C17:cache:{method}',
                f'warm object -> {got_w[2]}, fresh object -> {got_f[2]}, '
                f'list -> {show(want)}; {ctxt}')
            continue
        compared += 1
        if want is UNSPEC:
            if got_f[0] == 'exc':
                add(f'C17:{method}:crash:{got_f[1]}',
                    f'raised {got_f[2]}; {ctxt}')
            continue
        if got_f[0] == 'ok' and got_f[1] == want and (
                type(got_f[1]) is type(want)):
            continue
        # ---- disagreement with the list: qualify by oracle-side facts ----
        if method == 'get_stop_point' and not windowed and (
                not member[-1] and (len(uk) == 1 or not member[-2])):
            # one root cause: the code steps back exactly one raw point
            # from an excluded last point, whatever that point is
            qual = 'last-two-raw-points-excluded'
        elif got_f[0] == 'exc':
            qual = 'crash:' + got_f[1]
        elif got_f[0] == 'bad':
            qual = 'unparseable-result'
        elif method == 'get_stop_point':
            qual = 'unbounded' if unbounded else 'wrong'
        else:
            qual = pos
        sig = f'C17:{method}:{qual}'
        if fwd_leaves:
            sig = 'C17:reparsed-point-plus-step-leaves-iteration'
        elif bwd_leaves and method in ('get_prev_point',
                                       'get_nearest_prev_point'):
            sig = 'C17:point-minus-step-leaves-iteration'
        add(sig,
            f'-> {got_f[2]} (warm and fresh agree), list -> {show(want)}; '
            f'{ctxt}')

    if repeats:
        classes.append('repeated-query')
    has_feature = bool(items) or special_point
    nontrivial = has_feature and compared >= 10 and repeats >= 1
    return CaseResult(viol, nontrivial, list(dict.fromkeys(classes)),
                      info=info)


def run_shard(ctx: Ctx):
    hyp_run(ctx, cases(), check_case, ctx.share(BUDGET[ctx.tier]))
