"""C19 Stop-and-restart preserves the workflow state."""
from __future__ import annotations

from hypothesis import strategies as st

from vf.core import CaseResult, Ctx, Violation, hyp_run
from vf.gen.wfspec import render_flow, wfspecs
from vf.sim.c19_util import (
    add_xtrigger_lines, faithful_poll_output, final_outputs,
    install_xtrigger_results,
    instrument_merges, launched_instances, norm_pool, run_steps,
    scheduler_fields)
from vf.sim.drive import SCase, outcome_maps, point_maps, run_async
from vf.sim.model import Model

PROP_ID = 'C19'
LEVEL = 'exploration'
BUDGET = {'quick': 400, 'thorough': 12000}
MANIFEST = {
    'engine': 'S',
    'technique': 'PBT on the stepped scheduler: real stop (clean / --now) '
                 'and restart at generated iterations; pool + workflow '
                 'state before shutdown vs after DB load; continued run vs '
                 'an uninterrupted reference run of the same case',
}
RULE = (
    'Generated workflow (1-3 recurrences, offsets, absolute triggers, OR, '
    'custom/optional outputs; optional runahead limit, retry delay lists '
    '(PT0S, or PT5S/PT3S so that tasks wait for a retry), one xtrigger '
    'whose k-th call succeeds) + outcome assignment (with early failures, '
    'and one first-cycle task that really retries when retries are on) + a '
    'history of 0-6 warm-up rounds of the fair schedule and 1-3 '
    'segments, each a list of <=14 steps ending in a `restart` step (real '
    '`stop --now` or clean `stop`, jobs optionally progressing while the '
    'scheduler is down with their messages lost, new Scheduler on the same '
    'run directory), then a tail and the fair drain.  Two case kinds: '
    '"pure" (steps loop / ret / adv / del / round = one round of the fair '
    'schedule; after each restart the restart poll reports before anything '
    'else happens) and "cmd" (also hold, release, hold-point, '
    'release-hold-point, stop-point, stop-task, trigger --flow=new, '
    'broadcast, clear-broadcast; free interleaving after restarts).  Part 1, '
    'every restart of '
    'every case: pool snapshot at Scheduler.shutdown() entry == pool snapshot '
    'after start-up of the next incarnation (before its first main-loop '
    'iteration) on pool membership, status, flows, held, submit number, '
    'completed outputs, per-atom prerequisite satisfaction (as booleans), '
    'xtrigger satisfaction (graph xtriggers; pending retry-delay xtriggers '
    'under a signature of their own), with preparing == '
    'waiting-with-the-same-next-'
    'submit-number on both sides; and hold point, stop point, stop task, '
    'broadcasts, flow counter read from the scheduler objects at the same two '
    'instants.  Part 2, pure cases only: set of launched (cycle, task) '
    'instances over all incarnations and per-instance completed outputs in '
    'the task_outputs table at the end of the drain == those of a second, '
    'uninterrupted run of the same (spec, outcomes) under the fair drain.  '
    'Non-trivial = at some stop the pool held an active (preparing / '
    'submitted / running) task or a task with a partially satisfied '
    'prerequisite set; distinct by the whole case.')
ASSUMPTIONS = [
    'is_runahead / is_queued / flow_wait / is_manual_submit are not in the '
    'statement\'s list and are not compared (tasks reload runahead-limited '
    'and are re-released).',
    'Satisfaction is compared as satisfied / not satisfied; the recorded '
    'kind of satisfaction ("satisfied naturally" / "satisfied from '
    'database" ...) may differ.',
    'A manually triggered waiting task is put into job preparation during '
    'start-up of the new incarnation (before its first main-loop '
    'iteration); preparing is therefore normalised to waiting with '
    'submit number - 1 on both sides of the comparison.',
    'The pending retry delay of a task (implemented as an internal '
    '`_cylc_retry_*` / `_cylc_submit_retry_*` wall_clock xtrigger on the task '
    'proxy) is compared as part of "xtrigger satisfaction" but reported '
    'under its own signature, so that the reading "xtriggers = those '
    'declared in the graph" can be taken by dropping that one signature.',
    'Only --flow=new is generated (no explicit flow numbers), so the flow '
    'counter equals the highest flow number ever issued; broadcasts are '
    'single-key settings (multi-key setting dicts are a C22 known finding).',
    'Part 2 compares final outcomes only (launched instances, completed '
    'outputs), never message traces or submit counts; the run is not '
    'required to end in the same way (shut down / stalled).  It is '
    'restricted to histories without commands (other than the restarts): '
    'with hold / trigger / stop-point ... the reference run is not '
    'comparable.  Messages are delivered in emission order per job (a custom '
    'output message overtaken by "succeeded" is lost by design, which would '
    'make the two runs differ for a reason unrelated to the restart); for '
    'the same reason, in pure cases the restart poll reports before any '
    'later job message is delivered (a "succeeded" message that beats the '
    'restart poll completes and removes the task before the poll can '
    'recover an optional custom output whose message was lost while the '
    'scheduler was down).',
    'The synthetic jobs-poll output is re-ordered to the real order '
    '(message lines before the summary line of a job), see '
    'vf/sim/c19_util.faithful_poll_output.',
    'A truthful poll result is never processed after a later message of the '
    'same job (pending jobs-poll commands are returned before a delivery '
    'step): late poll results are a recorded known finding of C09/C10.',
    'The order in which the scheduler drains the process pool inside '
    'shutdown is the engine\'s FIFO order.',
]

PURE_OPS = ['loop', 'loop', 'ret', 'ret', 'adv', 'adv', 'del', 'del', 'round',
            'round', 'round', 'round', 'round', 'round']
MIX_OPS = ['loop', 'loop', 'ret', 'adv', 'del', 'round', 'round', 'round']
CMD_OPS = ['hold', 'hold', 'release', 'hold-point', 'release-hold-point',
           'stop-point', 'stop-task', 'trigger-new', 'trigger-new',
           'broadcast', 'broadcast', 'clear-broadcast']


def _steps(draw, ops, max_size, min_size=0):
    raw = draw(st.lists(
        st.tuples(st.sampled_from(ops), st.integers(0, 23)).map(list),
        min_size=min_size, max_size=max_size))
    out = []
    for op, n in raw:
        if op == 'trigger-new':
            out.append(['trigger', n, ['new']])
        elif op == 'del':
            # emission order (see ASSUMPTIONS): always the oldest message
            out.append(['del', 0])
        else:
            out.append([op, n])
    return out


@st.composite
def cases(draw):
    kind = draw(st.sampled_from(['pure', 'cmd', 'cmd']))
    retries = draw(st.booleans())
    spec = draw(wfspecs({'max_tasks': 5, 'max_fcp': 4, 'retries': retries}))
    if draw(st.integers(0, 2)) == 0:
        spec['extra']['runahead'] = 'P%d' % draw(st.integers(0, 3))
    xt = None
    if draw(st.integers(0, 2)) == 0:
        # xtrigger on the first right-hand task of some section
        cands = [(i, ln['rhs'][0]) for i, sec in enumerate(spec['sections'])
                 for ln in sec['lines'][:1]]
        if cands:
            i, t = draw(st.sampled_from(cands))
            xt = {'task': t, 'section': i, 'label': 'xa',
                  'per_point': draw(st.booleans()),
                  'after': draw(st.lists(st.sampled_from([0, 0, 1, 2]),
                                         min_size=1, max_size=3))}
    forced_retry = None
    if retries:
        # make sure one first-cycle task really retries
        first = sorted({t for (t, p) in Model(spec).instances()
                        if p == spec['icp']
                        and not spec['opt'].get(t, {}).get('fail_required')})
        if first:
            forced_retry = draw(st.sampled_from(first))
            spec['retries'][forced_retry] = {
                'exec': draw(st.integers(1, 2)),
                'submit': draw(st.integers(0, 1))}
    if retries and draw(st.integers(0, 3)):
        # real retry delays: the task waits (with its outputs of the failed
        # try) until the drain's clock passes them
        for r in spec['retries'].values():
            if r.get('exec'):
                r['exec_delays'] = ['PT5S'] * r['exec']
            if r.get('submit'):
                r['submit_delays'] = ['PT3S'] * r['submit']
    outcomes = draw(outcome_maps(spec, max_subs=2 if retries else 1))
    # early failures, so that stops catch tasks retained as failed /
    # waiting for a retry (with the outputs of the failed try)
    early = [(t, p) for (t, p) in Model(spec).instances()
             if p <= spec['icp'] + 1
             and not spec['opt'].get(t, {}).get('fail_required')]
    if early and draw(st.integers(0, 3)):
        for t, p in draw(st.lists(st.sampled_from(early), min_size=1,
                                  max_size=2, unique=True)):
            lst = [{'final': 'failed'}]
            if spec['retries'].get(t, {}).get('exec'):
                lst.append({'final': draw(st.sampled_from(
                    [None, None, 'failed']))})
            outcomes[f'{p}/{t}'] = lst
    if forced_retry is not None:
        outcomes[f'{spec["icp"]}/{forced_retry}'] = [
            {'final': 'failed'},
            {'final': draw(st.sampled_from([None, None, 'failed']))}]
    ops = PURE_OPS if kind == 'pure' else MIX_OPS + CMD_OPS
    nseg = draw(st.sampled_from([1, 1, 2, 3]))
    # warm-up: k rounds of the fair schedule, so that stops also fall into
    # the middle of the run (failed / retrying / multi-cycle pools)
    sched = [['round', 0]] * draw(st.sampled_from([0, 0, 1, 2, 3, 4, 5, 6]))
    for _ in range(nseg):
        sched += _steps(draw, ops, 14, min_size=1)
        sched.append(['restart', draw(st.integers(0, 5))])
    sched += _steps(draw, ops, 6)
    return {'kind': kind, 'spec': spec, 'outcomes': outcomes, 'xt': xt,
            'schedule': sched}


def check_case(case, ctx: Ctx) -> CaseResult:
    return run_async(_check(case, ctx))


ACTIVE = ('preparing', 'submitted', 'running')
OUTPUTS_RELOADED_FOR = ('running', 'failed', 'submit-failed', 'succeeded')
FIELD_SIG = {
    'hold_point': 'C19:hold-point-differs',
    'stop_point': 'C19:stop-point-differs',
    'stop_task': 'C19:stop-task-differs',
    'broadcasts': 'C19:broadcasts-differ',
    'flow_counter': 'C19:flow-counter-differs',
}


def compare_pools(before, after, where, viol, spec=None, to_int=None,
                  hold_point=None, drain_start=None, lost=None,
                  merged_since_output=None):
    nb, na = norm_pool(before), norm_pool(after)
    # Root cause "stale task_pool row": workflow_shutdown() queues a
    # task_pool write (update_data_structure), then runs pending command
    # callbacks while the process pool empties, then _shutdown() queues a
    # second write; both are executed as one batch (all deletes, then all
    # inserts), so a row of the first write whose primary key (cycle, name,
    # flow_nums) is not in the second one survives: a task merged into
    # another flow by one of those callbacks.  (A task removed by one is
    # safe: TaskPool.remove() flushes the queue first.)
    stale = set()
    if drain_start is not None:
        for ident, flows in drain_start.items():
            if ident in nb and nb[ident]['flows'] != sorted(flows):
                stale.add(ident)
    for ident in sorted(set(nb) - set(na)):
        viol.append(Violation(
            'C19:pool-task-missing-after-restart',
            f'{where}: {ident} ({nb[ident]}) was in the pool at shutdown '
            f'but not after the restart'))
    for ident in sorted(set(na) - set(nb)):
        viol.append(Violation(
            'C19:pool-task-extra-after-restart',
            f'{where}: {ident} ({na[ident]}) is in the pool after the '
            f'restart but was not at shutdown'))
    for ident in sorted(set(nb) & set(na)):
        b, a = nb[ident], na[ident]
        if lost is not None and set(b['outputs']) - set(a['outputs']):
            lost.setdefault(ident, set()).update(
                set(b['outputs']) - set(a['outputs']))
        for fld in ('status', 'flows', 'held', 'submit_num', 'outputs',
                    'sat', 'xtriggers', 'retry_xtriggers'):
            if b[fld] != a[fld]:
                sig = f'C19:task-{fld}-differs'
                if fld == 'retry_xtriggers':
                    # the pending retry delay (an internal wall_clock
                    # xtrigger on the task) - own signature, see ASSUMPTIONS
                    sig = 'C19:retry-delay-xtrigger-not-restored'
                    if ident in stale or b['status'] != a['status']:
                        continue
                elif ident in stale:
                    sig = ('C19:stale-task-pool-row:flows-merged-during-'
                           'shutdown-pool-drain')
                elif (fld == 'outputs' and not a['outputs']
                        and b['status'] == a['status']
                        and a['status'] in OUTPUTS_RELOADED_FOR
                        and ident in (merged_since_output or ())):
                    # one root cause: merge_flows() inserts a task_outputs
                    # row with no outputs under the merged flow numbers; the
                    # outputs completed so far are only written to it when
                    # the next output completes
                    sig = ('C19:task-outputs-lost:flows-merged-after-last-'
                           'completed-output')
                elif (fld == 'outputs' and not a['outputs']
                        and b['status'] == a['status']
                        and a['status'] in ('waiting', 'submitted')):
                    # one root cause: load_db_task_pool_for_restart reloads
                    # completed outputs only for running / failed /
                    # submit-failed / succeeded tasks
                    sig = 'C19:task-outputs-lost:waiting-or-submitted-task'
                elif (fld == 'held' and a['held'] and not b['held']
                        and hold_point is not None and to_int is not None
                        and to_int.get(ident.split('/', 1)[0], -10**9)
                        > hold_point):
                    # one root cause: start-up re-applies the restored hold
                    # point with set_hold_point(), which holds every pooled
                    # task beyond it, including individually released ones
                    sig = ('C19:task-held-differs:released-task-beyond-'
                           'hold-point-held-again')
                elif (fld == 'outputs' and b['status'] == a['status']
                        and a['status'] in OUTPUTS_RELOADED_FOR
                        and set(a['outputs']) < set(b['outputs'])):
                    name = ident.split('/', 1)[1]
                    cust = (spec or {}).get('custom', {}).get(name, {})
                    gone = set(b['outputs']) - set(a['outputs'])
                    if all(o in cust and cust[o] != o for o in gone):
                        # one root cause: the reload iterates the stored
                        # {trigger: message} dict (= trigger labels) and
                        # passes them to set_message_complete()
                        sig = ('C19:task-outputs-lost:custom-output-'
                               'message-differs-from-trigger-label')
                viol.append(Violation(
                    sig,
                    f'{where}: {ident} {fld} before shutdown {b[fld]!r} != '
                    f'after restart {a[fld]!r} (task before: {b}; after: '
                    f'{a})'))


async def _run_main(case, ctx, flow_text):
    """Interrupted run.  Returns dict of observations (or {'rejected':..})."""
    res = {}
    async with SCase(case, ctx, flow_text=flow_text) as sc:
        if sc.rejected:
            return {'rejected': sc.rejected,
                    'viol': sc.crash_violations('C19')}
        sim = sc.sim
        install_xtrigger_results(sim, case.get('xt'))
        faithful_poll_output(sim)

        drain = {}

        def hook(kind, data):
            if (kind == 'return' and sim.cluster is not None
                    and sim.cluster.closed and data['inc'] not in drain):
                # first command callback run by the shutdown code while it
                # waits for the process pool to empty: remember the pool's
                # (identity -> flows) as of then (see stale-task-pool-row)
                drain[data['inc']] = {
                    f'{t["cycle"]}/{t["name"]}': t['flows']
                    for t in sim.pool_snapshot()}
            if kind == 'shutdown' and sim.schd is not None:
                data['drain_start'] = drain.get(data['inc'])
                try:
                    data['fields'] = scheduler_fields(sim.schd)
                except Exception as exc:    # harness bug: surface it
                    data['fields_err'] = repr(exc)

        sim.hooks.append(hook)

        instrument_merges(sim)

        def after_restart(drv):
            ev = sim.trace[-1]
            assert ev['k'] == 'restarted'
            ev['fields'] = scheduler_fields(sim.schd)
            instrument_merges(sim)

        sc.drv.after_restart.append(after_restart)
        await run_steps(sc, case['schedule'],
                        settle_after_restart=(case['kind'] == 'pure'))
        await sc.drain()
        res['viol'] = sc.crash_violations('C19')
        res['inconclusive'] = sc.inconclusive
        res['shut'] = sc.shut
        res['trace'] = sim.trace
        res['launched'] = sorted(launched_instances(sim))
        res['outputs'] = final_outputs(sim)
        res['flow_text'] = sc.drv.flow_text
    return res


async def _run_reference(case, ctx, flow_text):
    ref_case = {'spec': case['spec'], 'outcomes': case['outcomes'],
                'schedule': []}
    res = {}
    async with SCase(ref_case, ctx, flow_text=flow_text) as sc:
        if sc.rejected:
            return {'rejected': sc.rejected}
        install_xtrigger_results(sc.sim, case.get('xt'))
        faithful_poll_output(sc.sim)
        await sc.drain()
        res['crash'] = sc.crash_violations('C19')
        res['inconclusive'] = sc.inconclusive
        res['shut'] = sc.shut
        res['launched'] = sorted(launched_instances(sc.sim))
        res['outputs'] = final_outputs(sc.sim)
    return res


async def _check(case, ctx: Ctx) -> CaseResult:
    spec = case['spec']
    flow_text = add_xtrigger_lines(render_flow(spec), case.get('xt'))
    main = await _run_main(case, ctx, flow_text)
    if 'rejected' in main:
        return CaseResult(main['viol'], False,
                          ['rejected:' + main['rejected']])
    viol = list(main['viol'])
    classes = {'kind:' + case['kind']}
    if case.get('xt'):
        classes.add('has-xtrigger')
    if spec.get('retries'):
        classes.add('has-retries')
    trace = main['trace']
    to_int, _to_str = point_maps(spec)
    nontrivial = False
    n_restarts = 0
    last_shutdown = None
    cmds = set()
    restored = {}             # incarnation -> fields right after its restart
    lost_at_restart = {}      # ident -> outputs a restart failed to restore
    stop_task_cmd_incs = set()
    last_merge, last_output = {}, {}
    for idx, ev in enumerate(trace):
        k = ev['k']
        if k == 'restarted':
            restored[ev['inc']] = ev.get('fields', {})
        if k == 'merge':
            last_merge[f'{ev["cycle"]}/{ev["name"]}'] = idx
            classes.add('flow-merge')
        elif k == 'pm' and ev['before'][2] != ev['after'][2]:
            last_output[f'{ev["cycle"]}/{ev["name"]}'] = idx
        if k == 'cmd':
            cmds.add(ev['cmd'])
            if ev['cmd'] == 'stop-task':
                stop_task_cmd_incs.add(ev['inc'])
            if ev.get('err') is None:
                classes.add('cmd:' + ev['cmd'])
        elif k == 'shutdown':
            last_shutdown = ev
        elif k == 'msg-lost':
            classes.add('message-lost-while-down')
        elif k == 'restarted':
            n_restarts += 1
            sd = last_shutdown
            if sd is None or sd['inc'] != ev['inc'] - 1:
                raise RuntimeError('harness: restarted without shutdown')
            where = (f'restart #{n_restarts} (stop at iteration {sd["it"]}, '
                     f'{sd["reason"]})')
            if 'REQUEST' not in sd['reason']:
                # the scheduler stopped for its own reasons in the same
                # iteration (stop point reached ...): state it forgets on
                # such a stop is not covered
                classes.add('restart-after-non-requested-stop')
                continue
            classes.add('stop:now' if 'NOW' in sd['reason']
                        else 'stop:clean')
            before, after = sd['pool'], ev['pool']
            if 'fields_err' in sd:
                raise RuntimeError('harness: ' + sd['fields_err'])
            compare_pools(before, after, where, viol, spec, to_int,
                          to_int.get(sd['fields']['hold_point']),
                          sd.get('drain_start'), lost_at_restart,
                          {i for i, n in last_merge.items()
                           if n > last_output.get(i, -1)})
            fb, fa = sd['fields'], ev['fields']
            for fld, sig in FIELD_SIG.items():
                if fb[fld] != fa[fld]:
                    if (fld == 'stop_task' and fa[fld] is None
                            and restored.get(sd['inc'], {}).get(
                                'stop_task') == fb[fld]
                            and sd['inc'] not in stop_task_cmd_incs):
                        # root cause: start-up of a restart re-writes the
                        # workflow_params table with stop_task = None after
                        # restoring the stop task in memory only
                        sig = ('C19:stop-task-lost:second-restart-after-'
                               'restore')
                    viol.append(Violation(
                        sig, f'{where}: {fld} before shutdown {fb[fld]!r} '
                             f'!= after restart {fa[fld]!r}'))
            # class labels for what the stop caught
            sts = [t['status'] for t in before]
            if any(s in ACTIVE for s in sts):
                classes.add('stop-with-active-task')
                nontrivial = True
            if 'preparing' in sts:
                classes.add('stop-with-preparing-task')
            partial = False
            for t in before:
                vals = [bool(v) for v in t['sat'].values()]
                if vals and any(vals) and not all(vals):
                    partial = True
                if t['held']:
                    classes.add('stop-with-held-task')
                if t['status'] == 'waiting' and t['outputs']:
                    classes.add('stop-with-waiting-task-with-outputs')
                if t['status'] in ('failed', 'succeeded', 'submit-failed',
                                   'expired'):
                    classes.add('stop-with-finished-incomplete-task')
                if len(t['flows']) > 1 or (t['flows'] and t['flows'] != [1]):
                    classes.add('stop-with-other-flow-task')
                if t.get('xtriggers'):
                    classes.add('stop-with-xtrigger-' + (
                        'satisfied' if all(t['xtriggers'].values())
                        else 'unsatisfied'))
                if t['manual']:
                    classes.add('stop-with-manual-task')
            if partial:
                classes.add('stop-with-partially-satisfied-task')
                nontrivial = True
            if not before:
                classes.add('stop-with-empty-pool')
            if fb['hold_point'] is not None:
                classes.add('hold-point-set-at-stop')
            if fb['stop_task'] is not None:
                classes.add('stop-task-set-at-stop')
            if fb['broadcasts']:
                classes.add('broadcasts-set-at-stop')
            if fb['flow_counter'] > 1:
                classes.add('flow-counter>1-at-stop')
            if 'stop-point' in cmds:
                classes.add('stop-point-commanded-before-stop')
    classes.add(f'restarts:{n_restarts}')
    inconclusive = bool(main['inconclusive'])

    # ---- part 2 ---------------------------------------------------------
    if case['kind'] == 'pure' and n_restarts and not inconclusive:
        ref = await _run_reference(case, ctx, flow_text)
        if 'rejected' in ref:
            raise RuntimeError('harness: reference run rejected')
        if ref['crash']:
            classes.add('reference-run-crashed')
        elif ref['inconclusive']:
            inconclusive = True
        else:
            classes.add('part2-compared')
            la, lb = set(main['launched']), set(ref['launched'])
            if la != lb:
                viol.append(Violation(
                    'C19:continued-run-instances-differ',
                    f'launched only in the restarted run: {sorted(la - lb)}; '
                    f'only in the uninterrupted run: {sorted(lb - la)}'))
            oa, ob = main['outputs'], ref['outputs']
            diff = {i: (oa.get(i), ob.get(i))
                    for i in sorted(set(oa) | set(ob))
                    if oa.get(i) != ob.get(i) and i in la and i in lb}
            for i, (a, b) in diff.items():
                sig = 'C19:continued-run-final-outputs-differ'
                a, b = set(a or ()), set(b or ())
                if (a < b and i in lost_at_restart
                        and b - a <= lost_at_restart[i]):
                    # consequence of a part-1 violation: exactly outputs
                    # that a restart failed to restore on this instance
                    sig += ':outputs-not-restored-at-restart'
                viol.append(Violation(
                    sig, f'completed outputs of {i}: restarted run '
                         f'{sorted(a)} vs uninterrupted run {sorted(b)}'))
            if main['shut'] != ref['shut']:
                classes.add('part2-ending-differs(not-compared)')
    uniq = {}
    for v in viol:
        uniq.setdefault(v.sig, v)
    return CaseResult(
        list(uniq.values()), nontrivial and n_restarts > 0, sorted(classes),
        inconclusive=inconclusive,
        info={'flow': main.get('flow_text')})


def run_shard(ctx: Ctx):
    hyp_run(ctx, cases(), check_case, ctx.share(BUDGET[ctx.tier]))
