"""C48 Installed run directories are numbered and runN tracks the latest.

Engine F, stateful: the real ``install_workflow`` / ``reinstall_workflow`` /
``clean.init_clean`` run on a real ``~/cylc-run`` (private HOME of the worker)
from real source directories in the scratch area.  A history is a JSON list
of steps ``[op, a, b]`` (ints interpreted modulo what exists); after every
step the directory tree is compared with a dict model.
"""
from __future__ import annotations

import asyncio
import hashlib
import itertools
import os
import re
import shutil

from hypothesis import strategies as st

from vf.core import CaseResult, Ctx, Violation, exc_sig, hyp_run

PROP_ID = 'C48'
LEVEL = 'exploration'
BUDGET = {'quick': 320, 'thorough': 4000}
MANIFEST = {
    'engine': 'F',
    'technique': 'stateful history of install / reinstall / clean on a real '
                 'cylc-run tree against a dict model (tree hashes)',
}
RULE = (
    'Hypothesis draws a history of 1-14 steps over 2 workflow names and 2 '
    'source directories: numbered install, install --run-name (2 names), '
    'install --no-run-name, reinstall of an existing run, clean of an '
    'existing run (any run, or specifically the run runN points to, after '
    'which cylc itself removes runN), manual deletion of the runN link, '
    'modification of a '
    'source (so later installs/reinstalls copy different content), numbered '
    'install from the other source (source mismatch).  In 1 of 4 histories '
    'the steps are preceded by a prefix of N plain numbered installs of the '
    'unchanged source A into one workflow, N from {8..13, 19..21, 99..101} '
    '(where the run number gains a digit / changes its leading digit): the '
    'first install of the prefix is executed and checked like any step, the '
    'other N-1 are not executed, their effect (run2..runN identical to run1, '
    'runN -> run<N>) is written directly.  After every step the '
    'real tree is compared with the model: a numbered install that must '
    'succeed (workflow dir empty or holding only numbered runs, same source) '
    'creates run<k> with k > every existing numbered run at a path that did '
    'not exist, with the source content; runN -> the run created by the most '
    'recent numbered install; no pre-existing run directory changes on any '
    'install (hash of names, types, link targets and file contents, install '
    'logs excluded); reinstall and clean touch only their target run; a '
    'failing install raises WorkflowFilesError and leaves runN on the latest '
    'run.  Non-trivial = at least 2 numbered installs (executed + prefix) '
    'into one workflow plus at least one of clean / runN deletion / failing install / '
    'named install in the same history; distinct by the history.')
ASSUMPTIONS = [
    'Prefix shortcut: the state after N plain numbered installs of one '
    'unchanged source is run1..runN with identical content (install logs '
    'aside), runN -> "run<N>" (relative link) and _cylc-install/source; cylc '
    'keeps no other record of installed runs (install.py / pathutil.py read '
    'only the directory).  The histories without prefix execute every '
    'install, and every later executed install of the same source next to '
    'replicated runs is compared with them (classes replicated-runs-equal-'
    'real-install / replicated-runs-DIFFER-from-real-install).',
    '"Without reusing a number" is read over runs that exist at install time: '
    're-issue of the number of a run that clean has since deleted is counted '
    '(evidence: number_reissued_after_clean) and not flagged (DESIGN 5a).',
    'After a clean, runN is required to be either absent or still a valid '
    'link to the run it pointed to before (clean removes it only when it '
    'becomes broken); it is not required to be re-pointed at an older run.',
    '"Content of a run directory" excludes log/install/*.log (install and '
    'reinstall append their own logs there by design).',
    'A numbered install is required to succeed only in the plain situation '
    '(no named / un-named installation in that workflow directory, same '
    'source as previous installs, no nesting); otherwise WorkflowFilesError '
    'or success are both accepted and only the state invariants are checked.',
]

WORKFLOWS = ['c48a', 'c48b/sub']
RUN_NAMES = ['x', 'y']
# lengths of the all-plain-installs prefix: around the places where the
# decimal representation of the run number grows (9|10, 99|100) or its
# leading digit changes (19|20)
PREFIX_LENGTHS = [8, 9, 9, 10, 10, 11, 11, 12, 13, 19, 20, 21, 99, 100, 101]
_counter = itertools.count()


# ---------------------------------------------------------------- strategy
@st.composite
def histories(draw):
    n = draw(st.integers(1, 14))
    steps = []
    for _ in range(n):
        r = draw(st.integers(0, 99))
        a = draw(st.integers(0, 7))
        b = draw(st.integers(0, 7))
        if r < 45:
            op = 'inst'
        elif r < 52:
            op = 'instname'
        elif r < 56:
            op = 'instnoname'
        elif r < 66:
            op = 'reinst'
        elif r < 76:
            op = 'clean'
        elif r < 80:
            op = 'cleanlatest'
        elif r < 87:
            op = 'rmrunN'
        elif r < 95:
            op = 'touchsrc'
        else:
            op = 'instother'
        steps.append([op, a, b])
    # long numbered histories: in about 1 of 4 cases the history starts
    # with `pre` plain numbered installs of the unchanged source A (only the
    # first is executed, see World.replicate)
    pre = 0
    if draw(st.integers(0, 3)) == 0:
        pre = draw(st.sampled_from(PREFIX_LENGTHS))
    # mostly one workflow so that sequences get long
    return {'steps': steps, 'spread': draw(st.sampled_from([0, 0, 0, 1])),
            'pre': pre, 'prew': draw(st.integers(0, 1))}


# ---------------------------------------------------------------- helpers
def tree_hash(path):
    """Hash of a run dir: names, types, link targets, file contents;
    install logs excluded."""
    h = hashlib.sha1()
    for dirpath, dirnames, filenames in os.walk(path):
        dirnames.sort()
        rel = os.path.relpath(dirpath, path)
        if rel == os.path.join('log', 'install'):
            dirnames[:] = []
            continue
        h.update(b'D' + rel.encode())
        for d in list(dirnames):
            p = os.path.join(dirpath, d)
            if os.path.islink(p):
                h.update(b'L' + d.encode() + os.readlink(p).encode())
        for f in sorted(filenames):
            p = os.path.join(dirpath, f)
            if os.path.islink(p):
                h.update(b'L' + f.encode() + os.readlink(p).encode())
            else:
                with open(p, 'rb') as fh:
                    h.update(b'F' + f.encode() + fh.read())
    return h.hexdigest()


class World:
    def __init__(self, ctx):
        n = next(_counter) % 3
        self.home = os.path.expanduser('~')
        self.cylc_run = os.path.join(self.home, 'cylc-run')
        self.srcbase = os.path.join(ctx.scratch, 'c48', f'k{n}')
        self.sources = [os.path.join(self.srcbase, 'srcA'),
                        os.path.join(self.srcbase, 'srcB')]
        self.src_version = [0, 0]

    def wipe(self):
        shutil.rmtree(self.cylc_run, ignore_errors=True)
        shutil.rmtree(self.srcbase, ignore_errors=True)

    def build(self):
        self.wipe()
        os.makedirs(self.cylc_run)
        for i, s in enumerate(self.sources):
            os.makedirs(os.path.join(s, 'bin'))
            self.write_source(i)

    def write_source(self, i):
        s = self.sources[i]
        v = self.src_version[i]
        with open(os.path.join(s, 'flow.cylc'), 'w') as f:
            f.write(f'# source {i} version {v}\n[scheduling]\n'
                    f'    [[graph]]\n        R1 = foo\n'
                    f'[runtime]\n    [[foo]]\n')
        with open(os.path.join(s, 'bin', 'tool'), 'w') as f:
            f.write(f'#!/bin/sh\necho {i} {v}\n')
        if v % 2:
            with open(os.path.join(s, f'extra{v}'), 'w') as f:
                f.write('x')

    def wdir(self, w):
        return os.path.join(self.cylc_run, w)

    def replicate(self, w, n):
        """The state after n plain numbered installs of one unchanged source,
        given the state after the first (run1, runN -> run1,
        _cylc-install/source): run2..run<n> are copies of run1 (install log
        rewritten for the run name) and runN is the relative link cylc
        makes, to run<n>.  cylc keeps no other record of installed runs."""
        wd = self.wdir(w)
        tmpl = os.path.join(wd, 'run1')
        for k in range(2, n + 1):
            dst = os.path.join(wd, f'run{k}')
            shutil.copytree(tmpl, dst, symlinks=True)
            logd = os.path.join(dst, 'log', 'install')
            if os.path.isdir(logd):
                for name in os.listdir(logd):
                    lp = os.path.join(logd, name)
                    with open(lp) as f:
                        txt = f.read()
                    with open(lp, 'w') as f:
                        f.write(txt.replace(f'{w}/run1', f'{w}/run{k}'))
        if n > 1:
            link = os.path.join(wd, 'runN')
            os.unlink(link)
            os.symlink(f'run{n}', link)

    def runs(self):
        """Existing run dirs (anything holding a flow.cylc directly inside a
        workflow dir, or the workflow dir itself): path -> tree hash."""
        out = {}
        for w in WORKFLOWS:
            wd = self.wdir(w)
            if not os.path.isdir(wd):
                continue
            if os.path.exists(os.path.join(wd, 'flow.cylc')):
                out[wd] = tree_hash(wd)
                continue
            for name in sorted(os.listdir(wd)):
                p = os.path.join(wd, name)
                if name in ('runN', '_cylc-install') or os.path.islink(p):
                    continue
                if os.path.isdir(p):
                    out[p] = tree_hash(p)
        return out

    def runN(self, w):
        p = os.path.join(self.wdir(w), 'runN')
        if os.path.islink(p):
            return os.readlink(p)
        if os.path.lexists(p):
            return '<not-a-link>'
        return None

    def numbered(self, w):
        wd = self.wdir(w)
        out = []
        if os.path.isdir(wd):
            for name in os.listdir(wd):
                m = re.match(r'^run(\d+)$', name)
                if m and os.path.isdir(os.path.join(wd, name)):
                    out.append(int(m.group(1)))
        return sorted(out)


# ---------------------------------------------------------------- check
def check_case(case, ctx: Ctx) -> CaseResult:
    from vf.cylcutil import reset_globals
    reset_globals()
    world = World(ctx)
    try:
        world.build()
        return _run(case, world)
    finally:
        import logging
        for name in ('cylc-install', 'cylc-reinstall'):
            lg = logging.getLogger(name)
            for h in list(lg.handlers):
                h.close()
                lg.removeHandler(h)
        world.wipe()


def _run(case, world):
    from pathlib import Path
    from cylc.flow.clean import init_clean
    from cylc.flow.exceptions import WorkflowFilesError
    from cylc.flow.install import install_workflow, reinstall_workflow
    from cylc.flow.scripts.clean import CleanOptions

    viol = []
    classes = set()
    # model
    latest = {}          # workflow -> name of the run created by the most
    #                      recent numbered install (None once it is cleaned)
    issued = {w: set() for w in WORKFLOWS}   # numbers ever issued
    ok_numbered = {w: 0 for w in WORKFLOWS}
    reissued = 0
    spice = False

    def fresh_loggers():
        # every `cylc install` / `cylc reinstall` is a new process in real
        # life: drop the file handlers the previous call left on the
        # module-level loggers
        import logging
        for name in ('cylc-install', 'cylc-reinstall'):
            lg = logging.getLogger(name)
            for h in list(lg.handlers):
                try:
                    h.close()
                finally:
                    lg.removeHandler(h)

    def current_source(wd):
        link = os.path.join(wd, '_cylc-install', 'source')
        if os.path.islink(link):
            tgt = os.path.realpath(link)
            for k, s in enumerate(world.sources):
                if os.path.realpath(s) == tgt:
                    return k
        return None

    def add(sig, detail, i, step):
        viol.append(Violation(sig, f'step {i} {step}: {detail}'))

    pre = case.get('pre', 0)
    prew = WORKFLOWS[(case.get('prew', 0) % 2) if case['spread'] else 0]
    prefab = {w: 0 for w in WORKFLOWS}   # runs made by World.replicate
    tmpl_hash = None
    steps = list(case['steps'])
    if pre:
        # the first install of the prefix is a real, checked step
        steps.insert(0, ['inst', case.get('prew', 0) % 2, 0])
        classes.add('prefix-of-%s-installs' % (
            '8-9' if pre < 10 else '10-13' if pre < 19
            else '19-21' if pre < 99 else '99-101'))

    for i, step in enumerate(steps):
        op, a, b = step
        w = WORKFLOWS[(a % 2) if case['spread'] else 0]
        wd = world.wdir(w)
        before = world.runs()
        runN_before = world.runN(w)
        nums_before = world.numbered(w)
        classes.add('op:' + op)

        if op in ('inst', 'instother', 'instname', 'instnoname'):
            cur = current_source(wd)
            si = cur if cur is not None else 0
            if op == 'instother':
                si = 1 - si
            fresh_loggers()
            kw = {}
            if op == 'instname':
                kw['run_name'] = RUN_NAMES[b % 2]
            elif op == 'instnoname':
                kw['no_run_name'] = True
            has_named = any(
                os.path.dirname(p) == wd and not re.match(
                    r'^run\d+$', os.path.basename(p)) for p in before
            ) or wd in before
            plain = op == 'inst' and not has_named
            if op in ('inst', 'instother') and len(nums_before) >= 10:
                classes.add('numbered-install-with>=10-runs')
                if runN_before is None:
                    classes.add('numbered-install-with>=10-runs-no-runN')
                if nums_before != list(range(1, len(nums_before) + 1)):
                    classes.add('numbered-install-with>=10-runs-and-gaps')
            elif op in ('inst', 'instother') and nums_before and (
                    runN_before is None):
                classes.add('numbered-install-with<10-runs-no-runN')
            # nesting: c48b/sub vs nothing else -> no nesting generated
            err = None
            res = None
            try:
                res = install_workflow(
                    Path(world.sources[si]), workflow_name=w, **kw)
            except WorkflowFilesError as exc:
                err = exc
            except Exception as exc:
                add('C48:exception:' + exc_sig(exc), repr(exc), i, step)
                break
            after = world.runs()
            # never overwrite / change an existing run dir
            for p, hsh in before.items():
                if p not in after:
                    add('C48:install-removed-existing-run',
                        f'{p} vanished during install', i, step)
                elif after[p] != hsh:
                    add('C48:install-changed-existing-run',
                        f'content of existing run dir {p} changed '
                        f'(install {"failed: %s" % err if err else "ok"})',
                        i, step)
            new = [p for p in after if p not in before]
            if err is None:
                rundir = str(res[1])
                if rundir in before:
                    add('C48:install-into-existing-run',
                        f'install reported success into existing {rundir}',
                        i, step)
                if new != [rundir] and rundir not in before:
                    add('C48:install-created-unexpected-dirs',
                        f'returned {rundir}, new run dirs {new}', i, step)
                if op in ('inst', 'instother'):
                    m = re.match(r'^run(\d+)$', os.path.basename(rundir))
                    if not m or os.path.dirname(rundir) != wd:
                        add('C48:numbered-install-not-numbered',
                            f'run dir {rundir}', i, step)
                    else:
                        k = int(m.group(1))
                        if nums_before and k <= max(nums_before):
                            add('C48:run-number-not-above-existing',
                                f'created run{k} while runs {nums_before} '
                                f'exist', i, step)
                        if k in issued[w]:
                            reissued += 1
                            classes.add('number-reissued-after-clean')
                        issued[w].add(k)
                        latest[w] = f'run{k}'
                        ok_numbered[w] += 1
                        ln = world.runN(w)
                        if ln != f'run{k}':
                            add('C48:runN-not-latest',
                                f'after installing run{k} runN -> {ln!r}',
                                i, step)
                        if (tmpl_hash is not None and w == prew and si == 0
                                and world.src_version[0] == 0):
                            # a real install of the same source next to the
                            # replicated runs: must look like them
                            classes.add(
                                'replicated-runs-equal-real-install'
                                if after.get(rundir) == tmpl_hash else
                                'replicated-runs-DIFFER-from-real-install')
                        # the new run holds the source
                        with open(os.path.join(world.sources[si],
                                               'flow.cylc')) as f1, open(
                                os.path.join(rundir, 'flow.cylc')) as f2:
                            if f1.read() != f2.read():
                                add('C48:installed-content-differs',
                                    f'{rundir}/flow.cylc != source', i, step)
                else:
                    spice = True
                    classes.add('named-install-ok')
                    if world.runN(w) != runN_before:
                        add('C48:runN-changed-by-named-install',
                            f'{runN_before!r} -> {world.runN(w)!r}', i, step)
            else:
                classes.add('install-failed')
                spice = True
                if plain:
                    add('C48:plain-numbered-install-failed',
                        f'workflow dir holds only numbered runs '
                        f'{nums_before} (runN -> {runN_before!r}) and the '
                        f'source is unchanged, but install raised: {err}',
                        i, step)
                # a failed install must not lose runN
                ln = world.runN(w)
                created = [os.path.basename(p) for p in new
                           if os.path.dirname(p) == wd
                           and re.match(r'^run\d+$', os.path.basename(p))]
                if created:
                    # (e.g. source mismatch is detected after the copy)
                    classes.add('failed-install-left-run-dir')
                    latest[w] = sorted(
                        created, key=lambda s: int(s[3:]))[-1]
                    issued[w].update(int(c[3:]) for c in created)
                want = latest.get(w)
                if want is not None and runN_before is not None and (
                        ln != want):
                    add('C48:runN-lost-by-failed-install',
                        f'install failed ({err}); runN was '
                        f'{runN_before!r}, now {ln!r}, latest run is {want}',
                        i, step)

        elif op == 'reinst':
            targets = sorted(before)
            if not targets:
                continue
            rundir = targets[b % len(targets)]
            tw = next(x for x in WORKFLOWS
                      if rundir == world.wdir(x)
                      or rundir.startswith(world.wdir(x) + '/'))
            cur = current_source(world.wdir(tw))
            si = cur if cur is not None else 0
            if a & 1:
                # the source moved on since the install
                world.src_version[si] += 1
                world.write_source(si)
                before = world.runs()
            named_run = os.path.relpath(rundir, world.cylc_run)
            lnb = world.runN(tw)
            fresh_loggers()
            try:
                reinstall_workflow(Path(world.sources[si]), named_run,
                                   Path(rundir))
            except WorkflowFilesError:
                classes.add('reinstall-failed')
            except Exception as exc:
                add('C48:exception:' + exc_sig(exc), repr(exc), i, step)
                break
            after = world.runs()
            for p, hsh in before.items():
                if p != rundir and after.get(p) != hsh:
                    add('C48:reinstall-changed-other-run',
                        f'reinstall of {rundir} changed {p}', i, step)
            if set(after) != set(before):
                add('C48:reinstall-changed-run-set',
                    f'{sorted(before)} -> {sorted(after)}', i, step)
            if after.get(rundir) != before.get(rundir):
                classes.add('reinstall-updated-run')
            if world.runN(tw) != lnb:
                add('C48:runN-changed-by-reinstall',
                    f'{lnb!r} -> {world.runN(tw)!r}', i, step)

        elif op in ('clean', 'cleanlatest'):
            targets = sorted(before)
            if op == 'cleanlatest':
                # the run runN points to (cylc then removes runN itself)
                tgt = os.path.join(wd, runN_before or '-')
                targets = [tgt] if tgt in before else []
            if not targets:
                continue
            rundir = targets[b % len(targets)]
            tw = next(x for x in WORKFLOWS
                      if rundir == world.wdir(x)
                      or rundir.startswith(world.wdir(x) + '/'))
            ln_before = world.runN(tw)
            id_ = os.path.relpath(rundir, world.cylc_run)
            try:
                asyncio.run(init_clean(
                    id_, CleanOptions(local_only=True, rm_dirs=[])))
            except Exception as exc:
                add('C48:exception:' + exc_sig(exc), repr(exc), i, step)
                break
            spice = True
            after = world.runs()
            if rundir in after:
                add('C48:clean-left-run', f'{rundir} still exists', i, step)
            for p, hsh in before.items():
                if p != rundir and after.get(p) != hsh:
                    add('C48:clean-changed-other-run',
                        f'clean of {rundir} changed/removed {p}', i, step)
            ln = world.runN(tw)
            base = os.path.basename(rundir)
            if ln_before == base:
                classes.add('cleaned-latest-run')
                if ln is not None:
                    add('C48:runN-broken-after-clean',
                        f'runN -> {ln!r} after {base} was cleaned', i, step)
            elif ln != ln_before and os.path.isdir(world.wdir(tw)):
                add('C48:runN-changed-by-clean',
                    f'clean of {base}: runN {ln_before!r} -> {ln!r}',
                    i, step)
            if latest.get(tw) == base:
                latest[tw] = None

        elif op == 'rmrunN':
            p = os.path.join(wd, 'runN')
            if os.path.islink(p):
                os.unlink(p)
                spice = True
                classes.add('runN-deleted-manually')
                latest[w] = None

        elif op == 'touchsrc':
            si = b % 2
            world.src_version[si] += 1
            world.write_source(si)

        if viol:
            break
        if pre and i == 0:
            if world.numbered(prew) != [1] or world.runN(prew) != 'run1':
                raise RuntimeError('harness: first install of the prefix '
                                   'did not give run1 + runN without a '
                                   'violation being recorded')
            tmpl_hash = tree_hash(os.path.join(world.wdir(prew), 'run1'))
            world.replicate(prew, pre)
            prefab[prew] = pre - 1
            issued[prew].update(range(1, pre + 1))
            latest[prew] = f'run{pre}'

    if max(len(world.numbered(w)) for w in WORKFLOWS) >= 10:
        # (state at the end of the history)
        classes.add('ends-with>=10-numbered-runs')
    best = max(ok_numbered[w] + prefab[w] for w in WORKFLOWS)
    if best >= 2:
        classes.add('numbered-installs>=2')
    if best >= 4:
        classes.add('numbered-installs>=4')
    if best >= 10:
        classes.add('numbered-installs>=10')
    seen = {}
    for v in viol:
        seen.setdefault(v.sig, v)
    res = CaseResult(list(seen.values()),
                     nontrivial=best >= 2 and spice,
                     classes=sorted(classes), distinct_key=case,
                     info={'numbered_installs': ok_numbered,
                           'reissued': reissued})
    res.reissued = reissued
    return res


def _check_and_count(case, ctx):
    res = check_case(case, ctx)
    n = getattr(res, 'reissued', 0)
    if n:
        ctx.col.extra['number_reissued_after_clean'] = ctx.col.extra.get(
            'number_reissued_after_clean', 0) + n
    return res


def run_shard(ctx: Ctx):
    ctx.col.extra.setdefault('number_reissued_after_clean', 0)
    hyp_run(ctx, histories(), _check_and_count, ctx.share(BUDGET[ctx.tier]))
