"""C47 Platform and host selection avoids unreachable hosts.

A generated global.cylc ([platforms] with regex / comma-list names, hosts,
selection methods; [platform groups]) is loaded by the real GlobalConfig
(CYLC_CONF_PATH -> file, SPEC, upgrader, validator) and installed as the
glbl_cfg() singleton; platform_from_name / get_platform /
get_host_from_platform are then called for generated names and bad-host sets.
A second mode passes the platforms dict directly to platform_from_name (as
the unit tests do) so that the comma handling inside platform_from_name is
reached as well.
"""
from __future__ import annotations

import os
import random
import re

from hypothesis import strategies as st

from vf.core import CaseResult, Ctx, Violation, hyp_run, exc_sig

PROP_ID = 'C47'
LEVEL = 'exploration'
BUDGET = {'quick': 4000, 'thorough': 100000}
RULE = (
    'Hypothesis draws 1-5 platform section headers, each a comma list '
    '(separators ",", ", ", " , ") of 1-3 name patterns from a small regex '
    'grammar (literal prefix from {hpc,desk,ab,a,x} + parts [0-9] \\d [12] '
    '. .* (a|b) literals, quantifiers {2} {1,3} {2,} + ?; top-level "|"), '
    'with 0-3 distinct hosts from h1..h5 (in 1 of 4 non-empty lists 1-2 '
    'entries are repeated at random positions, e.g. "h1, h1, h2"), '
    'selection method random / definition '
    'order; 0-2 platform groups over resolvable member names; then 1-6 '
    'queries (a name instantiated from / mutated from the patterns, a '
    'group name or localhost; a bad-host subset biased to cover all hosts '
    'of one platform; entry point platform_from_name / get_platform(str) / '
    'get_platform(task conf dict)). Mode "load": text parsed by the real '
    'GlobalConfig and installed as glbl_cfg(); mode "dict": platforms dict '
    'passed to platform_from_name(platforms=...). Oracle: harness splits '
    'comma lists itself (commas inside {..} are not separators), '
    're.fullmatch per alternative, last definition wins; host/group '
    'selection by set arithmetic over the DISTINCT hosts of each list (a '
    'platform is unusable iff every distinct host is bad, however often a '
    'host is listed). Non-trivial = some query name matches '
    '>=2 definitions with different host lists, or some bad-host set '
    'removes some but not all hosts of the resolved platform / some but '
    'not all members of a group; distinct by (config, queries).')
ASSUMPTIONS = [
    'Each distinct name pattern appears in one header only (parsec merges '
    'repeated sections, which makes "last-defined" ambiguous).',
    'No generated pattern can match "localhost" (cylc rejects such regexes '
    'by design) and no pattern ends with "]" in load mode (the parser '
    'rejects such a header with FileParseError "bracket mismatch").',
    '"definition order" = first reachable host / first usable member '
    '(option documentation in cfgspec/globalcfg.py).',
    'random.seed is set from the case so that random selection is '
    'replayable.',
    'A hosts list that repeats a host is a valid configuration (string '
    'list; no validator rejects it) and denotes the same set of hosts.',
    'Multi-host platforms get "job runner = slurm" (background/at are '
    'rejected for multi-host platforms by validate_platforms).',
]
MANIFEST = {'engine': 'P', 'technique': 'generated global.cylc via real GlobalConfig vs set model'}

PREFIXES = ['hpc', 'desk', 'ab', 'a', 'x', 'desk', 'hpc']
HOSTS = ['h1', 'h2', 'h3', 'h4', 'h5']
# part: (regex text, [sample matches], can be quantified)
PARTS = [
    ('[0-9]', ['0', '7', '1'], True),
    (r'\d', ['3', '1'], True),
    ('[12]', ['1', '2'], True),
    ('.', ['1', 'z', '-'], True),
    ('.*', ['', '1', '12', 'zz9'], False),
    ('(a|b)', ['a', 'b'], True),
    ('1', ['1'], False),
    ('2', ['2'], False),
    ('-', ['-'], False),
    ('_', ['_'], False),
    ('b', ['b'], False),
]
QUANTS = [('', 1, 1), ('', 1, 1), ('', 1, 1), ('{2}', 2, 2), ('{2}', 2, 2),
          ('+', 1, 3), ('+', 1, 3), ('?', 0, 1), ('?', 0, 1), ('*', 0, 2),
          ('{1,3}', 1, 3), ('{2,}', 2, 4), ('{1,2}', 1, 2)]
SEPS = [',', ', ', ' , ']


@st.composite
def alt_pattern(draw, no_trailing_bracket=False, prefixes=PREFIXES):
    """-> (regex text, [matching sample names])"""
    def one():
        pre = draw(st.sampled_from(prefixes))
        text = pre
        samples = [pre]
        for _ in range(draw(st.integers(0, 3))):
            ptxt, psamp, quantifiable = draw(st.sampled_from(PARTS))
            qtxt, lo, hi = draw(st.sampled_from(QUANTS)) if quantifiable \
                else ('', 1, 1)
            text += ptxt + qtxt
            new = []
            for s in samples[:3]:
                for _k in range(2):
                    n = draw(st.integers(lo, hi))
                    new.append(s + ''.join(
                        draw(st.sampled_from(psamp)) for _i in range(n)))
            samples = new
        if no_trailing_bracket and text.endswith(']'):
            # the file parser cannot express a header ending in ']'
            text += 'b'
            samples = [x + 'b' for x in samples]
        return text, samples[:4]
    text, samples = one()
    if draw(st.integers(0, 5)) == 0:
        t2, s2 = one()
        text, samples = text + '|' + t2, samples + s2
    return text, samples


@st.composite
def cases(draw):
    mode = draw(st.sampled_from(['load', 'load', 'dict']))
    # one or two prefixes per case so that definitions overlap
    prefixes = draw(st.lists(st.sampled_from(PREFIXES), min_size=1,
                             max_size=2))
    headers = []
    seen = set()
    samples_of = []      # (sample name, header index, has {m,n} comma)
    for _ in range(draw(st.integers(1, 5))):
        alts = []
        hi = len(headers)
        for _a in range(draw(st.sampled_from([1, 1, 2, 3]))):
            text, samples = draw(alt_pattern(mode == 'load', prefixes))
            if text in seen:
                continue
            seen.add(text)
            alts.append(text)
            brace = bool(re.search(r'\{\d*,\d*\}', text))
            samples_of += [(s, hi, brace) for s in samples if s]
        if not alts:
            continue
        sep = draw(st.sampled_from(SEPS))
        nh = draw(st.sampled_from([0, 1, 1, 2, 2, 3]))
        hosts = draw(st.lists(st.sampled_from(HOSTS), min_size=nh,
                              max_size=nh, unique=True))
        if hosts and draw(st.integers(0, 3)) == 0:
            # a hosts list may name a host more than once (a valid string
            # list; weights "random" selection towards that host)
            for _r in range(draw(st.sampled_from([1, 1, 2]))):
                hosts.insert(draw(st.integers(0, len(hosts))),
                             draw(st.sampled_from(hosts)))
        headers.append({
            'alts': alts, 'sep': sep, 'hosts': hosts,
            'method': draw(st.sampled_from(
                [None, 'random', 'definition order'])),
        })
    if not headers:
        headers.append({'alts': ['hpc'], 'sep': ',', 'hosts': [],
                        'method': None})
        samples_of.append(('hpc', 0, False))
    samples_of = sorted(set(s for s in samples_of if s[0] != 'localhost'))
    plain = [s for s in samples_of if not s[2]]
    groups = []
    if mode == 'load' and plain:
        for gi in range(draw(st.sampled_from([0, 1, 1, 2]))):
            # members preferably from different headers (different hosts)
            by_hdr = {}
            for smp, hi, _b in plain:
                by_hdr.setdefault(hi, []).append(smp)
            hdrs = sorted(by_hdr)
            k = draw(st.sampled_from([1, 2, 2, 3, 3]))
            members = []
            for j in range(k):
                hi = hdrs[draw(st.integers(0, len(hdrs) - 1))] \
                    if j >= len(hdrs) or draw(st.integers(0, 3)) == 0 \
                    else hdrs[(j + gi) % len(hdrs)]
                m = draw(st.sampled_from(by_hdr[hi]))
                if m not in members:
                    members.append(m)
            groups.append({
                'name': f'G{gi}', 'members': members,
                'method': draw(st.sampled_from(
                    [None, 'random', 'definition order']))})
    hdr_of = {}
    for s, hi, _b in samples_of:
        hdr_of.setdefault(s, hi)
    queries = []
    for _ in range(draw(st.integers(1, 6))):
        k = draw(st.integers(0, 19))
        target = None      # a concrete platform name the bad set is aimed at
        if groups and k <= 7:
            g = draw(st.sampled_from(groups))
            name = g['name']
            target = draw(st.sampled_from(g['members']))
        elif k == 8:
            name = 'localhost'
        elif k <= 10:
            s = draw(st.sampled_from(samples_of))[0]
            name = draw(st.sampled_from([s + '1', s[:-1] or s, s + 'b']))
        else:
            name = target = draw(st.sampled_from(samples_of))[0]
        thosts = None
        if target is not None:
            thosts = headers[hdr_of[target]]['hosts'] or [target]
        allhosts = HOSTS + [name] + ([target] if target else [])
        bk = draw(st.integers(0, 9))
        if name.startswith('G') and bk >= 8:
            bk = 3
        if bk == 0:
            bad = None
        elif bk == 1:
            bad = []
        elif bk <= 4 and thosts:
            # every host of the targeted platform (+ maybe one more)
            bad = sorted(set(thosts) | set(draw(st.lists(
                st.sampled_from(allhosts), max_size=1))))
        elif bk <= 7 and thosts and len(set(thosts)) > 1:
            # some but not all (distinct) hosts of the targeted platform
            dhosts = sorted(set(thosts))
            keep = draw(st.integers(0, len(dhosts) - 1))
            bad = sorted(set(
                h for i, h in enumerate(dhosts)
                if i != keep and draw(st.booleans())) or {dhosts[keep - 1]})
        else:
            bad = sorted(set(draw(st.lists(
                st.sampled_from(allhosts), min_size=1, max_size=4))))
        queries.append({
            'name': name, 'bad': bad,
            'entry': draw(st.sampled_from(['pfn', 'gp-str', 'gp-dict'])),
            'hostbad': draw(st.sampled_from(['same', 'same', 'container'])),
        })
    return {'mode': mode, 'headers': headers, 'groups': groups,
            'queries': queries, 'rseed': draw(st.integers(0, 1000))}



# -------------------------------------------------------------------- model
def split_commas(header, naive=False):
    """Split a header into name patterns.

    Documented reading: commas separate names, except commas that belong to
    a {m,n} quantifier.  naive=True: every comma separates (what
    parsec.util.expand_many_section does).
    """
    out, cur, depth = [], '', 0
    for ch in header:
        if ch == '{':
            depth += 1
        elif ch == '}':
            depth = max(0, depth - 1)
        if ch == ',' and (naive or depth == 0):
            out.append(cur.strip())
            cur = ''
        else:
            cur += ch
    out.append(cur.strip())
    return [o for o in out if o]


def header_text(h):
    return h['sep'].join(h['alts'])


def definitions(case, naive=False):
    """[(pattern, hosts, method)] in definition order, localhost first.

    A name that occurs in several headers (only possible for the fragments
    of the naive split) is one section: it keeps its first position and
    later headers override the settings they define, as parsec does.
    """
    order = ['localhost']
    table = {'localhost': [['localhost'], 'definition order']}
    for h in case['headers']:
        for alt in split_commas(header_text(h), naive):
            if alt not in table:
                order.append(alt)
                table[alt] = [[], None]
            if h['hosts']:
                table[alt][0] = list(h['hosts'])
            if h['method']:
                table[alt][1] = h['method']
    return [(k, table[k][0], table[k][1] or 'random') for k in order]


def resolve_platform(defs, name):
    """-> (hosts, method, n distinct candidates) or None."""
    cands = []
    for pat, hosts, method in defs:
        try:
            if re.fullmatch(pat, name):
                cands.append((hosts or [name], method))
        except re.error:
            return 'bad-regex'
    if not cands:
        return None
    ndist = len({(tuple(c[0]), c[1]) for c in cands})
    return cands[-1][0], cands[-1][1], ndist


def model(case, q, naive=False):
    """Expected outcome of a platform lookup.

    -> {'err': 'PlatformLookupError'|'NoPlatformsError'} or
       {'allowed': {name: hosts}, 'first': name|None, 'multi': bool,
        'partial': bool}
    """
    defs = definitions(case, naive)
    bad = set(q['bad'] or [])
    grp = next((g for g in case['groups'] if g['name'] == q['name']), None)
    if grp is None:
        r = resolve_platform(defs, q['name'])
        if r == 'bad-regex':
            return {'err': 'bad-regex'}
        if r is None:
            return {'err': 'PlatformLookupError'}
        return {'allowed': {q['name']: r[0]}, 'first': q['name'],
                'method': {q['name']: r[1]}, 'multi': r[2] > 1,
                'partial': False}
    usable = {}
    methods = {}
    dup_dead = False
    for m in grp['members']:
        r = resolve_platform(defs, m)
        if r == 'bad-regex':
            return {'err': 'bad-regex'}
        if r is None:
            if not naive:
                raise RuntimeError(
                    f'harness: group member {m} is not resolvable')
            return {'err': 'PlatformLookupError'}
        if not bad or (set(r[0]) - bad):
            usable[m] = r[0]
            methods[m] = r[1]
        elif len(set(r[0])) < len(r[0]):
            # hosts list with a repeated entry, every distinct host bad
            dup_dead = True
    if not usable:
        return {'err': 'NoPlatformsError', 'dup_dead': dup_dead}
    first = next(m for m in grp['members'] if m in usable)
    return {'allowed': usable,
            'first': first if (grp['method'] == 'definition order') else None,
            'method': methods, 'multi': False, 'dup_dead': dup_dead,
            'partial': len(usable) < len(grp['members'])}


# ------------------------------------------------------------------ harness
def render(case):
    lines = ['[platforms]']
    for h in case['headers']:
        lines.append(f'    [[{header_text(h)}]]')
        if h['hosts']:
            lines.append('        hosts = ' + ', '.join(h['hosts']))
        if len(h['hosts']) > 1:
            lines.append('        job runner = slurm')
        if h['method']:
            lines += ['        [[[selection]]]',
                      f'            method = {h["method"]}']
    if case['groups']:
        lines.append('[platform groups]')
        for g in case['groups']:
            lines.append(f'    [[{g["name"]}]]')
            lines.append('        platforms = ' + ', '.join(g['members']))
            if g['method']:
                lines += ['        [[[selection]]]',
                          f'            method = {g["method"]}']
    return '\n'.join(lines) + '\n'




def outcome(fn):
    from cylc.flow.exceptions import (
        NoHostsError, NoPlatformsError, PlatformLookupError)
    try:
        return ('ok', fn())
    except NoPlatformsError as exc:
        return ('err', 'NoPlatformsError', exc)
    except PlatformLookupError as exc:
        return ('err', 'PlatformLookupError', exc)
    except NoHostsError as exc:
        return ('err', 'NoHostsError', exc)


def check_case(case, ctx: Ctx) -> CaseResult:
    import logging
    from cylc.flow import LOG
    from cylc.flow.cfgspec.globalcfg import GlobalConfig
    from cylc.flow import platforms as P
    from cylc.flow.exceptions import GlobalConfigError
    from cylc.flow.parsec.exceptions import ParsecError

    viol = []
    classes = {'mode-' + case['mode']}
    nontrivial = False
    random.seed(case['rseed'])
    text = render(case)
    # one config dir per process and mode, file overwritten per case
    confdir = os.path.join(ctx.scratch, 'c47-' + case['mode'])
    os.makedirs(confdir, exist_ok=True)
    old_env = os.environ.get('CYLC_CONF_PATH')
    old_level = LOG.level
    LOG.setLevel(logging.CRITICAL)
    direct_platforms = None
    try:
        if case['mode'] == 'load':
            with open(os.path.join(confdir, 'global.cylc'), 'w') as f:
                f.write(text)
            os.environ['CYLC_CONF_PATH'] = confdir
            try:
                cfg = GlobalConfig.get_inst(cached=False)
            except (ParsecError, GlobalConfigError) as exc:
                # a generated config must be loadable: generator bug
                raise RuntimeError(
                    f'harness: generated global.cylc rejected: {exc!r}\n'
                    + text)
            GlobalConfig.set_cache(cfg)
        else:
            # default global config + platforms dict passed directly, the
            # way tests/unit/test_platforms.py drives platform_from_name
            os.environ['CYLC_CONF_PATH'] = confdir   # empty dir: defaults
            GlobalConfig.set_cache(GlobalConfig.get_inst(cached=False))
            direct_platforms = {'localhost': {
                'hosts': ['localhost'],
                'selection': {'method': 'definition order'}}}
            for h in case['headers']:
                d = {'selection': {'method': h['method'] or 'random'}}
                if h['hosts']:
                    d['hosts'] = list(h['hosts'])
                direct_platforms[header_text(h)] = d
        if any('{' in a and ',' in a for h in case['headers']
               for a in h['alts']):
            classes.add('brace-quantifier-with-comma')
        if any(len(h['alts']) > 1 for h in case['headers']):
            classes.add('comma-list-header')
        if case['groups']:
            classes.add('has-groups')
        if any(len(set(h['hosts'])) < len(h['hosts'])
               for h in case['headers']):
            classes.add('hosts-list-repeats-a-host')

        for q in case['queries']:
            bad = None if q['bad'] is None else set(q['bad'])
            exp = model(case, q)
            if exp.get('err') == 'bad-regex':
                raise RuntimeError('harness: generated an invalid regex')
            name = q['name']
            if case['mode'] == 'dict':
                def call():
                    return P.platform_from_name(
                        name, platforms=direct_platforms, bad_hosts=bad)
            elif q['entry'] == 'pfn':
                def call():
                    return P.platform_from_name(name, bad_hosts=bad)
            elif q['entry'] == 'gp-str':
                def call():
                    return P.get_platform(name, bad_hosts=bad)
            else:
                def call():
                    return P.get_platform(
                        {'platform': name}, 'vf_task', bad_hosts=bad)
            classes.add('entry-' + (q['entry'] if case['mode'] == 'load'
                                    else 'pfn-dict'))
            try:
                got = outcome(call)
            except Exception as exc:
                viol.append(Violation(
                    'C47:unexpected-exception:' + exc_sig(exc),
                    f'lookup {q} raised {exc!r}; config:\n{text}'))
                continue
            is_group = any(g['name'] == name for g in case['groups'])
            if is_group:
                classes.add('group-query')
            if exp.get('multi'):
                classes.add('name-matches-several-definitions')
                nontrivial = True
            if exp.get('partial'):
                classes.add('group-partially-unusable')
                nontrivial = True
            if exp.get('dup_dead'):
                classes.add('group-member-with-repeated-host-all-unreachable')
            if 'err' in exp:
                classes.add('expect-' + exp['err'])

            def describe(o):
                if o[0] == 'ok':
                    return (f'platform name={o[1]["name"]!r} '
                            f'hosts={o[1]["hosts"]!r} '
                            f'method={o[1]["selection"]["method"]!r}')
                return f'{o[1]}({o[2]})'

            def matches(o, e):
                if 'err' in e:
                    return o[0] == 'err' and o[1] == e['err']
                if o[0] != 'ok':
                    return False
                pname = o[1]['name']
                if pname not in e['allowed']:
                    return False
                if list(o[1]['hosts']) != e['allowed'][pname]:
                    return False
                if (case['mode'] == 'load'
                        and o[1]['selection']['method']
                        != e['method'][pname]):
                    return False
                if e['first'] is not None and pname != e['first']:
                    return False
                return True

            if not matches(got, exp):
                what = f'lookup {q}: got {describe(got)}, expected {exp}'
                naive = model(case, q, naive=True)
                if (case['mode'] == 'load' and matches(got, naive)):
                    sig = 'C47:name-resolution:brace-quantifier-comma-split-at-load'
                elif is_group:
                    if (got[0] == 'ok' and 'allowed' in exp
                            and got[1]['name'] not in exp['allowed']):
                        sig = 'C47:group-selection:unusable-or-foreign-member'
                    elif got[0] == 'err' and 'allowed' in exp:
                        sig = f'C47:group-selection:{got[1]}-while-usable'
                    elif got[0] == 'ok' and 'err' in exp:
                        sig = 'C47:group-selection:no-error-when-none-usable'
                    else:
                        sig = 'C47:group-selection:differs'
                else:
                    if got[0] == 'err' and 'allowed' in exp:
                        sig = f'C47:name-resolution:{got[1]}-for-matching-name'
                    elif got[0] == 'ok' and 'err' in exp:
                        sig = 'C47:name-resolution:resolved-unmatched-name'
                    else:
                        sig = 'C47:name-resolution:wrong-definition'
                viol.append(Violation(sig, what + f'; config:\n{text}'))
                continue
            if got[0] != 'ok':
                continue
            # ---- host selection on the resolved platform
            plat = got[1]
            hosts = list(plat['hosts'])
            method = plat['selection']['method'] if 'selection' in plat \
                else 'random'
            hb = bad
            if hb is not None and q['hostbad'] == 'container':
                hb = sorted(hb)      # any Container is allowed
            good = [h for h in hosts if not bad or h not in bad]
            if bad and 0 < len(good) < len(hosts):
                classes.add('platform-partially-unreachable')
                nontrivial = True
            if not good:
                classes.add('platform-all-unreachable')
            try:
                hgot = outcome(lambda: P.get_host_from_platform(plat, hb))
            except Exception as exc:
                viol.append(Violation(
                    'C47:unexpected-exception:' + exc_sig(exc),
                    f'get_host_from_platform({hosts}, {hb}) raised {exc!r}'))
                continue
            hwhat = (f'get_host_from_platform(hosts={hosts}, method={method}, '
                     f'bad_hosts={hb}) -> '
                     f'{hgot[1] if hgot[0] == "ok" else hgot[1]}')
            if not good:
                if not (hgot[0] == 'err' and hgot[1] == 'NoHostsError'):
                    viol.append(Violation(
                        'C47:host-selection:no-NoHostsError-when-all-bad',
                        hwhat))
            elif hgot[0] != 'ok':
                viol.append(Violation(
                    'C47:host-selection:error-while-reachable-host-exists',
                    hwhat))
            elif hgot[1] in (bad or ()):
                viol.append(Violation(
                    'C47:host-selection:returned-unreachable-host', hwhat))
            elif hgot[1] not in hosts:
                viol.append(Violation(
                    'C47:host-selection:returned-foreign-host', hwhat))
            elif method == 'definition order' and hgot[1] != good[0]:
                viol.append(Violation(
                    'C47:host-selection:definition-order-not-first-reachable',
                    hwhat))
    finally:
        LOG.setLevel(old_level)
        GlobalConfig._DEFAULT = None
        if old_env is None:
            os.environ.pop('CYLC_CONF_PATH', None)
        else:
            os.environ['CYLC_CONF_PATH'] = old_env
    return CaseResult(viol, nontrivial=nontrivial, classes=sorted(classes))


def run_shard(ctx: Ctx):
    hyp_run(ctx, cases(), check_case, ctx.share(BUDGET[ctx.tier]))
