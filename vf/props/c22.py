"""C22 Broadcasts override in precedence order and persist exactly.

A Hypothesis-drawn history of put / clear / expire / flush / restart steps
(plain JSON) is interpreted over a real BroadcastMgr wired to a real
WorkflowDatabaseManager (private + public sqlite DBs) and the real
WorkflowConfig of a small family tree.  A dict model is run alongside.
restart = process the DB queue (as shutdown does), build a fresh BroadcastMgr
and load it with pri_dao.select_broadcast_states(load_db_broadcast_states) +
post_load_db_coerce(), exactly as Scheduler._load_pool_from_db does.
"""
from __future__ import annotations

import copy
import itertools
import os
import shutil
from types import SimpleNamespace

from hypothesis import strategies as st

from vf.core import CaseResult, Ctx, Violation, hyp_run, exc_sig

PROP_ID = 'C22'
LEVEL = 'exploration'
BUDGET = {'quick': 1600, 'thorough': 60000}
RULE = (
    'Hypothesis draws a history of 3-14 steps over a fixed workflow (root > '
    'FB > FA; t1 inherits FA, t2 inherits FB, t3 root only; integer cycling): '
    'put(points from {1,2,3,4,*,02,x(bad)}, namespaces from '
    '{root,FB,FA,t1,t2,t3,nope(bad)}, 1-3 setting dicts over script, '
    'pre-script, post-script, execution time limit, [environment]A/B/C/R, '
    '[directives]-l a/x, [meta]title; single-leaf dicts as the CLI sends, '
    'and in 1/3 of the cases multi-key dicts as the GraphQL API / UI sends; '
    'occasionally an invalid key), clear(by points / namespaces / cancel '
    'settings, any combination), expire(cutoff 1-5), flush (process DB '
    'queue) and restart. After every step the manager state is compared '
    'with a dict model and get_updated_rtconfig of t1,t2,t3 at every point '
    'that has point-specific broadcasts and one that has none '
    'with static config overridden by *:root..task then point:root..task; '
    'at restart the reloaded state must equal the state before. '
    'Non-trivial = at least two accepted puts that set the same setting for '
    'one task from different namespaces or from "*" and a point, and the '
    'history has a restart with non-empty state or a clear/expire that '
    'removed something; distinct by the step list.')
ASSUMPTIONS = [
    'Broadcast state is compared modulo empty branches (a put whose '
    'namespaces are all invalid leaves an empty point entry in memory).',
    'Leaf values are compared by str() (e.g. DurationFloat 60.0 == "PT1M").',
    'clear/expire are only given canonical point strings; put may use "02" '
    '(standardised to "2").',
    'The static runtime config of each task (inheritance) is taken from '
    'WorkflowConfig (C35 covers it); the precedence order root..task is the '
    'harness\'s own knowledge of the family tree.',
    'restart is preceded by processing the DB queue, as a scheduler '
    'shutdown does; crashes are not part of this property.',
    'expire is always given a cutoff (no-cutoff expiry clears everything by '
    'design and is outside the statement).',
]
MANIFEST = {'engine': 'F', 'technique': 'stateful history vs dict model, real sqlite DB'}

FLOW = '''
[scheduler]
    allow implicit tasks = False
[scheduling]
    cycling mode = integer
    initial cycle point = 1
    final cycle point = 5
    [[graph]]
        P1 = t1 & t2 & t3
[runtime]
    [[root]]
        script = root-script
        [[[environment]]]
            R = root
            A = root-a
    [[FB]]
        pre-script = fb-pre
        [[[environment]]]
            B = fb
    [[FA]]
        inherit = FB
        [[[environment]]]
            A = fa
    [[t1]]
        inherit = FA
        execution time limit = PT5M
    [[t2]]
        inherit = FB
        [[[directives]]]
            -l a = 1
    [[t3]]
'''
# harness's own knowledge of the family tree: task -> root .. task
LINEAGE = {
    't1': ['root', 'FB', 'FA', 't1'],
    't2': ['root', 'FB', 't2'],
    't3': ['root', 't3'],
}
NAMESPACES = ['root', 'FB', 'FA', 't1', 't2', 't3']
TASK_POINTS = ['1', '2', '3', '4']

LEAVES = [
    # (values include falsy ones - the empty string that blanks a script or
    # an environment variable, boolean False - which are valid settings)
    (['script'], ['s1', 's2', 'echo hi', '']),
    (['pre-script'], ['p1', 'p2', '']),
    (['post-script'], ['q1']),
    (['execution time limit'], ['PT1M', 'PT2M', 'PT1H']),
    (['environment', 'A'], ['a1', 'a2', 'a3', '']),
    (['environment', 'B'], ['b1', 'b2', '']),
    (['simulation', 'fail try 1 only'], ['False', 'True']),
    (['environment', 'C'], ['c1']),
    (['environment', 'R'], ['r1', 'r2']),
    (['directives', '-l a'], ['7', '8']),
    (['directives', 'x'], ['y']),
    (['meta', 'title'], ['T1', 'T2']),
]


# ---------------------------------------------------------------- generator
def _nest(path, value):
    d = value
    for k in reversed(path):
        d = {k: d}
    return d


def _merge(target, source):
    for k, v in source.items():
        if isinstance(v, dict):
            if not isinstance(target.get(k), dict):
                target[k] = {}
            _merge(target[k], v)
        else:
            target[k] = v


@st.composite
def setting_dict(draw, multi, cancel=False):
    n = draw(st.sampled_from([2, 2, 3, 4])) if multi else 1
    out = {}
    # biased to the first few leaves so that histories collide on keys
    for _ in range(n):
        path, vals = draw(st.sampled_from(LEAVES + LEAVES[:1] + LEAVES[4:6] * 2))
        _merge(out, _nest(path, None if cancel else draw(st.sampled_from(vals))))
    return out


@st.composite
def histories(draw):
    multi_case = draw(st.sampled_from([False, False, True]))
    steps = []
    n = draw(st.integers(3, 14))
    for _ in range(n):
        k = draw(st.integers(0, 99))
        if k < 50 or not steps:
            pts = draw(st.lists(
                st.sampled_from(['1', '2', '3', '*', '*', '2', '4', '1', '3', '*',
                                 '2', '02', 'x']),
                min_size=1, max_size=3, unique=True))
            nss = draw(st.lists(
                st.sampled_from(NAMESPACES * 2 + ['root', 't1', 'FA', 'nope']),
                min_size=1, max_size=3, unique=True))
            settings = []
            for _s in range(draw(st.sampled_from([1, 1, 2, 3]))):
                s = draw(setting_dict(multi_case and draw(st.booleans())))
                if draw(st.sampled_from([True] + [False] * 24)):
                    s = dict(s)
                    s['no such setting'] = 'x'
                settings.append(s)
            steps.append(['put', pts, nss, settings])
        elif k < 66:
            pts = draw(st.one_of(st.none(), st.lists(
                st.sampled_from(['1', '2', '3', '4', '*']), min_size=1,
                max_size=2, unique=True)))
            nss = draw(st.one_of(st.none(), st.lists(
                st.sampled_from(NAMESPACES), min_size=1, max_size=2,
                unique=True)))
            cancel = draw(st.one_of(st.none(), st.lists(
                setting_dict(draw(st.booleans()), cancel=True), min_size=1,
                max_size=2)))
            steps.append(['clear', pts, nss, cancel])
        elif k < 75:
            steps.append(['expire', draw(st.integers(1, 5))])
        elif k < 84:
            steps.append(['flush'])
        else:
            steps.append(['restart'])
    return {'steps': steps}


# -------------------------------------------------------------------- model
def std_point(p):
    if p == '*':
        return '*'
    if p.isdigit():
        return str(int(p))
    return None


def valid_setting(s):
    for k, v in s.items():
        if isinstance(v, dict):
            if not any(path[0] == k and len(path) == 2 for path, _ in LEAVES):
                return False
            for k2 in v:
                if [k, k2] not in [path for path, _ in LEAVES]:
                    return False
        elif [k] not in [path for path, _ in LEAVES]:
            return False
    return True


def leaves(d, pre=()):
    for k, v in d.items():
        if isinstance(v, dict):
            yield from leaves(v, pre + (k,))
        else:
            yield pre + (k,), v


def first_leaf(d):
    """What broadcast_report.get_broadcast_change_iter reports of a dict."""
    path = ()
    v = d
    while isinstance(v, dict):
        if not v:
            return None
        k, v = next(iter(v.items()))
        path += (k,)
    return path, v


def prune(d):
    """Plain dict copy with str leaves, without empty branches."""
    out = {}
    for k, v in d.items():
        if isinstance(v, dict):
            sub = prune(v)
            if sub:
                out[k] = sub
        elif v is not None:
            out[k] = v if isinstance(v, str) else _str(v)
    return out


def _str(v):
    if isinstance(v, list):
        return '[' + ', '.join(_str(i) for i in v) + ']'
    return str(v)


def plain(d):
    """Plain dict copy with str leaves, keeping empty sections."""
    out = {}
    for k, v in d.items():
        if isinstance(v, dict):
            out[k] = plain(v)
        else:
            out[k] = v if (v is None or isinstance(v, str)) else _str(v)
    return out


class Model:
    def __init__(self):
        self.b = {}      # documented semantics
        self.db = {}     # what reaches the DB if only the first leaf of each
        #                  put setting dict is recorded (suspicion, DESIGN 8)
        self.accepted_puts = []   # (point, ns, leaf path)
        self.removed = 0

    def put(self, pts, nss, settings):
        for s in settings:
            if not valid_setting(s):
                continue
            for p in pts:
                sp = std_point(p)
                if sp is None:
                    continue
                for ns in nss:
                    if ns not in NAMESPACES:
                        continue
                    _merge(self.b.setdefault(sp, {}).setdefault(ns, {}),
                           copy.deepcopy(s))
                    for path, _v in leaves(s):
                        self.accepted_puts.append((sp, ns, path))
                    fl = first_leaf(s)
                    if fl:
                        _merge(self.db.setdefault(sp, {}).setdefault(ns, {}),
                               _nest(list(fl[0]), fl[1]))

    def clear(self, pts, nss, cancel):
        keys = None
        if cancel:
            keys = {path for c in cancel for path, _ in leaves(c)}
        for store, count in ((self.b, True), (self.db, False)):
            for p in list(store):
                if pts and p not in pts:
                    continue
                for ns in list(store[p]):
                    if nss and ns not in nss:
                        continue
                    for path, _v in list(leaves(store[p][ns])):
                        if keys is None or path in keys:
                            d = store[p][ns]
                            for k in path[:-1]:
                                d = d[k]
                            del d[path[-1]]
                            if count:
                                self.removed += 1
            pr = prune(store)
            store.clear()
            store.update(pr)

    def expire(self, cutoff):
        pts = [p for p in self.b if p != '*' and int(p) < cutoff]
        pts_db = [p for p in self.db if p != '*' and int(p) < cutoff]
        pts = sorted(set(pts) | set(pts_db))
        if pts:
            self.clear(pts, None, None)

    def overrides(self, task, point):
        over = {}
        for cyc in ('*', point):
            for ns in LINEAGE[task]:
                _merge(over, copy.deepcopy(self.b.get(cyc, {}).get(ns, {})))
        return over

    def precedence_exercised(self):
        """Some task receives one setting from >=2 different sources."""
        for task, lineage in LINEAGE.items():
            for point in TASK_POINTS:
                seen = {}
                for cyc in ('*', point):
                    for ns in lineage:
                        for path, _ in leaves(self.b.get(cyc, {}).get(ns, {})):
                            seen.setdefault(path, set()).add((cyc, ns))
                if any(len(v) > 1 for v in seen.values()):
                    return True
        return False


# ------------------------------------------------------------------ harness
_cfg_cache = {}
_n = itertools.count()


class _DataStoreStub:
    def delta_broadcast(self):
        pass


def _config(ctx):
    ent = _cfg_cache.get(ctx.scratch)
    if ent is None:
        from vf.cylcutil import load_config
        cfg = load_config(FLOW, ctx.scratch, name='c22')
        static = {t: plain(cfg.get_taskdef(t).rtconfig) for t in LINEAGE}
        ent = _cfg_cache[ctx.scratch] = (cfg, static)
    return ent


def _new_mgr(schd, cfg):
    from cylc.flow.broadcast_mgr import BroadcastMgr
    mgr = BroadcastMgr(schd)
    # as Scheduler.load_flow_file does
    mgr.linearized_ancestors.update(cfg.get_linearized_ancestors())
    return mgr


def check_case(case, ctx: Ctx) -> CaseResult:
    import logging
    from cylc.flow import LOG
    from cylc.flow.id import Tokens
    from cylc.flow.run_modes import RunMode
    from cylc.flow.workflow_db_mgr import WorkflowDatabaseManager

    cfg, static = _config(ctx)
    rund = os.path.join(ctx.scratch, 'c22', f'r{next(_n)}')
    os.makedirs(os.path.join(rund, 'pri'))
    os.makedirs(os.path.join(rund, 'pub'))
    dbm = WorkflowDatabaseManager(
        os.path.join(rund, 'pri'), os.path.join(rund, 'pub'))
    viol = []
    classes = set()
    model = Model()
    had_restart_nonempty = False
    old_level = LOG.level
    LOG.setLevel(logging.CRITICAL)
    try:
        dbm.on_workflow_start(is_restart=False)
        schd = SimpleNamespace(
            get_run_mode=lambda: RunMode.LIVE, workflow_db_mgr=dbm,
            data_store_mgr=_DataStoreStub(), config=cfg)
        mgr = _new_mgr(schd, cfg)
        itasks = {
            (t, p): SimpleNamespace(
                tokens=Tokens(cycle=p, task=t), tdef=cfg.get_taskdef(t))
            for t in LINEAGE for p in TASK_POINTS}

        for i, step in enumerate(case['steps']):
            op = step[0]
            where = f'step {i} {step!r} of {case["steps"]!r}'
            try:
                if op == 'put':
                    _, pts, nss, settings = step
                    if any(valid_setting(s) and len(list(leaves(s))) > 1
                           for s in settings):
                        classes.add('put-multi-key-dict')
                    if any(std_point(p) is None for p in pts):
                        classes.add('put-bad-point')
                    if any(ns not in NAMESPACES for ns in nss):
                        classes.add('put-bad-namespace')
                    if any(not valid_setting(s) for s in settings):
                        classes.add('put-invalid-setting')
                    mgr.put_broadcast(
                        list(pts), list(nss), copy.deepcopy(settings))
                    model.put(pts, nss, settings)
                elif op == 'clear':
                    _, pts, nss, cancel = step
                    before = model.removed
                    mgr.clear_broadcast(
                        point_strings=copy.deepcopy(pts),
                        namespaces=copy.deepcopy(nss),
                        cancel_settings=copy.deepcopy(cancel))
                    model.clear(pts, nss, cancel)
                    if model.removed > before:
                        classes.add('clear-removes')
                        if cancel:
                            classes.add('clear-by-setting-removes')
                        if nss:
                            classes.add('clear-by-namespace-removes')
                        if pts:
                            classes.add('clear-by-point-removes')
                        if model.b:
                            classes.add('clear-partial')
                elif op == 'expire':
                    before = model.removed
                    mgr.expire_broadcast(step[1])
                    model.expire(step[1])
                    if model.removed > before:
                        classes.add('expire-removes')
                    if any(p != '*' and int(p) >= step[1] for p in model.b):
                        classes.add('expire-keeps-later-point')
                    if any(p != '*' and int(p) == step[1] for p in model.b):
                        classes.add('expire-cutoff-equals-a-point')
                elif op == 'flush':
                    dbm.process_queued_ops()
                elif op == 'restart':
                    dbm.process_queued_ops()
                    pre = prune(mgr.broadcasts)
                    dbm.on_workflow_shutdown()
                    dbm = WorkflowDatabaseManager(
                        os.path.join(rund, 'pri'), os.path.join(rund, 'pub'))
                    dbm.on_workflow_start(is_restart=True)
                    schd.workflow_db_mgr = dbm
                    mgr = _new_mgr(schd, cfg)
                    dbm.pri_dao.select_broadcast_states(
                        mgr.load_db_broadcast_states)
                    mgr.post_load_db_coerce()
                    post = prune(mgr.broadcasts)
                    if pre:
                        classes.add('restart-nonempty')
                        had_restart_nonempty = True
                    if post != pre:
                        if post == prune(model.db):
                            viol.append(Violation(
                                'C22:restart:multi-key-setting-dict-only-'
                                'first-key-persisted',
                                f'broadcast state before restart {pre} != '
                                f'after restart {post} (only the first key '
                                f'of each put settings dict reached the '
                                f'DB); {where}'))
                            # continue the history from the actual state
                            model.b = copy.deepcopy(post)
                        else:
                            viol.append(Violation(
                                'C22:restart:state-differs',
                                f'broadcast state before restart {pre} != '
                                f'after restart {post}; {where}'))
                            break
                else:
                    raise RuntimeError(f'harness: unknown step {step!r}')
            except RuntimeError:
                raise
            except Exception as exc:
                viol.append(Violation(
                    f'C22:{op}:unexpected-exception:' + exc_sig(exc),
                    f'{exc!r} at {where}'))
                break
            if model.precedence_exercised():
                classes.add('same-setting-from-several-sources')
            # ---- state vs model
            got = prune(mgr.broadcasts)
            want = prune(model.b)
            if got != want:
                viol.append(Violation(
                    f'C22:{op}:state-differs',
                    f'broadcasts {got} != model {want} after {where}'))
                break
            # ---- what each task receives
            bad = None
            # points with point-specific broadcasts, plus one without
            chk_points = set(model.b) - {'*'}
            chk_points.add(next(
                (p for p in reversed(TASK_POINTS) if p not in chk_points),
                '4'))
            for (t, p), itask in itasks.items():
                if p not in chk_points:
                    continue
                rt = plain(mgr.get_updated_rtconfig(itask))
                exp = copy.deepcopy(static[t])
                _merge(exp, model.overrides(t, p))
                if rt != exp:
                    diff = {
                        k: (rt.get(k), exp.get(k))
                        for k in set(rt) | set(exp) if rt.get(k) != exp.get(k)}
                    bad = (f'{p}/{t}: runtime config differs (got, expected)'
                           f' {diff}; broadcasts={got}; after {where}')
                    break
            if bad:
                viol.append(Violation('C22:rtconfig:precedence-or-merge', bad))
                break
        # static config must not be modified by broadcasts
        for t in LINEAGE:
            if plain(cfg.get_taskdef(t).rtconfig) != static[t]:
                viol.append(Violation(
                    'C22:static-config-mutated',
                    f'static runtime config of {t} changed; '
                    f'steps={case["steps"]!r}'))
                _cfg_cache.pop(ctx.scratch, None)
                break
    finally:
        LOG.setLevel(old_level)
        try:
            dbm.on_workflow_shutdown()
        except Exception:
            pass
        shutil.rmtree(rund, ignore_errors=True)
    nontrivial = (
        'same-setting-from-several-sources' in classes
        and (had_restart_nonempty or model.removed > 0))
    return CaseResult(viol, nontrivial=nontrivial, classes=sorted(classes))


def run_shard(ctx: Ctx):
    hyp_run(ctx, histories(), check_case, ctx.share(BUDGET[ctx.tier]))
