"""C37 Template variables survive restart unchanged.

value text --load_template_vars--> value --put_workflow_template_vars + real
DAO write--> sqlite --real select + Scheduler._load_template_vars--> value'
Oracle: value' has the identical type and value (recursively, NaN-aware); a
variable given again on the command line at restart wins.
"""
from __future__ import annotations

import itertools
import math
import os
import shutil
from functools import partial
from types import SimpleNamespace

from hypothesis import strategies as st

from vf.core import CaseResult, Ctx, Violation, hyp_run, exc_sig

PROP_ID = 'C37'
LEVEL = 'exploration'
BUDGET = {'quick': 1600, 'thorough': 100000}
RULE = (
    'Hypothesis draws 1-4 "KEY=<python literal text>" pairs from a literal '
    'grammar: ints (decimal, signed, hex/octal/binary, underscores, 30-5000 '
    'digit), floats (repr of arbitrary finite doubles, exponents, -0.0, '
    'denormals, overflow to inf "1e999", underflow), complex (incl. negative '
    'and non-finite parts), strings (repr and double-quoted/raw/triple-quoted/'
    'implicitly concatenated forms over an alphabet with both quotes, '
    'backslash, newline, tab, NUL, surrogate escapes, non-BMP), bytes, None, '
    'True/False, Ellipsis, and lists / tuples (incl. bare "a, b") / dicts / '
    'sets / set() nested to depth 3 with free whitespace and trailing commas; '
    'fed through the real load_template_vars (-s, for a fifth of the '
    'compatible cases via a -S file). At restart 0-2 of the keys (or a new '
    'key) are given again with a different literal. Texts rejected by '
    'load_template_vars (InputError) are out of domain. Non-trivial = at '
    'least one stored value that is not a plain small int / ASCII '
    'identifier-like string; distinct by the (key, text) pairs.')
ASSUMPTIONS = [
    '"Identical value and type" = same Python type recursively and == '
    '(NaN equals NaN); a lost sign of a zero inside a complex number is '
    'counted (class signed-zero-lost), not flagged, since the values are ==.',
    'Restart = a new WorkflowDatabaseManager on the same run directory '
    '(on_workflow_start(is_restart=True)), the real '
    'CylcWorkflowDAO.select_workflow_template_vars and the unbound '
    'Scheduler._load_template_vars called on a stub holding the restart '
    'command line template variables -- the same three calls as '
    'Scheduler.load_workflow_params_and_tmpl_vars.',
    'The scheduler stores the restored variables again at restart '
    '(scheduler.py: put_workflow_template_vars after load); a second restart '
    'must therefore give the values of the first.',
    'Suspicion DESIGN 8 (repr(inf) is not a literal) confirmed: see '
    'known_findings C37:restore-fails:non-finite-float.',
    'Sensitivity (tools/mut.sh, quick): detected: str() instead of repr() '
    'in put_workflow_template_vars, json.loads instead of literal_eval in '
    'eval_var, command-line precedence test removed in '
    'Scheduler._load_template_vars.',
]
MANIFEST = {'engine': 'P', 'technique': 'Hypothesis literal grammar through real DAO write + restart callback'}

_counter = itertools.count()

# ---------------------------------------------------------------------------
# literal grammar (texts)

_STR_ALPHA = st.sampled_from(list(
    'abXY01 _-.,:;=#%$@!?*+/|&~^<>()[]{}') + [
    "'", '"', '\\', '\n', '\t', '\r', '\x00', '\x1b', '\x7f', '\x85', '\xa0',
    'é', 'ß', '日', '４', '\u2028', '\ufeff', '\U0001f600', '\U00010000'])
_TEXT = st.text(alphabet=_STR_ALPHA, max_size=8)


def _dq(s):
    """A double-quoted Python literal for s."""
    out = []
    for ch in s:
        if ch == '"':
            out.append('\\"')
        elif ch == '\\':
            out.append('\\\\')
        elif ch == '\n':
            out.append('\\n')
        elif ch == '\r':
            out.append('\\r')
        elif ch == '\x00':
            out.append('\\0')
        else:
            out.append(ch)
    return '"' + ''.join(out) + '"'


_STRINGS = st.one_of(
    _TEXT.map(repr),
    _TEXT.map(repr),
    _TEXT.map(_dq),
    st.text(alphabet='abc XY_', max_size=6).map(lambda s: f"r'{s}\\d'"),
    _TEXT.map(lambda s: "'''" + s.replace('\\', '\\\\').replace("'", "\\'")
              .replace('\x00', '\\x00').replace('\r', '\\r') + "'''"),
    st.tuples(_TEXT, _TEXT).map(lambda p: f'{p[0]!r} {p[1]!r}'),
    st.sampled_from([
        "'\\udc80'", "'\\ud800\\udc00'", "'\\N{BULLET}'", "'\\x41\\101'",
        "u'uni'", "''", '""', "'\\''", '"\'"', "'\\\\'", "'\\\\\\''",
        "'a\\\nb'", "'{{ jinja }}'", "'{% raw %}'", "'#'", "' lead'",
        "'trail '", "'=' ", "'K=V'", "'None'", "'1'", "'inf'", "'nan'"]),
    # any code point incl. lone surrogates (no st.text(): building the
    # Hypothesis unicode charmap costs ~40 s CPU in every fresh worker)
    st.lists(st.integers(0, 0x10FFFF).map(chr), max_size=5).map(
        lambda cs: repr(''.join(cs))),
)
_BYTES = st.one_of(
    st.binary(max_size=6).map(repr),
    st.sampled_from(["b''", 'b"\\x00\\xff"', "b'\\\\'", "br'\\n'", "b'a' b'b'"]))
_INTS = st.one_of(
    st.integers(-10, 10).map(str),
    st.integers().map(str),
    st.integers(min_value=0).map(hex),
    st.integers(min_value=0).map(oct),
    st.integers(min_value=0).map(bin),
    st.integers(0, 10**12).map(lambda i: f'{i:_}'),
    st.integers(0, 99).map(lambda i: f'+{i}'),
    st.integers(30, 120).flatmap(
        lambda n: st.text(alphabet='0123456789', min_size=n, max_size=n)
    ).map(lambda s: '9' + s),
    st.sampled_from([
        '-0', '00', '0_0', '--1', '-+1', '+-+3', '0x' + 'f' * 40,
        '1' + '0' * 4299, '0x1' + '0' * 3600, '-0x1' + '0' * 3600,
        '0b1' + '0' * 15000, '~1' if False else '1_0', '0o777']),
)
_FLOATS = st.one_of(
    st.floats(allow_nan=False, allow_infinity=False).map(repr),
    st.floats(allow_nan=False, allow_infinity=False, width=32).map(repr),
    st.sampled_from([
        '0.0', '-0.0', '1e999', '-1e999', '1e-999', '-1e-999', '1e308',
        '1.7976931348623157e308', '1.7976931348623159e308', '5e-324',
        '2.2250738585072014e-308', '.5', '5.', '1_0.0_1', '1E5', '1e+5',
        '0.1', '1e22', '1e23', '9007199254740993.0', '+1.5', '--1.5',
        '0.30000000000000004', '1e16', '123456789012345678.0']),
)
_COMPLEX = st.one_of(
    st.sampled_from([
        '1j', '-1j', '0j', '-0j', '1+2j', '1-2j', '-1.5+0j', '(1+2j)',
        '-0.0+0j', '-0.0-0j', '0.0-0j', '1e999j', '-1e999j', '1+1e999j',
        '1e999+1j', '1e999-1e999j', '-1e999+0j', '1.5j', '1e-5j', '3+4J',
        '1_0j', '-(1j)', '+1j', '0-1j', '-0-1j', '2.5e300+2.5e300j']),
    st.tuples(st.floats(allow_nan=False, allow_infinity=False),
              st.floats(allow_nan=False, allow_infinity=False, min_value=0.0)
              ).map(lambda p: f'{p[0]!r}+{p[1]!r}j'),
    st.tuples(st.integers(-5, 5), st.integers(0, 5)).map(
        lambda p: f'{p[0]}-{p[1]}j'),
)
_CONST = st.sampled_from(['None', 'True', 'False'] * 3 + ['...'])

_ATOM_KINDS = [_STRINGS, _STRINGS, _STRINGS, _INTS, _INTS, _FLOATS, _FLOATS,
               _COMPLEX, _BYTES, _CONST]
_ATOM = st.integers(0, len(_ATOM_KINDS) - 1).flatmap(
    lambda i: _ATOM_KINDS[i])
_HASHABLE_ATOM = _ATOM
_WS = st.sampled_from(['', '', '', ' ', '  ', '\n', ' \n ', '\t'])
_SEP = st.sampled_from([', ', ',', ' , ', ',\n', ', '])


@st.composite
def _container(draw, depth):
    inner = _literal(depth - 1) if depth > 1 else _ATOM
    kind = draw(st.integers(0, 6))
    sep = draw(_SEP)
    ws = draw(_WS)
    if kind <= 1:
        items = draw(st.lists(inner, max_size=4))
        tail = ',' if items and draw(st.booleans()) else ''
        return f'[{ws}{sep.join(items)}{tail}{ws}]'
    if kind == 2:
        items = draw(st.lists(inner, max_size=4))
        if len(items) == 1:
            return f'({ws}{items[0]},{ws})'
        tail = ',' if items and draw(st.booleans()) else ''
        return f'({ws}{sep.join(items)}{tail}{ws})'
    if kind <= 4:
        n = draw(st.integers(0, 3))
        pairs = []
        for _ in range(n):
            k = draw(st.one_of(_HASHABLE_ATOM, _tuple_key(depth)))
            v = draw(inner)
            pairs.append(f'{k}{draw(_WS)}:{draw(_WS)}{v}')
        return '{' + ws + sep.join(pairs) + ws + '}'
    if kind == 5:
        items = draw(st.lists(
            st.one_of(_HASHABLE_ATOM, _tuple_key(depth)), max_size=4))
        if not items:
            return draw(st.sampled_from(['set()', 'set( )']))
        return '{' + ws + sep.join(items) + ws + '}'
    # bare tuple (only meaningful at top level; nested it needs parentheses)
    items = draw(st.lists(inner, min_size=2, max_size=3))
    return '(' + sep.join(items) + ')'


def _tuple_key(depth):
    return st.lists(_ATOM, max_size=2).map(
        lambda xs: '(' + ', '.join(xs) + (',' if len(xs) == 1 else '') + ')')


def _literal(depth):
    if depth <= 0:
        return _ATOM
    # NB one_of() flattens nested one_of()s, which would make containers a
    # 1-in-19 choice: choose the branch explicitly
    cont = _container(depth)
    return st.integers(0, 4).flatmap(lambda i: cont if i < 2 else _ATOM)


@st.composite
def _top(draw):
    k = draw(st.integers(0, 11))
    if k == 0:
        # bare tuple at top level
        items = draw(st.lists(_literal(1), min_size=2, max_size=3))
        return ', '.join(items)
    if k == 1:
        return draw(_ATOM) + ','
    pad = draw(st.sampled_from(['', '', '', ' ', '  ', '\t']))
    return pad + draw(_literal(3)) + pad


_KEYS = st.sampled_from(['K', 'FOO', 'a_b', 'x1', 'KEY2', 'Élan', 'k k', 'k.1',
                         'CYLC_X', 'lower', 'K-1'])


@st.composite
def cases(draw):
    n = draw(st.integers(1, 4))
    keys = draw(st.lists(_KEYS, min_size=n, max_size=n, unique=True))
    start = [[k, draw(_top())] for k in keys]
    ncli = draw(st.sampled_from([0, 0, 1, 1, 2]))
    cli = []
    for _ in range(ncli):
        k = draw(st.one_of(st.sampled_from(keys), st.sampled_from(keys), _KEYS))
        if k not in [c[0] for c in cli]:
            cli.append([k, draw(_top())])
    return {'start': start, 'cli': cli,
            'via_file': draw(st.integers(0, 4)) == 0}


# ---------------------------------------------------------------------------
# oracle helpers

def same(a, b):
    """Identical type and value, recursively; NaN-aware."""
    if type(a) is not type(b):
        return False
    if isinstance(a, float):
        return a == b or (math.isnan(a) and math.isnan(b))
    if isinstance(a, complex):
        return same(a.real, b.real) and same(a.imag, b.imag)
    if isinstance(a, (list, tuple)):
        return len(a) == len(b) and all(same(x, y) for x, y in zip(a, b))
    if isinstance(a, dict):
        if len(a) != len(b):
            return False
        bkeys = list(b)
        for k, v in a.items():
            m = [bk for bk in bkeys if same(k, bk)]
            if not m or not same(v, b[m[0]]):
                return False
        return True
    if isinstance(a, (set, frozenset)):
        if len(a) != len(b):
            return False
        bl = list(b)
        return all(any(same(x, y) for y in bl) for x in a)
    return a == b


def srepr(v, limit=300):
    """repr that cannot fail (huge ints) and is bounded."""
    try:
        r = repr(v)
    except ValueError:
        r = f'<{type(v).__name__} whose repr() raises (huge int inside)>'
    return r if len(r) <= limit else r[:limit] + '...'


def _huge_int(v):
    return any(
        isinstance(x, int) and not isinstance(x, bool)
        and abs(x) >= 10 ** 4300 for x in walk(v))


def walk(v):
    yield v
    if isinstance(v, (list, tuple, set, frozenset)):
        for x in v:
            yield from walk(x)
    elif isinstance(v, dict):
        for k, x in v.items():
            yield from walk(k)
            yield from walk(x)


def _nonfinite(v):
    for x in walk(v):
        if isinstance(x, float) and not math.isfinite(x):
            return True
        if isinstance(x, complex) and not (
                math.isfinite(x.real) and math.isfinite(x.imag)):
            return True
    return False


def _has_ellipsis(v):
    return any(x is Ellipsis for x in walk(v))


def _zero_signs(v):
    out = []
    for x in walk(v):
        if isinstance(x, float) and x == 0:
            out.append(math.copysign(1, x))
        elif isinstance(x, complex):
            out.append((math.copysign(1, x.real) if x.real == 0 else 0,
                        math.copysign(1, x.imag) if x.imag == 0 else 0))
    return out


def _kinds(v):
    out = set()
    for x in walk(v):
        t = type(x).__name__
        out.add('value:' + t)
        if isinstance(x, str) and (
                "'" in x or '"' in x or '\\' in x or '\n' in x):
            out.add('value:str-with-quote-backslash-newline')
        if isinstance(x, str) and any(ord(c) > 127 for c in x):
            out.add('value:str-non-ascii')
        if isinstance(x, int) and not isinstance(x, bool) and abs(x) > 2**64:
            out.add('value:big-int')
        if isinstance(x, float) and x == 0 and math.copysign(1, x) < 0:
            out.add('value:negative-zero')
    if _nonfinite(v):
        out.add('value:non-finite')
    if isinstance(v, (list, tuple, dict, set)) and any(
            isinstance(x, (list, tuple, dict, set)) for x in list(walk(v))[1:]):
        out.add('value:nested-container')
    return out


def _plain(v):
    return (isinstance(v, int) and not isinstance(v, bool) and abs(v) < 1000
            ) or (isinstance(v, str) and v.isascii() and v.isidentifier())


# ---------------------------------------------------------------------------

def _load(pairs, via_file, d):
    """The real CLI entry: -s KEY=VALUE (or -S file)."""
    from cylc.flow.templatevars import load_template_vars
    if via_file:
        path = os.path.join(d, 'tvars.txt')
        with open(path, 'w') as f:
            for k, t in pairs:
                f.write(f'{k} = {t}\n')
        return load_template_vars(template_vars_file=path)
    return load_template_vars(template_vars=[f'{k}={t}' for k, t in pairs])


def check_case(case, ctx: Ctx) -> CaseResult:
    from cylc.flow.exceptions import InputError
    from cylc.flow.scheduler import Scheduler
    from cylc.flow.workflow_db_mgr import WorkflowDatabaseManager
    classes = []
    viol = []
    d = os.path.join(ctx.scratch, 'c37', f'r{next(_counter)}')
    pri_d = os.path.join(d, '.service')
    pub_d = os.path.join(d, 'log')
    os.makedirs(pri_d)
    os.makedirs(pub_d)
    mgrs = []
    try:
        via_file = bool(case.get('via_file')) and not any(
            '#' in t or '\n' in t or '\r' in t or '#' in k
            for k, t in case['start'])
        if via_file:
            classes.append('via-file')
        # ---- first start: what the user gave is what the parser accepts
        try:
            tvars = _load(case['start'], via_file, d)
            cli = _load(case['cli'], False, d) if case['cli'] else {}
        except InputError:
            ctx.col.rejected += 1
            return CaseResult([], classes=['rejected'])
        except Exception as exc:
            ctx.col.rejected += 1
            sig = exc_sig(exc, 'templatevars')
            ex = ctx.col.extra.setdefault('load_crash', {})
            ex[sig] = ex.get(sig, 0) + 1
            return CaseResult([], classes=['rejected', 'load-crash'])
        if set(tvars) != {k.strip() for k, _ in case['start']}:
            # duplicate keys after stripping etc. -- keep the oracle simple
            ctx.col.rejected += 1
            return CaseResult([], classes=['rejected'])
        classes.append('accepted')
        for v in tvars.values():
            classes.extend(sorted(_kinds(v)))
        classes = sorted(set(classes))
        if cli:
            classes.append('cli-at-restart')
            if set(cli) & set(tvars):
                classes.append('cli-overrides-stored-key')
        nontrivial = any(not _plain(v) for v in tvars.values())

        # ---- first run: store
        mgr = WorkflowDatabaseManager(pri_d, pub_d)
        mgrs.append(mgr)
        mgr.on_workflow_start(is_restart=False)
        try:
            mgr.put_workflow_template_vars(tvars)
            mgr.process_queued_ops()
        except Exception as exc:
            big = any(_huge_int(v) for v in tvars.values())
            sig = ('C37:cannot-store:int-exceeds-str-digits-limit'
                   if big and isinstance(exc, ValueError)
                   and 'digits' in str(exc)
                   else 'C37:cannot-store:' + exc_sig(exc))
            viol.append(Violation(
                sig, f'{srepr(case["start"])} accepted by load_template_vars '
                f'but storing it raises {exc!r}'[:600]))
            return CaseResult(viol, nontrivial=nontrivial, classes=classes,
                              distinct_key=case['start'])
        mgr.on_workflow_shutdown()

        # ---- restart 1 (with command line vars), restart 2 (without)
        expect = dict(tvars)
        expect.update(cli)
        for nrestart, cli_now in ((1, cli), (2, {})):
            mgr = WorkflowDatabaseManager(pri_d, pub_d)
            mgrs.append(mgr)
            mgr.on_workflow_start(is_restart=True)
            stub = SimpleNamespace(template_vars=dict(cli_now))
            callback = partial(Scheduler._load_template_vars, stub)
            failed = None
            try:
                with mgr.get_pri_dao() as dao:
                    dao.select_workflow_template_vars(callback)
            except Exception as exc:
                failed = exc
            if failed is not None:
                # attribute per stored row
                rows = []
                with mgr.get_pri_dao() as dao:
                    dao.select_workflow_template_vars(
                        lambda i, row: rows.append(row))
                stub = SimpleNamespace(template_vars=dict(cli_now))
                for i, row in enumerate(rows):
                    try:
                        Scheduler._load_template_vars(stub, i, list(row))
                    except Exception as exc:
                        orig = expect.get(row[0])
                        sigs = []
                        if _nonfinite(orig):
                            sigs.append('C37:restore-fails:non-finite-float')
                        if _has_ellipsis(orig):
                            sigs.append('C37:restore-fails:ellipsis')
                        if not sigs:
                            sigs.append('C37:restore-fails:' + exc_sig(exc))
                        for sig in sigs:
                            viol.append(Violation(
                                sig,
                                f'restart {nrestart}: {row[0]}={srepr(orig)} '
                                f'was stored as {srepr(row[1])} which cannot '
                                f'be restored: {type(exc).__name__}: '
                                f'{str(exc)[:200]}'))
                        # what a restart would have: nothing for this key
                        expect.pop(row[0], None)
            got = stub.template_vars
            for k, want in expect.items():
                if k not in got:
                    viol.append(Violation(
                        'C37:variable-missing-after-restart',
                        f'restart {nrestart}: {k} (={srepr(want)}) not restored; '
                        f'have {sorted(got)}'))
                elif not same(want, got[k]):
                    is_cli = k in cli_now
                    viol.append(Violation(
                        'C37:cli-value-does-not-win' if is_cli
                        else 'C37:value-changed-by-restart',
                        f'restart {nrestart}: {k} was {srepr(want)} '
                        f'({type(want).__name__}), restored as {srepr(got[k])} '
                        f'({type(got[k]).__name__})'
                        + (f'; command line gave {srepr(cli_now[k])}'
                           if is_cli else '')))
                elif _zero_signs(want) != _zero_signs(got[k]):
                    classes.append('signed-zero-lost')
            for k in got:
                if k not in expect and not any(
                        v.sig.startswith('C37:restore-fails') for v in viol):
                    viol.append(Violation(
                        'C37:unexpected-variable-after-restart',
                        f'restart {nrestart}: {k}={srepr(got[k])} appeared'))
            if viol:
                break
            # the scheduler stores the (merged) variables again at restart
            try:
                mgr.put_workflow_template_vars(got)
                mgr.process_queued_ops()
            except Exception as exc:
                big = any(_huge_int(v) for v in got.values())
                viol.append(Violation(
                    'C37:cannot-store:int-exceeds-str-digits-limit'
                    if big and isinstance(exc, ValueError)
                    and 'digits' in str(exc)
                    else 'C37:cannot-store:' + exc_sig(exc),
                    f'restart {nrestart}: re-storing {srepr(got)} raises '
                    f'{exc!r}'[:500]))
                break
            mgr.on_workflow_shutdown()
        return CaseResult(viol, nontrivial=nontrivial, classes=classes,
                          distinct_key=[case['start'], case['cli']])
    finally:
        for m in mgrs:
            try:
                m.on_workflow_shutdown()
            except Exception:
                pass
        shutil.rmtree(d, ignore_errors=True)


def run_shard(ctx: Ctx):
    hyp_run(ctx, cases(), check_case, ctx.share(BUDGET[ctx.tier]))
