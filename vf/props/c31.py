"""C31 Sequential tasks never overlap and run in cycle order."""
from __future__ import annotations

from hypothesis import strategies as st

from vf.core import CaseResult, Ctx, Violation, hyp_run
from vf.gen.wfspec import render_flow, wfspecs
from vf.sim.drive import SCase, outcome_maps, run_async, schedules

PROP_ID = 'C31'
LEVEL = 'exploration'
BUDGET = {'quick': 450, 'thorough': 12000}
MANIFEST = {
    'engine': 'S',
    'technique': 'PBT on the stepped scheduler: overlap and predecessor '
                 'oracle on every status change / launch of sequential tasks',
}
RULE = (
    'Generated workflow where 1-2 tasks are declared sequential (special '
    'tasks; in 2 of 3 cases wholly or partly through family names: 2-4 '
    'runtime families, root or nested, 1-2 of them named in the sequential '
    'list, each sequential task inheriting such a family or a sub-family of '
    'it at any position of a 1-3 long parent list, or named directly; other '
    'tasks inherit only families without a declared ancestor) '
    'and live on one or more recurrences with different steps, '
    'offsets and exclusions, runahead limit P0-P4, random outcomes (also '
    'failures of sequential instances), schedules with slow jobs (delayed '
    'messages and command returns).  Oracle from the monitored status '
    'changes: at no time are two instances of one sequential task in '
    '{preparing, submitted, running}; when an instance (t, p) enters job '
    'preparation, the previous model instance of t (largest model point < '
    'p) has been recorded succeeded by the scheduler, unless there is none '
    'at/after the initial point.  Non-trivial = a sequential task had >= 2 '
    'instances launched and lives on >= 2 sections or has an exclusion or '
    'step > 1; distinct by the case.')
ASSUMPTIONS = [
    'No manual intervention (manual triggers are outside the statement).',
    'Declared sequential = named in [special tasks] sequential, or a member '
    '(descendant through any parent, first or later, directly or via '
    'sub-families) of a family named there ("Family names can be used in '
    'special task lists as shorthand for listing all member tasks"); the '
    'oracle uses the harness\'s own list of these tasks, never cylc\'s '
    'parsed configuration.',
    'The [runtime] inheritance text is written by this module and appended '
    'to the rendered flow (repeated sections merge).',
]

ACTIVE = ('preparing', 'submitted', 'running')


@st.composite
def cases(draw):
    spec = draw(wfspecs({'max_tasks': 4, 'max_fcp': 6, 'abs': False,
                         'future': False}))
    k = draw(st.integers(1, min(2, len(spec['tasks']))))
    # prefer tasks living on several recurrences and having other parents
    # (there the choice of "previous instance" matters)
    nsec = {t: sum(1 for sec in spec['sections']
                   if any(t in ln['rhs'] for ln in sec['lines']))
            for t in spec['tasks']}
    multi = [t for t in spec['tasks'] if nsec[t] >= 2]
    pool = multi if multi and draw(st.integers(0, 3)) else spec['tasks']
    k = min(k, len(pool))
    seq = draw(st.lists(st.sampled_from(pool), min_size=k,
                        max_size=k, unique=True))
    decl, fam_parent, inherit = list(seq), {}, {}
    if draw(st.integers(0, 2)):
        decl, fam_parent, inherit = draw(family_declaration(spec, seq))
    # the renderer writes the declared names (tasks / families) verbatim;
    # the oracle only uses `seq_tasks`
    spec['extra']['sequential'] = decl
    spec['extra']['runahead'] = 'P%d' % draw(st.integers(0, 4))
    outcomes = draw(outcome_maps(spec))
    sched = draw(schedules(40, ops=('loop', 'loop', 'ret', 'adv', 'del')))
    delays = draw(st.lists(st.sampled_from([0, 0, 1, 2, 4, 8]),
                           min_size=1, max_size=8))
    ret_delays = draw(st.lists(st.sampled_from([0, 0, 1, 3]),
                               min_size=1, max_size=5))
    return {'spec': spec, 'outcomes': outcomes, 'schedule': sched,
            'delays': delays, 'ret_delays': ret_delays,
            'seq_tasks': sorted(seq), 'fam_parent': fam_parent,
            'inherit': inherit}


FAMILIES = ['FA', 'FB', 'FC', 'FD']


def fam_ancestors(fam_parent, f):
    out = []
    while f is not None:
        out.append(f)
        f = fam_parent.get(f)
    return out


@st.composite
def family_declaration(draw, spec, seq):
    """Declare the sequential set `seq` wholly or partly through family
    names.  2-4 families, each a root family or the child of an earlier one;
    1-2 of them (none an ancestor of another) are named in the `sequential`
    list; every task of `seq` inherits a declared family or a descendant of
    one - at any position of a 1-3 long parent list - or is named directly;
    every other task inherits 0-2 families with no declared ancestor.
    Returns (names to put in the sequential list, {family: parent family or
    None}, {task: [parents in order]})."""
    nf = draw(st.integers(2, len(FAMILIES)))
    fams = FAMILIES[:nf]
    fam_parent = {}
    for i, f in enumerate(fams):
        fam_parent[f] = (draw(st.sampled_from(fams[:i]))
                         if i and draw(st.booleans()) else None)
    anc = {f: fam_ancestors(fam_parent, f) for f in fams}
    with_kids = [f for f in fams if f in fam_parent.values()]
    declared = [draw(st.sampled_from(
        with_kids if with_kids and draw(st.booleans()) else fams))]
    more = [f for f in fams if declared[0] not in anc[f]
            and f not in anc[declared[0]]]
    if more and draw(st.booleans()):
        declared.append(draw(st.sampled_from(more)))
    seq_fams = [f for f in fams if set(anc[f]) & set(declared)]
    plain_fams = [f for f in fams if f not in seq_fams]

    def compatible(chosen, f):
        # C3 linearisation: never a family together with its own ancestor
        return all(f not in anc[g] and g not in anc[f] for g in chosen)

    inherit, direct = {}, []
    for t in spec['tasks']:
        parents = []
        if t in seq:
            if draw(st.integers(0, 3)) == 0:
                direct.append(t)
            else:
                sub = [f for f in seq_fams if f not in declared]
                parents.append(draw(st.sampled_from(
                    sub if sub and draw(st.booleans()) else seq_fams)))
        pool = plain_fams if (t not in seq or t in direct) else fams
        for _ in range(draw(st.integers(0, 2))):
            cands = [f for f in pool if f not in parents
                     and compatible(parents, f)]
            if cands:
                f = draw(st.sampled_from(cands))
                # before (more often) or after the parents chosen so far
                parents.insert(0 if draw(st.booleans()) else
                               draw(st.integers(0, len(parents))), f)
        if parents:
            inherit[t] = parents
    return direct + declared, fam_parent, inherit


def render_families(case) -> str:
    """[runtime] text appended to the rendered flow (repeated sections
    merge)."""
    L = []
    for f, par in case.get('fam_parent', {}).items():
        L += [f'    [[{f}]]']
        if par:
            L += [f'        inherit = {par}']
    for t, parents in case.get('inherit', {}).items():
        L += [f'    [[{t}]]', '        inherit = ' + ', '.join(parents)]
    return '\n'.join(L) + '\n' if L else ''


def check_case(case, ctx: Ctx) -> CaseResult:
    return run_async(_check(case, ctx))


async def _check(case, ctx: Ctx) -> CaseResult:
    spec = case['spec']
    flow = render_flow(spec) + render_families(case)
    async with SCase(case, ctx, flow_text=flow) as sc:
        if sc.rejected:
            return CaseResult(sc.crash_violations('C31'), False,
                              ['rejected:' + sc.rejected])
        sim, to_int, model = sc.sim, sc.drv.to_int, sc.model
        await sc.run_schedule()
        await sc.drain()
        viol = sc.crash_violations('C31')
        seq = [t for t in case['seq_tasks'] if model.valid[t]]
        active = {t: set() for t in seq}
        succeeded = set()
        launched = {t: 0 for t in seq}
        for ev in sim.trace:
            if ev['k'] != 'state' or ev['name'] not in active:
                continue
            t, cyc = ev['name'], ev['cycle']
            p = to_int.get(cyc)
            old, new = ev['before'][0], ev['after'][0]
            if new == 'succeeded':
                succeeded.add((t, p))
            if new in ACTIVE:
                if old not in ACTIVE:
                    launched[t] += 1
                    others = active[t] - {p}
                    if others:
                        viol.append(Violation(
                            'C31:sequential-instances-overlap',
                            f'{cyc}/{t} became {new} while instance(s) at '
                            f'point(s) {sorted(others)} of the same '
                            f'sequential task are active'))
                    prev = [q for q in model.valid[t] if q < p]
                    if prev and (t, max(prev)) not in succeeded:
                        viol.append(Violation(
                            'C31:submitted-before-previous-succeeded',
                            f'{cyc}/{t} entered job preparation but the '
                            f'previous instance at point {max(prev)} has '
                            f'not succeeded (model points '
                            f'{sorted(model.valid[t])})'))
                active[t].add(p)
            else:
                active[t].discard(p)
        classes = set()
        rich = False
        for t in seq:
            pts = sorted(model.valid[t])
            steps = {b - a for a, b in zip(pts, pts[1:])}
            nsec = sum(1 for sec in spec['sections']
                       if any(t in ln['rhs'] for ln in sec['lines']))
            if launched[t] >= 2:
                classes.add('two-instances-ran')
                if nsec >= 2 or steps - {1}:
                    rich = True
        if rich:
            classes.add('irregular-sequence')
        classes |= declaration_classes(case, set(seq), launched)
        uniq = {}
        for v in viol:
            uniq.setdefault(v.sig, v)
        return CaseResult(list(uniq.values()), rich, sorted(classes),
                          inconclusive=sc.inconclusive,
                          info={'flow': sc.drv.flow_text})


def declaration_classes(case, seq, launched):
    """How the sequential tasks (those with model instances) were
    declared; `:ran2` = such a task had >= 2 instances launched."""
    out = set()
    fam_parent, inherit = case['fam_parent'], case['inherit']
    decl = case['spec']['extra']['sequential']
    for t in seq:
        ran2 = launched[t] >= 2
        kinds = []
        if t in decl:
            kinds.append('named-directly')
        for i, f in enumerate(inherit.get(t, [])):
            anc = fam_ancestors(fam_parent, f)
            hit = [a for a in anc if a in decl]
            if not hit:
                continue
            kinds.append('via-family')
            kinds.append('via-family:first-parent' if i == 0
                         else 'via-family:later-parent')
            if hit[0] != f:
                kinds.append('via-family:nested')
        if len(inherit.get(t, [])) > 1:
            kinds.append('multiple-inheritance')
        for k in kinds:
            out.add('declared:' + k)
            if ran2:
                out.add('declared:' + k + ':ran2')
    return out


def run_shard(ctx: Ctx):
    hyp_run(ctx, cases(), check_case, ctx.share(BUDGET[ctx.tier]))
