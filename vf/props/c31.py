"""C31 Sequential tasks never overlap and run in cycle order."""
from __future__ import annotations

from hypothesis import strategies as st

from vf.core import CaseResult, Ctx, Violation, hyp_run
from vf.gen.wfspec import wfspecs
from vf.sim.drive import SCase, outcome_maps, run_async, schedules

PROP_ID = 'C31'
LEVEL = 'exploration'
BUDGET = {'quick': 450, 'thorough': 12000}
MANIFEST = {
    'engine': 'S',
    'technique': 'PBT on the stepped scheduler: overlap and predecessor '
                 'oracle on every status change / launch of sequential tasks',
}
RULE = (
    'Generated workflow where 1-2 tasks are declared sequential (special '
    'tasks) and live on one or more recurrences with different steps, '
    'offsets and exclusions, runahead limit P0-P4, random outcomes (also '
    'failures of sequential instances), schedules with slow jobs (delayed '
    'messages and command returns).  Oracle from the monitored status '
    'changes: at no time are two instances of one sequential task in '
    '{preparing, submitted, running}; when an instance (t, p) enters job '
    'preparation, the previous model instance of t (largest model point < '
    'p) has been recorded succeeded by the scheduler, unless there is none '
    'at/after the initial point.  Non-trivial = a sequential task had >= 2 '
    'instances launched and lives on >= 2 sections or has an exclusion or '
    'step > 1; distinct by the case.')
ASSUMPTIONS = [
    'No manual intervention (manual triggers are outside the statement).',
]

ACTIVE = ('preparing', 'submitted', 'running')


@st.composite
def cases(draw):
    spec = draw(wfspecs({'max_tasks': 4, 'max_fcp': 6, 'abs': False,
                         'future': False}))
    k = draw(st.integers(1, min(2, len(spec['tasks']))))
    # prefer tasks living on several recurrences and having other parents
    # (there the choice of "previous instance" matters)
    nsec = {t: sum(1 for sec in spec['sections']
                   if any(t in ln['rhs'] for ln in sec['lines']))
            for t in spec['tasks']}
    multi = [t for t in spec['tasks'] if nsec[t] >= 2]
    pool = multi if multi and draw(st.integers(0, 3)) else spec['tasks']
    k = min(k, len(pool))
    seq = draw(st.lists(st.sampled_from(pool), min_size=k,
                        max_size=k, unique=True))
    spec['extra']['sequential'] = seq
    spec['extra']['runahead'] = 'P%d' % draw(st.integers(0, 4))
    outcomes = draw(outcome_maps(spec))
    sched = draw(schedules(40, ops=('loop', 'loop', 'ret', 'adv', 'del')))
    delays = draw(st.lists(st.sampled_from([0, 0, 1, 2, 4, 8]),
                           min_size=1, max_size=8))
    ret_delays = draw(st.lists(st.sampled_from([0, 0, 1, 3]),
                               min_size=1, max_size=5))
    return {'spec': spec, 'outcomes': outcomes, 'schedule': sched,
            'delays': delays, 'ret_delays': ret_delays}


def check_case(case, ctx: Ctx) -> CaseResult:
    return run_async(_check(case, ctx))


async def _check(case, ctx: Ctx) -> CaseResult:
    spec = case['spec']
    async with SCase(case, ctx) as sc:
        if sc.rejected:
            return CaseResult(sc.crash_violations('C31'), False,
                              ['rejected:' + sc.rejected])
        sim, to_int, model = sc.sim, sc.drv.to_int, sc.model
        await sc.run_schedule()
        await sc.drain()
        viol = sc.crash_violations('C31')
        seq = [t for t in spec['extra']['sequential'] if model.valid[t]]
        active = {t: set() for t in seq}
        succeeded = set()
        launched = {t: 0 for t in seq}
        for ev in sim.trace:
            if ev['k'] != 'state' or ev['name'] not in active:
                continue
            t, cyc = ev['name'], ev['cycle']
            p = to_int.get(cyc)
            old, new = ev['before'][0], ev['after'][0]
            if new == 'succeeded':
                succeeded.add((t, p))
            if new in ACTIVE:
                if old not in ACTIVE:
                    launched[t] += 1
                    others = active[t] - {p}
                    if others:
                        viol.append(Violation(
                            'C31:sequential-instances-overlap',
                            f'{cyc}/{t} became {new} while instance(s) at '
                            f'point(s) {sorted(others)} of the same '
                            f'sequential task are active'))
                    prev = [q for q in model.valid[t] if q < p]
                    if prev and (t, max(prev)) not in succeeded:
                        viol.append(Violation(
                            'C31:submitted-before-previous-succeeded',
                            f'{cyc}/{t} entered job preparation but the '
                            f'previous instance at point {max(prev)} has '
                            f'not succeeded (model points '
                            f'{sorted(model.valid[t])})'))
                active[t].add(p)
            else:
                active[t].discard(p)
        classes = set()
        rich = False
        for t in seq:
            pts = sorted(model.valid[t])
            steps = {b - a for a, b in zip(pts, pts[1:])}
            nsec = sum(1 for sec in spec['sections']
                       if any(t in ln['rhs'] for ln in sec['lines']))
            if launched[t] >= 2:
                classes.add('two-instances-ran')
                if nsec >= 2 or steps - {1}:
                    rich = True
        if rich:
            classes.add('irregular-sequence')
        uniq = {}
        for v in viol:
            uniq.setdefault(v.sig, v)
        return CaseResult(list(uniq.values()), rich, sorted(classes),
                          inconclusive=sc.inconclusive,
                          info={'flow': sc.drv.flow_text})


def run_shard(ctx: Ctx):
    hyp_run(ctx, cases(), check_case, ctx.share(BUDGET[ctx.tier]))
