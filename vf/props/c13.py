"""C13 Prerequisite satisfaction equals the trigger expression's truth.

Real path per case: flow.cylc text -> GraphParser -> WorkflowConfig
(generate_triggers / listify) -> TaskDef.dependencies -> a real
TaskProxy at the evaluation point (TaskState._add_prerequisites ->
Dependency.get_prerequisite -> Prerequisite.set_conditional_expr) ->
TaskProxy.satisfy_me(Tokens...) -> TaskState.prerequisites_all_satisfied().

Oracle: the harness's own evaluation of the generated expression *tree*
over the set of satisfied upstream outputs; atoms before the initial cycle
point are true.
"""
from __future__ import annotations

import re
from datetime import datetime, timedelta

from hypothesis import strategies as st

from vf.core import CaseResult, Ctx, Violation, hyp_run, exc_sig

PROP_ID = 'C13'
LEVEL = 'exploration'
BUDGET = {'quick': 3000, 'thorough': 80000}
MANIFEST = {
    'engine': 'P',
    'technique': 'Hypothesis trigger trees through real config/TaskProxy, '
                 'all satisfaction subsets + ordered walk with un-satisfy',
}
RULE = (
    'Hypothesis draws: cycling mode (integer; datetime with cycle point time '
    'zone Z/+0530/-0800/+1245, optionally 2 expanded year digits), 2-4 '
    'upstream task names from a collision family (prefix/suffix/substring '
    'names; names with - + % @), 0-2 custom outputs per task with messages '
    'from classes plain / inner punctuation (. , ( ) | & \') / non-word last '
    'character / double quote or backslash / word-prefix of another message, a '
    'trigger tree of 2-6 atoms (& | parentheses, depth <= 3) whose atoms have '
    'an offset in {0,-1,-2,+1,-4} cycle steps (integer cycling also +10, so '
    'that points such as 1 and 11 meet) or, for 1 atom in 6, an absolute '
    'point (initial point + 0..3 steps, written canonically, as [^]/[^+Pn], '
    'without minutes, in extended format, or as the same instant in UTC), a standard (incl. finish) or '
    'custom output and an independently drawn spelling (implicit / :succeed / '
    ':succeeded ...), the same atom possibly twice; evaluation point = initial '
    'point + 0..3 steps (offsets reaching before the initial point are '
    'pre-initial; at integer point 1 they are negative). Each case: one real '
    'WorkflowConfig load; prerequisite keys compared with the expected '
    '(point, task, message) set; then ALL 2^n subsets of the n non-pre-initial '
    'outputs (n <= 6; otherwise singletons, co-singletons and 48 derived '
    'masks) each satisfied on a fresh TaskProxy, plus one walk satisfying the '
    'outputs one at a time in a drawn order with is_satisfied queried twice '
    'after every step, then un-satisfying per upstream task instance '
    '(unset_naturally_satisfied) and re-satisfying. Unparenthesised &/| mixes '
    'are never generated. Non-trivial: the tree contains | and either two '
    'atoms whose task names or "point/task message" ids are substrings of one '
    'another or a custom message with a punctuation character. Distinct by '
    'the case.')
ASSUMPTIONS = [
    '"The task\'s prerequisite is satisfied" = all non-suicide Prerequisite '
    'objects of the TaskProxy are satisfied (a top-level & chain is split '
    'into several Prerequisite objects by the graph parser).',
    'A configuration rejected with a CylcError/ParsecError while loading is '
    'out of domain (counted); an exception while building the TaskProxy or '
    'evaluating is_satisfied() on an accepted configuration is a violation.',
    'Upstream point strings are computed by the harness (integer arithmetic; '
    'Python datetime + the configured time zone suffix), not by cylc.',
    'Truth of unparenthesised mixes of & and | is not asserted (never '
    'generated). All tasks share one sequence (P1 / PT6H from the initial '
    'point), start point = initial point.',
    'Custom output messages are any text TaskMessageValidator accepts.',
]

SHORT = {'succeeded': 'succeed', 'failed': 'fail', 'started': 'start',
         'submitted': 'submit', 'submit-failed': 'submit-fail',
         'expired': 'expire', 'finished': 'finish'}
STD = ['succeeded', 'failed', 'started', 'submitted', 'submit-failed',
       'expired', 'finished']

FAMILIES = [
    # (weight, names)
    (4, ['foo', 'fo', 'oo', 'foo1', '1foo', 'afoo', 'foo_a']),
    (3, ['a', 'aa', 'a1', '_a', 'a_a', 'b', 'ab']),
    (2, ['t', 'tg', 'tgt1', 'xtgt', 'gt']),
    (2, ['bool', 'self', 'or', 'and', 'x', '_satisfied']),
    (2, ['a', 'a-x', 'x-a', 'a-x-a', 'x']),
    (1, ['foo', 'foo+', 'foo%', 'foo@1', 'foo-', 'o+o']),
]
CUSTOM_NAMES = ['x', 'y', 'xy', 'x1', 'out-1', 'fail-safe', 'failover',
                'started_ok', 'submit-ok']
MSG = {
    'plain': ['{n}', 'ready', 'data ready', 'file {n} done'],
    'inner': ['file a.b, (v2) ok', 'a|b', 'p & q', "it's done",
              '(x) | (y) & z', 'r/s 1'],
    'edge': ['data ready!', 'done.', '(all done)', 'ready?', 'x)'],
    'quote': ['a "quoted" msg', 'dir\\new', 'say "hi'],
}
TZS = ['Z', '+0530', '-0800', '+1245']
ICPS = ['20200101T0000', '20191231T1800', '20200229T1200']
OFFS = [0, 0, 0, 0, -1, -1, -2, 1, -4]


# -- generator ---------------------------------------------------------------

@st.composite
def cases(draw):
    mode = draw(st.sampled_from(['int', 'int', 'int', 'dt', 'dt']))
    case = {'mode': mode, 'k': draw(st.sampled_from([0, 0, 1, 1, 2, 3]))}
    if mode == 'dt':
        case['tz'] = draw(st.sampled_from(TZS))
        case['xy'] = draw(st.integers(0, 7)) == 0
        if case['xy']:
            case['tz'] = 'Z'
        case['icp'] = draw(st.integers(0, len(ICPS) - 1))
    else:
        case['icp'] = draw(st.sampled_from([1, 1, 2, 10]))
    fam = draw(st.sampled_from(
        [names for w, names in FAMILIES for _ in range(w)]))
    names = draw(st.lists(st.sampled_from(fam), min_size=2, max_size=4,
                          unique=True))
    customs = {}
    for n in names:
        k = draw(st.sampled_from([0, 0, 1, 1, 2]))
        onames = draw(st.lists(st.sampled_from(CUSTOM_NAMES), min_size=k,
                               max_size=k, unique=True))
        outs = []
        for on in onames:
            cls = draw(st.sampled_from(
                ['plain', 'plain', 'plain', 'inner', 'inner', 'inner',
                 'edge', 'quote', 'prefix']))
            if cls == 'prefix' and outs:
                msg = outs[0][1] + draw(st.sampled_from([' now', ' 2', '.x']))
            elif cls == 'prefix':
                msg = draw(st.sampled_from(
                    ['succeeded twice', 'started ok', 'failed (soft)']))
            else:
                msg = draw(st.sampled_from(MSG[cls])).format(n=on)
            if msg in [m for _, m in outs]:
                msg += ' b'
            outs.append([on, msg])
        if outs:
            customs[n] = outs
    case['customs'] = customs
    case['opt'] = draw(st.integers(0, 4)) > 0
    failset = [n for n in names if draw(st.integers(0, 3)) == 0]
    case['failset'] = failset

    def atom():
        t = draw(st.sampled_from(names))
        off = draw(st.sampled_from(
            OFFS + [10] if mode == 'int' else OFFS))
        pool = ['succeeded'] * 4 + STD + [o for o, _ in customs.get(t, [])] * 3
        out = draw(st.sampled_from(pool))
        if not case['opt']:
            out = {'expired': 'started', 'submit-failed': 'submitted',
                   'finished': 'succeeded'}.get(out, out)
            if t in failset and out == 'succeeded':
                out = 'failed'
            elif t not in failset and out == 'failed':
                out = 'succeeded'
        sp = draw(st.integers(0, 2))
        a = {'t': t, 'k': off, 'o': out, 's': sp}
        if draw(st.integers(0, 5)) == 0:
            # absolute trigger point (initial point + 0..3 steps), written
            # in a drawn spelling: canonical / initial-point relative /
            # short / extended / the same instant in another time zone
            a['abs'] = draw(st.integers(0, 3))
            a['abs_sp'] = draw(st.integers(0, 4))
        return a

    natoms = draw(st.integers(2, 6))
    atoms = []
    for _ in range(natoms):
        if atoms and draw(st.integers(0, 5)) == 0:
            a = dict(draw(st.sampled_from(atoms)))
            a['s'] = draw(st.integers(0, 2))
            atoms.append(a)
        else:
            atoms.append(atom())

    def build(items, depth):
        if len(items) == 1:
            return items[0]
        op = draw(st.sampled_from(['&', '|', '|']))
        if depth >= 3 or len(items) == 2:
            return [op] + items
        nparts = draw(st.integers(2, min(3, len(items))))
        cuts = sorted(draw(st.lists(
            st.integers(1, len(items) - 1), min_size=nparts - 1,
            max_size=nparts - 1, unique=True)))
        parts, prev = [], 0
        for c in cuts + [len(items)]:
            parts.append(items[prev:c])
            prev = c
        return [op] + [build(p, depth + 1) for p in parts]

    case['tree'] = build(atoms, 1)
    case['ws'] = draw(st.integers(0, 2))
    case['wrap'] = draw(st.integers(0, 3)) == 0
    case['order'] = draw(st.lists(st.integers(0, 9999), min_size=14,
                                  max_size=14))
    return case


# -- rendering ---------------------------------------------------------------

def off_text(case, k):
    if k == 0:
        return ''
    sign = '-' if k < 0 else '+'
    k = abs(k)
    if case['mode'] == 'int':
        return f'[{sign}P{k}]'
    if k == 4:
        return f'[{sign}P1D]'
    return f'[{sign}PT{6 * k}H]'


def abs_text(case, a):
    """Text of an absolute trigger point in the drawn spelling."""
    n, sp = a['abs'], a['abs_sp']
    if case['mode'] == 'int':
        if sp in (1, 2):
            return '[^]' if n == 0 else f'[^+P{n}]'
        return f'[{case["icp"] + n}]'
    if sp == 1:
        return '[^]' if n == 0 else f'[^+PT{6 * n}H]'
    if case.get('xy') or sp == 0:
        return f'[{point_str(case, n)}]'
    base = datetime.strptime(ICPS[case['icp']], '%Y%m%dT%H%M')
    t = base + timedelta(hours=6 * n)
    tz = case['tz']
    if sp == 2:       # short: no minutes
        return f'[{t.strftime("%Y%m%dT%H")}{tz}]'
    if sp == 3:       # extended format
        z = tz if tz == 'Z' else tz[:3] + ':' + tz[3:]
        return f'[{t.strftime("%Y-%m-%dT%H:%M")}{z}]'
    # the same instant written in UTC
    if tz == 'Z':
        return f'[{t.strftime("%Y%m%dT%H%M")}Z]'
    sign = 1 if tz[0] == '+' else -1
    off = timedelta(hours=int(tz[1:3]), minutes=int(tz[3:5])) * sign
    return f'[{(t - off).strftime("%Y%m%dT%H%M")}Z]'


def qual_text(a):
    o, s = a['o'], a['s']
    if o in SHORT:
        if s == 0 and o == 'succeeded':
            return ''
        if s == 1:
            return ':' + SHORT[o]
        return ':' + o
    return ':' + o


def atom_text(case, a, mark=True):
    q = qual_text(a)
    opt = '?' if (mark and case['opt'] and a['o'] != 'finished') else ''
    off = abs_text(case, a) if 'abs' in a else off_text(case, a['k'])
    return f"{a['t']}{off}{q}{opt}"


def render(case, tree, top=True):
    if isinstance(tree, dict):
        return atom_text(case, tree)
    op = tree[0]
    ws = case['ws']
    sep = {0: f' {op} ', 1: op, 2: f'  {op} '}[ws]
    parts = []
    for c in tree[1:]:
        s = render(case, c, False)
        if isinstance(c, dict):
            parts.append(s)
        elif c[0] == op and ws == 1:
            parts.append(s)          # flatten same-operator child
        else:
            parts.append(f'( {s} )' if ws == 2 else f'({s})')
    out = sep.join(parts)
    if top and case.get('wrap'):
        out = f'({out})'     # one parenthesised entity: not split on &
    return out


def leaves(tree):
    if isinstance(tree, dict):
        return [tree]
    out = []
    for c in tree[1:]:
        out += leaves(c)
    return out


def has_or(tree):
    if isinstance(tree, dict):
        return False
    return tree[0] == '|' or any(has_or(c) for c in tree[1:])


def point_str(case, steps):
    """Cycle point string `steps` steps after the initial point."""
    if case['mode'] == 'int':
        return str(case['icp'] + steps)
    base = datetime.strptime(ICPS[case['icp']], '%Y%m%dT%H%M')
    t = base + timedelta(hours=6 * steps)
    return (('+00' if case.get('xy') else '')
            + t.strftime('%Y%m%dT%H%M') + case['tz'])


def flow_text(case):
    names = sorted({a['t'] for a in leaves(case['tree'])})
    lines = ['[scheduler]', '    allow implicit tasks = True']
    if case['mode'] == 'dt':
        lines.append(f'    cycle point time zone = {case["tz"]}')
        if case.get('xy'):
            lines.append('    cycle point num expanded year digits = 2')
    lines.append('[scheduling]')
    if case['mode'] == 'int':
        lines += ['    cycling mode = integer',
                  f'    initial cycle point = {case["icp"]}']
        rec = 'P1'
    else:
        lines.append(f'    initial cycle point = {point_str(case, 0)}')
        rec = 'PT6H'
    lone = []
    for n in names:
        if case['opt']:
            lone.append(f'{n}?')
        elif n in case['failset']:
            lone.append(f'{n}:fail')
        else:
            lone.append(n)
    lines += ['    [[graph]]', f'        {rec} = """',
              '            ' + ' & '.join(lone),
              '            ' + render(case, case['tree']) + ' => tgt',
              '        """', '[runtime]']
    for n, outs in sorted(case['customs'].items()):
        if n not in names:
            continue
        lines += [f'    [[{n}]]', '        [[[outputs]]]']
        for on, msg in outs:
            q = "'" if '"' in msg else '"'
            lines.append(f'            {on} = {q}{msg}{q}')
    return '\n'.join(lines) + '\n'


# -- oracle ------------------------------------------------------------------

def msg_of(case, a, out=None):
    out = out or a['o']
    for on, m in case['customs'].get(a['t'], []):
        if on == out:
            return m
    return out


def atom_keys(case, a):
    """The real outputs (point, task, message) an atom stands for."""
    p = point_str(case, a['abs'] if 'abs' in a else case['k'] + a['k'])
    if a['o'] == 'finished':
        return [(p, a['t'], 'succeeded'), (p, a['t'], 'failed')]
    return [(p, a['t'], msg_of(case, a))]


def pre_initial(case, a):
    return 'abs' not in a and case['k'] + a['k'] < 0


def ev(case, tree, sat):
    if isinstance(tree, dict):
        if pre_initial(case, tree):
            return True
        return any(k in sat for k in atom_keys(case, tree))
    if tree[0] == '&':
        return all(ev(case, c, sat) for c in tree[1:])
    return any(ev(case, c, sat) for c in tree[1:])


# -- attribution of a failure to a known root cause --------------------------

TEMPLATE = 'bool(self._satisfied[("%s", "%s", "%s")])'


def residual(prereq):
    """Conditional expression with well-formed templates removed."""
    expr = prereq.conditional_expression or ''
    for key in sorted(prereq.keys(), key=lambda k: -len(k[2])):
        tmpl = TEMPLATE % tuple(key)
        expr = expr.replace(tmpl, '\x00')
        if '\\' in tmpl:
            # re.sub() processes backslash escapes of the replacement
            try:
                expr = expr.replace(re.sub('X', tmpl, 'X'), '\x00')
            except re.error:
                pass
    return expr.replace(' ', '')


def _nonword_end(s):
    return bool(s) and not re.match(r'\w', s[-1])


def attribute(case, residuals, exc):
    """-> root-cause signature suffix, or None (generic)."""
    R = '\x01'.join(residuals)
    atoms = leaves(case['tree'])
    texts = [(a, atom_text(case, a, mark=False)) for a in atoms]
    junk = R.replace('\x00', '').replace('\x01', '')
    junk = re.sub(r'[|&()]', '', junk)
    # prerequisite: '+' prefixed (expanded year) points: \b before '+' fails
    if case.get('xy'):
        for a in atoms:
            for (p, t, m) in atom_keys(case, a):
                if f'{p}/{t}{m}'.replace(' ', '') in R:
                    return 'expanded-year-point-not-substituted'
    # graph parser: r'\b%s\b%s:%s(?!:)' (offset form has no trailing \b)
    for a, ta in texts:
        if a['k'] != 0 and a['s'] == 1 and a['o'] in SHORT:
            head = f"{a['t']}{off_text(case, a['k'])}:"
            short = SHORT[a['o']]
            for b, tb in texts:
                if qual_text(b) == '':
                    tb += ':succeeded'   # as made explicit by the parser
                if tb.startswith(head + short) and len(tb) > len(head + short):
                    bad = (head + a['o'] + tb[len(head + short):])
                    if bad.replace(' ', '') in R:
                        if tb[len(head + short)] == '-':
                            # "\b" after the short qualifier sees "-"
                            return ('graph-rewrite:'
                                    'short-qualifier-before-hyphen')
                        return 'graph-rewrite:offset-short-qualifier-prefix'
    # graph parser: `expr.replace("name:finished", "(…)")` without boundary
    for a, ta in texts:
        if a['o'] == 'finished':
            for b, tb in texts:
                if (b['o'] == 'finished' and b['k'] == a['k']
                        and b['t'] != a['t'] and b['t'].endswith(a['t'])):
                    stub = b['t'][:-len(a['t'])]
                    if re.search(re.escape(stub) + r'\(', R):
                        return 'graph-rewrite:finish-name-suffix'
    # graph parser: \bNAME\b fails when NAME ends with a non-word character
    for a, ta in texts:
        if _nonword_end(a['t']) and (
                qual_text(a) == '' or (a['k'] != 0 and a['s'] == 1
                                       and a['o'] in SHORT)):
            if re.search(r'(?<![/\w])' + re.escape(ta) + r'(?![\w])', R):
                return 'graph-rewrite:name-ends-nonword'
    # graph parser: r'\bNAME\b(?![\[:])' hits NAME as a token of another name
    for a, ta in texts:
        if qual_text(a) == '' and a['k'] == 0:
            n = re.escape(a['t'])
            for b, tb in texts:
                for m in re.finditer(rf'\b{n}\b(?![\[:])', tb):
                    if m.start() == 0 and m.end() == len(b['t']):
                        continue     # that atom's own name
                    bad = (tb[:m.end()] + ':succeeded'
                           + tb[m.end():m.end() + 1])
                    if bad not in R:
                        continue
                    if m.end() <= len(b['t']):
                        return ('graph-rewrite:implicit-succeeded-name-'
                                'token-inside-other-name')
                    return ('graph-rewrite:implicit-succeeded-name-'
                            'equals-qualifier-token')
    # graph parser: r'\bNAME:short\b(?![\[:])' hits NAME:short-more
    for a, ta in texts:
        if a['k'] == 0 and a['s'] == 1 and a['o'] in SHORT:
            bad = f"{a['t']}:{a['o']}-"
            for b, tb in texts:
                if (b['k'] == 0
                        and re.search(rf"\b{re.escape(ta)}-", tb)
                        and bad in R):
                    return 'graph-rewrite:short-qualifier-before-hyphen'
    # prerequisite: r'\bP/T M\b' for point P also matches inside "-P/T M"
    keys = {k for a in atoms for k in atom_keys(case, a)}
    for (p, t, m) in keys:
        if ('-' + p, t, m) in keys and '-\x00' in R:
            return 'negative-point-matched-by-positive-point-pattern'
    # prerequisite: message text spliced with \b...\b and "..."
    for a in atoms:
        if a['o'] in SHORT:
            continue
        for (p, t, m) in atom_keys(case, a):
            if _nonword_end(m) and f'{p}/{t}{m}'.replace(' ', '') in R:
                return 'message-nonword-end-not-substituted'
    for a in atoms:
        for (p, t, m) in atom_keys(case, a):
            for b in atoms:
                for (p2, t2, m2) in atom_keys(case, b):
                    if t == t2 and p2 in (p, '-' + p) and m2 != m and re.match(
                            re.escape(m) + r'\b', m2):
                        rest = m2[len(m):].replace(' ', '')
                        if rest and ('\x00' + rest) in R:
                            return 'message-word-prefix-of-other-message'
    if not junk:
        for a in atoms:
            for (p, t, m) in atom_keys(case, a):
                if '"' in m or '\\' in m:
                    return 'message-double-quote-or-backslash'
    return None


# -- the check ---------------------------------------------------------------

def check_case(case, ctx: Ctx) -> CaseResult:
    from cylc.flow.cycling.loader import get_point
    from cylc.flow.exceptions import CylcError
    from cylc.flow.id import Tokens
    from cylc.flow.parsec.exceptions import ParsecError
    from cylc.flow.task_proxy import TaskProxy
    from vf.cylcutil import load_config

    tree = case['tree']
    atoms = leaves(tree)
    classes = [f'mode={case["mode"]}', f'atoms={min(len(atoms), 6)}']
    if case.get('xy'):
        classes.append('expanded-year')
    if has_or(tree):
        classes.append('has-or')
    if any(a['k'] < 0 for a in atoms):
        classes.append('negative-offset')
    if any(pre_initial(case, a) for a in atoms):
        classes.append('pre-initial-atom')
    if any('abs' in a for a in atoms):
        classes.append('absolute-point-atom')
    if any('abs' in a and a['abs_sp'] >= 2 and case['mode'] == 'dt'
           and not case.get('xy') for a in atoms):
        classes.append('absolute-point-non-canonical-spelling')
    if case['mode'] == 'int' and any(
            case['icp'] + case['k'] + a['k'] < 0 for a in atoms):
        classes.append('negative-integer-point')
    ids = sorted({f'{p}/{t} {m}' for a in atoms for p, t, m in atom_keys(case, a)})
    substr = any(x != y and x in y for x in ids for y in ids)
    names = sorted({a['t'] for a in atoms})
    name_substr = any(x != y and x in y for x in names for y in names)
    if name_substr:
        classes.append('name-substring-pair')
    if substr:
        classes.append('id-substring-pair')
    msgs = [m for a in atoms if a['o'] not in SHORT
            for _, _, m in atom_keys(case, a)]
    if msgs:
        classes.append('custom-output')
    if any(re.search(r'[^\w ]', m) for m in msgs):
        classes.append('message-metachar')
    if any(_nonword_end(m) for m in msgs):
        classes.append('message-nonword-end')
    if any('"' in m or '\\' in m for m in msgs):
        classes.append('message-quote-backslash')
    if any(a['o'] == 'finished' for a in atoms):
        classes.append('finish-atom')
    if any(a['s'] == 1 and a['o'] in SHORT for a in atoms):
        classes.append('short-spelling')
    seen = {}
    for a in atoms:
        key = (a['t'], a['k'], a['o'])
        seen.setdefault(key, set()).add(qual_text(a))
    if any(len(v) > 1 for v in seen.values()):
        classes.append('same-atom-two-spellings')
    if not case['opt']:
        classes.append('required-outputs')
    if not has_or(tree) and (case.get('wrap') or any(
            not isinstance(c, dict) for c in tree[1:])):
        classes.append('and-only-single-prerequisite')
    nontrivial = has_or(tree) and (
        substr or name_substr
        or any(re.search(r'[^\w ]', m) for m in msgs))

    text = flow_text(case)
    try:
        cfg = load_config(text, ctx.scratch)
    except (CylcError, ParsecError) as exc:
        ctx.col.rejected += 1
        classes.append('rejected-by-validation')
        d = ctx.col.extra.setdefault('rejection_reasons', {})
        k = re.sub(r'[\d]+', 'N', str(exc).split('\n')[0])[:60]
        d[k] = d.get(k, 0) + 1
        return CaseResult([], nontrivial=False, classes=classes,
                          info=str(exc)[:200])
    except Exception as exc:  # noqa
        return CaseResult(
            [Violation('C13:config-load-raises:' + exc_sig(exc),
                       f'{type(exc).__name__}: {exc}\n{text}')],
            classes=classes)

    tdef = cfg.taskdefs['tgt']
    pstr = point_str(case, case['k'])
    base_tokens = Tokens('~u/w')

    def fail(kind, detail, itask=None, exc=None):
        res = []
        if itask is not None:
            res = [residual(p) for p in itask.state.prerequisites]
        root = attribute(case, res, exc)
        if root:
            sig = f'C13:{root}'
        elif exc is not None:
            sig = f'C13:{kind}:' + exc_sig(exc)
        else:
            sig = f'C13:{kind}'
        exprs = [p.conditional_expression for p in
                 (itask.state.prerequisites if itask is not None else [])]
        return CaseResult(
            [Violation(sig, f'{detail}\ngraph line: '
                            f'{render(case, tree)} => tgt\nevaluated at '
                            f'{pstr}; conditional expressions: {exprs}')],
            nontrivial=nontrivial, classes=classes)

    def new_itask():
        point = get_point(pstr).standardise()
        return TaskProxy(base_tokens, tdef, point)

    try:
        itask = new_itask()
    except Exception as exc:  # noqa
        return fail('task-proxy-raises', f'TaskProxy(...) raised {exc!r}',
                    None, exc)

    # expected keys
    want_keys = {}
    for a in atoms:
        for key in atom_keys(case, a):
            want_keys[key] = pre_initial(case, a)
    got_keys = {}
    for p in itask.state.prerequisites:
        for key, state in p.items():
            got_keys[tuple(key)] = bool(state)
    if itask.state.suicide_prerequisites:
        return fail('unexpected-suicide-prerequisite', 'suicide prereqs',
                    itask)
    if got_keys != want_keys:
        if set(got_keys) != set(want_keys):
            return fail('prerequisite-keys-differ',
                        f'keys {sorted(got_keys)} expected '
                        f'{sorted(want_keys)}', itask)
        return fail('pre-initial-state-differs',
                    f'initial satisfaction {got_keys}, expected {want_keys} '
                    '(True = pre-initial)', itask)

    units = sorted(k for k, pre in want_keys.items() if not pre)
    n = len(units)
    toks = {
        k: base_tokens.duplicate(cycle=k[0], task=k[1], task_sel=k[2])
        for k in units}

    def query(it, sat, what):
        want = ev(case, tree, sat)
        try:
            got = it.state.prerequisites_all_satisfied()
            got2 = it.state.prerequisites_all_satisfied()
        except Exception as exc:  # noqa
            return fail('is_satisfied-raises',
                        f'{what}: is_satisfied() raised '
                        f'{type(exc).__name__}: {str(exc)[-160:]!r}', it, exc)
        if got != want or got2 != want:
            return fail('satisfaction-differs',
                        f'{what}: satisfied outputs {sorted(sat)}: cylc '
                        f'{got}/{got2}, expression is {want}', it)
        return None

    # (a) subsets on fresh task proxies
    if n <= 6:
        masks = list(range(2 ** n))
    else:
        masks = {0, 2 ** n - 1}
        for i in range(n):
            masks |= {1 << i, (2 ** n - 1) ^ (1 << i)}
        for i in range(48):
            masks.add((case['order'][i % 14] * 2654435761 + i * 40503)
                      % (2 ** n))
        masks = sorted(masks)
    nq = 0
    for mask in masks:
        sat = {units[i] for i in range(n) if mask >> i & 1}
        it = itask if mask == 0 else new_itask()
        if sat:
            it.satisfy_me([toks[k] for k in units if k in sat])
        bad = query(it, sat, 'fresh task proxy')
        nq += 1
        if bad:
            return bad

    # (b) ordered walk with cache transparency and un-satisfaction
    it = new_itask()
    order = sorted(range(n), key=lambda i: (case['order'][i % 14], i))
    sat = set()
    bad = query(it, sat, 'walk start')
    for i in order:
        if bad:
            return bad
        it.satisfy_me([toks[units[i]]])
        sat.add(units[i])
        bad = query(it, sat, f'walk after satisfying {units[i]}')
        nq += 1
    if bad:
        return bad
    inst = sorted({(k[0], k[1]) for k in units},
                  key=lambda pt: (case['order'][(len(pt[1]) + 7) % 14], pt))
    for (p, t) in inst[:3]:
        changed = False
        for pre in it.state.prerequisites:
            changed |= pre.unset_naturally_satisfied(f'{p}/{t}')
        had = {k for k in sat if (k[0], k[1]) == (p, t)}
        sat -= had
        if bool(had) != bool(changed):
            return fail('unset-naturally-satisfied-return',
                        f'unset {p}/{t}: returned {changed}, had {had}', it)
        bad = query(it, sat, f'walk after un-satisfying {p}/{t}')
        nq += 1
        if bad:
            return bad
    for i in order[:2]:
        it.satisfy_me([toks[units[i]]])
        sat.add(units[i])
        bad = query(it, sat, f'walk after re-satisfying {units[i]}')
        nq += 1
        if bad:
            return bad
    ex = ctx.col.extra
    ex['satisfaction_queries'] = ex.get('satisfaction_queries', 0) + nq
    return CaseResult([], nontrivial=nontrivial, classes=classes)


def run_shard(ctx: Ctx):
    hyp_run(ctx, cases(), check_case, ctx.share(BUDGET[ctx.tier]))
