"""C27 Reload preserves task state."""
from __future__ import annotations

from hypothesis import strategies as st

from vf.core import CaseResult, Ctx, Violation, hyp_run
from vf.gen.wfspec import wfspecs
from vf.sim.c27_util import (
    RSCase, crash_violations, dev_dump, harness_spin, ast_prereq_keys, edits, install_reload_monitor, snap_pool)
from vf.sim.drive import outcome_maps, run_async
from vf.sim.model import Model

PROP_ID = 'C27'
LEVEL = 'exploration'
BUDGET = {'quick': 300, 'thorough': 8000}
MANIFEST = {
    'engine': 'S',
    'technique': 'stateful PBT: real reload command with an edited '
                 'flow.cylc (AST edit) at arbitrary points of a generated '
                 'history; pool snapshots around TaskPool.reload compared '
                 'field by field, prerequisites classified by the two ASTs',
}
RULE = (
    'Generated workflow (C01 domain + retries, optionally a runahead limit '
    'and a limited default queue) + outcomes; 1-3 cumulative AST edits '
    '(unchanged / add a task / add a prerequisite line onto an existing '
    'task / add a custom output / remove a task / remove a prerequisite) and '
    'a history of <= 50 steps over loop / return / advance / deliver, commands '
    'hold, release, trigger, set, pause, resume, remove (also aimed at a '
    'waiting task with some prerequisites satisfied and others not, which is '
    'then spawned again with the already recorded outputs unsatisfied), and '
    'reload steps that write '
    'the edited flow.cylc into the run directory and issue the real reload '
    'command (also while tasks are preparing); then 8 rounds of the fair '
    'schedule.  Oracle per '
    'reload that reached the task pool, from snapshots taken immediately '
    'before and after TaskPool.reload and at the end of the command: status, '
    'flow numbers, submit number, held, runahead flag and completed outputs of '
    'every pooled task are unchanged; atoms present before and after keep '
    'their satisfaction; an atom that is new per the two ASTs is satisfied '
    'only if the scheduler had recorded that output (pool, removed tasks or '
    'task_outputs table); a pooled task whose name is still defined in the new '
    'AST stays in the pool; a task whose name was removed is dropped only if '
    'it was not running / finished.  queued: a task queued before the reload '
    'is queued again (or has left the waiting state) after the next main-loop '
    'iteration, if ready when the command returned and still ready.  '
    'Non-trivial = a reload reached the pool '
    'while it held >= 1 task in a non-default state (not plain waiting: '
    'active or finished status, held, queued, a completed output or a '
    'satisfied prerequisite atom); distinct by the whole case.')
ASSUMPTIONS = [
    'Weakest reading: "preserves" is checked across TaskPool.reload (the '
    'definition swap) and again at the end of the reload command.  The '
    'command ends with an ordinary runahead release (spawns, flow merges, '
    're-queueing): when any task event was recorded after the swap only '
    'submit number, held and completed outputs are compared at the end.',
    '`queued` is compared after the next main-loop iteration (DESIGN 5a), and '
    'only for tasks that are then still waiting, not held, not '
    'runahead-limited, not manually triggered and ready to run, with no '
    'command in between, and that were ready to run when the reload command '
    'returned.  A queued task that the new definition made un-ready (a new '
    'prerequisite, unsatisfied because its output is not recorded - which '
    'the statement demands) cannot remain queued; if that output arrives '
    'during the next iteration the task is ready at its end but is queued '
    'only one iteration later, because the main loop queues ready tasks '
    '(Scheduler._main_loop: queue_if_ready) before it processes job messages '
    '- the same as without a reload.  Such tasks are counted as class '
    '`queued-before:not-ready-after-reload:*`, not judged.',
    '"satisfies new prerequisites only from outputs already recorded" is read '
    'one way: new atom satisfied => output recorded (any flow).  The converse '
    '(recorded => satisfied) is only counted as a class.',
    '"dropped only if they have not started": a dropped removed-definition '
    'task violates the statement only if its status was running, succeeded or '
    'failed (a job had started); preparing / submitted / submit-failed / '
    'expired / waiting-for-retry are not judged.',
    'Preparing tasks are flushed by the reload command before the definition '
    'is swapped (process pool answered FIFO by the engine, DESIGN 2.1a); the '
    'before-snapshot is taken after that flush.',
    'Orphans and new/removed atoms are derived from the harness ASTs, never '
    'from cylc\'s parsed config; pre-initial atoms are not judged.',
    'A run that the engine aborts because the scheduler waits for ever '
    'inside one call (seen: a reload waiting for a task left `preparing` '
    'by the trigger-then-reload defect described in '
    'findings/C25_triggered_task_reprepared_from_stale_proxy_after_reload.py) '
    'is counted inconclusive and not judged.',
]

CMD_OPS = ['hold', 'release', 'trigger', 'set', 'pause', 'resume', 'remove',
           'remove']
TAIL_ROUNDS = 8
FIELDS = ['status', 'flows', 'submit_num', 'held', 'runahead', 'outputs']


@st.composite
def cases(draw):
    spec = draw(wfspecs({'max_tasks': 5, 'max_fcp': 4, 'retries': True}))
    k = draw(st.integers(0, 5))
    if k <= 1:
        spec['extra']['runahead'] = 'P%d' % draw(st.integers(0, 2))
    if k in (1, 2, 3):
        spec['extra']['queues'] = [
            {'name': 'default', 'limit': draw(st.integers(1, 2))}]
    outcomes = draw(outcome_maps(spec, max_subs=2))
    reloads = []
    cur = spec
    for _ in range(draw(st.integers(1, 3))):
        e = draw(edits(cur))
        reloads.append(e)
        cur = e['spec']
    ops = (['loop'] * 3 + ['round'] * 3 + ['ret', 'ret', 'adv', 'adv', 'del',
                                             'del']
           + CMD_OPS + ['hold', 'trigger-new', 'trigger-new']
           + ['remove-partial'] * 2
           + ['reload-edit'] * 3 + ['reload'])

    def mk(t):
        op, n = t
        if op == 'trigger-new':
            return ['trigger', n, ['new']]
        return [op, n]

    # warm-up: w rounds of the fair schedule so that reloads also meet
    # running / finished / retrying tasks, then a random history
    warm = draw(st.integers(0, 8))
    sched = [['round', 0] for _ in range(warm)] + draw(st.lists(
        st.tuples(st.sampled_from(ops), st.integers(0, 15)).map(mk),
        max_size=40))
    if not any(s[0].startswith('reload') for s in sched):
        pos = draw(st.integers(0, len(sched)))
        sched.insert(pos, ['reload-edit', draw(st.integers(0, 2))])
    return {'spec': spec, 'outcomes': outcomes, 'reloads': reloads,
            'schedule': sched}


def check_case(case, ctx: Ctx) -> CaseResult:
    res = run_async(_check(case, ctx))
    dev_dump('C27', case, res)
    return res


STARTED = ('running', 'succeeded', 'failed')


def judge_reload(rec, to_str, to_int, classes):
    """Violations of one reload record (snapshots A=before, B=after)."""
    out = []
    A, B = rec['before'], rec['after']
    ed = rec['edit'] or {}
    old, new = ed.get('old'), ed.get('new')
    kind = ed.get('kind', '?')
    classes.add('reload-applied:' + kind)
    new_tasks = set(new['tasks']) if new else None
    old_model = Model(old) if old else None
    new_model = Model(new) if new else None
    where = f'reload #{ed.get("index")} ({kind}) at iteration {rec["it"]}'
    for tid, a in A.items():
        classes.add('pooled-at-reload:' + a['status'])
        for flag in ('held', 'queued', 'runahead'):
            if a[flag]:
                classes.add('pooled-at-reload:' + flag)
        if a['submit_num'] > 1:
            classes.add('pooled-at-reload:resubmitted')
        if len(a['flows']) != 1 or a['flows'] != [1]:
            classes.add('pooled-at-reload:non-original-flow')
        b = B.get(tid)
        orphan = new_tasks is not None and a['name'] not in new_tasks
        if b is None:
            if not orphan:
                out.append(Violation(
                    'C27:pooled-task-lost',
                    f'{where}: {tid} ({a["status"]}) is still defined in the '
                    f'new workflow but left the pool during the reload'))
            else:
                classes.add('orphan-dropped:' + a['status'])
                if a['status'] in STARTED:
                    sig = 'C27:started-orphan-dropped'
                    if a['held']:
                        sig += ':held'
                    out.append(Violation(
                        sig,
                        f'{where}: {tid} was {a["status"]} (held='
                        f'{a["held"]}, submit number {a["submit_num"]}) when '
                        f'its definition was removed, and was dropped from '
                        f'the pool'))
            continue
        if orphan:
            classes.add('orphan-kept:' + a['status'])
        for f in FIELDS:
            if a[f] != b[f]:
                out.append(Violation(
                    f'C27:not-preserved:{f}',
                    f'{where}: {tid} {f} was {a[f]!r} before and {b[f]!r} '
                    f'immediately after the definition swap'))
        if a['queued'] and not b['queued']:
            classes.add('queued-flag-dropped-by-swap')
        if orphan:
            continue
        # prerequisites
        p = to_int.get(a['cycle'])
        k_old = ast_prereq_keys(old, old_model, to_str, a['name'], p) \
            if old else set()
        k_new = ast_prereq_keys(new, new_model, to_str, a['name'], p) \
            if new else set()
        for key, bv in b['sat'].items():
            av = a['sat'].get(key)
            if key in a['sat']:
                if av is None or bv is None:
                    continue
                classes.add('surviving-atom:' + (
                    'satisfied' if av else 'unsatisfied'))
                if not av and (key in rec['recorded_db'] or _label_key(
                        key, old) in rec['recorded_labels']):
                    # e.g. the task was removed and spawned again later
                    classes.add('surviving-atom:unsatisfied-though-recorded')
                if av != bv:
                    out.append(Violation(
                        'C27:surviving-prerequisite-changed:'
                        + ('lost' if av else 'gained'),
                        f'{where}: {tid} prerequisite {key} exists before '
                        f'and after; satisfied {av} -> {bv}'))
                continue
            # not there before
            if key in k_old or key not in k_new:
                classes.add('ast-key-mismatch')
                continue
            cyc = key.split('/', 1)[0]
            q = to_int.get(cyc)
            if q is None or q < new['icp']:
                classes.add('new-atom:pre-initial')
                continue
            recorded = key in rec['recorded_db'] or _label_key(
                key, new) in rec['recorded_labels'] or _label_key(
                key, old) in rec['recorded_labels']
            if bv:
                classes.add('new-atom:satisfied')
                if not recorded:
                    out.append(Violation(
                        'C27:new-prerequisite-satisfied-without-output',
                        f'{where}: {tid} got the new prerequisite {key} '
                        f'satisfied although that output was never recorded '
                        f'(pool, removed tasks, task_outputs table)'))
            elif bv is False:
                classes.add('new-atom:unsatisfied')
                if recorded:
                    classes.add('new-atom:unsatisfied-though-recorded')
        for key in a['sat']:
            if key not in b['sat']:
                classes.add('atom-removed-from-pooled-task')
    for tid in B:
        if tid not in A:
            out.append(Violation(
                'C27:task-appeared-in-pool',
                f'{where}: {tid} was not in the pool before the swap'))
    # end of command: after the swap the command ends with an ordinary
    # runahead release (which may spawn, merge flows, re-queue an absorbed
    # incomplete task); status / flows / runahead are only compared when
    # nothing of that kind happened after the swap
    E = rec.get('end')
    if E is not None:
        quiet_tail = not rec.get('post_swap_activity')
        classes.add('end-of-command:' + (
            'nothing-after-swap' if quiet_tail else 'runahead-release-ran'))
        fields = FIELDS if quiet_tail else ['submit_num', 'held', 'outputs']
        for tid, a in A.items():
            e = E.get(tid)
            if e is None or tid not in B:
                continue
            for f in fields:
                if a[f] == e[f]:
                    continue
                out.append(Violation(
                    f'C27:not-preserved-at-end-of-command:{f}',
                    f'{where}: {tid} {f} was {a[f]!r} before the swap and '
                    f'{e[f]!r} when the reload command returned'))
    return out


def _label_key(key, spec):
    """'<cycle>/<task>:<message>' -> '<cycle>/<task>:<output label>'."""
    if not spec:
        return key
    head, msg = key.split(':', 1)
    task = head.split('/', 1)[1]
    for nm, m in spec.get('custom', {}).get(task, {}).items():
        if m == msg:
            return f'{head}:{nm}'
    return key


def nondefault(a):
    return (a['status'] != 'waiting' or a['held'] or a['queued']
            or a['outputs'] or any(v for v in a['sat'].values()))


async def _check(case, ctx: Ctx) -> CaseResult:
    async with RSCase(case, ctx) as sc:
        if sc.rejected:
            return CaseResult(sc.crash_violations('C27'), False,
                              ['rejected:' + sc.rejected])
        sim, drv = sc.sim, sc.drv
        install_reload_monitor(drv)
        viol = []
        classes = set()
        pending_q = []      # queued checks waiting for the next iteration

        def after_cmd(d, name):
            if name == 'reload':
                ev = sim.trace[-1]
                pe = drv.pending_edit
                applied = bool(pe and pe['applied'])
                if applied and drv.reload_log:
                    rec = drv.reload_log[-1]
                    if rec['end'] is None:
                        rec['end'] = snap_pool(sim.schd)
                        rec['post_swap_activity'] = any(
                            e['k'] in ('state', 'add', 'remove',
                                       'rh-release')
                            for e in sim.trace[rec['n1']:])
                        rec['err'] = ev.get('err')
                        if any(t['status'] == 'preparing'
                               for t in ev['before']):
                            classes.add('reload-while-preparing')
                        qd = [tid for tid, a in rec['before'].items()
                              if a['queued']]
                        # readiness when the command returns: a task that
                        # the new definition made un-ready (new unsatisfied
                        # prerequisite) cannot stay queued, and the main
                        # loop queues ready tasks *before* it processes job
                        # messages, so a task that becomes ready again
                        # during the next iteration is queued one iteration
                        # later, reload or no reload
                        live = {t.identity: t
                                for t in sim.schd.pool.get_tasks()}
                        ready_after = {
                            tid: bool(live[tid].is_ready_to_run())
                            for tid in qd if tid in live}
                        pending_q[:] = [(rec, qd, ready_after)] if qd \
                            else []
                if ev.get('raised'):
                    viol.append(Violation(
                        'C27:reload-command-raised:' + ev['raised'],
                        f'the reload command at iteration {sim.iteration} '
                        f'raised {ev["err"]} (definition swap reached: '
                        f'{applied})'))
                if not applied:
                    classes.add('reload-not-applied')
                    if ev.get('err'):
                        classes.add('reload-error')
            else:
                pending_q.clear()

        def after_loop(d):
            if not pending_q or not sim.running:
                pending_q.clear()
                return
            rec, qd, ready_after = pending_q.pop()
            pool = {t.identity: t for t in sim.schd.pool.get_tasks()}
            for tid in qd:
                t = pool.get(tid)
                if t is None:
                    classes.add('queued-before:gone-after-iteration')
                    continue
                if not ready_after.get(tid):
                    a = rec['before'].get(tid) or {}
                    b = rec['after'].get(tid) or {}
                    new_unsat = any(
                        v is False and k not in a.get('sat', {})
                        for k, v in b.get('sat', {}).items())
                    classes.add(
                        'queued-before:not-ready-after-reload:'
                        + ('new-unsatisfied-prerequisite' if new_unsat
                           else 'other'))
                    continue
                st_ = t.state
                if (st_.status != 'waiting' or st_.is_held
                        or st_.is_runahead or t.is_manual_submit
                        or t.waiting_on_job_prep):
                    classes.add('queued-before:moved-on')
                    continue
                if not t.is_ready_to_run():
                    classes.add('queued-before:no-longer-ready')
                    continue
                classes.add('queued-before:checked')
                if not st_.is_queued:
                    viol.append(Violation(
                        'C27:queued-not-restored-after-next-iteration',
                        f'{tid} was queued before the reload at iteration '
                        f'{rec["it"]}; one main-loop iteration later it is '
                        f'waiting, ready, not held, not runahead-limited and '
                        f'not queued'))

        drv.after_cmd.append(after_cmd)
        drv.after_loop.append(after_loop)
        await sc.run_schedule()
        # a short fair tail (no liveness claim in this property: it only
        # lets a reload that broke something crash the scheduler)
        for _ in range(TAIL_ROUNDS):
            if not sim.running:
                break
            await drv.step('round', 0)
        spin = harness_spin(sim)
        if spin:
            classes.add('engine-abort:scheduler-waits-forever-inside-one-call')
            viol = [v for v in viol
                    if not v.sig.startswith('C27:reload-command-raised')]
        viol = crash_violations(sc, 'C27') + viol
        nontrivial = False
        for rec in drv.reload_log:
            viol += judge_reload(rec, drv.to_str, drv.to_int, classes)
            if any(nondefault(a) for a in rec['before'].values()):
                nontrivial = True
        classes.add('reloads-applied:%d' % min(len(drv.reload_log), 3))
        for e in sim.trace:
            if e['k'] == 'cmd' and e['cmd'] != 'reload':
                classes.add('cmd:' + e['cmd'])
        uniq = {}
        for v in viol:
            uniq.setdefault(v.sig, v)
        return CaseResult(
            list(uniq.values()), nontrivial, sorted(classes),
            inconclusive=spin,
            info={'flow': drv.flow_text,
                  'reloads': [[r['edit']['kind'] if r['edit'] else None,
                               len(r['before'])] for r in drv.reload_log]})


def run_shard(ctx: Ctx):
    hyp_run(ctx, cases(), check_case, ctx.share(BUDGET[ctx.tier]))
