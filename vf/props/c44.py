"""C44 Private workflow files are created owner-only.

Engine F, exhaustive: for every one of the 512 umasks a forked child sets
the umask and runs the scheduler's start-up file-creation code path on a real
run directory under the worker's private ``~/cylc-run``:

    WorkflowDatabaseManager(.service, log) -> [restart_check] ->
    make_workflow_run_tree -> key_housekeeping -> on_workflow_start ->
    process_queued_ops

(first start, then a restart), and reports the modes of ``.service/db`` and
of the server and client private keys.
"""
from __future__ import annotations

import json
import os
import shutil
import stat

from vf.core import CaseResult, Ctx, Violation, exc_sig

PROP_ID = 'C44'
LEVEL = 'exploration'
BUDGET = {'quick': 1536, 'thorough': 4096}
EXHAUSTIVE = {'quick': True, 'thorough': True}
MANIFEST = {
    'engine': 'F',
    'technique': 'exhaustive enumeration of all 512 umasks in forked '
                 'children running the real start-up file-creation path',
    'level_text': 'exhaustive over umasks (512), first start and restart',
}
RULE = (
    'Exhaustive: every umask 0o000-0o777 x {first start followed by a '
    'restart under the same umask; first start under 0o022 followed by a '
    'restart under the umask; the same with the private DB replaced before '
    'the restart by a copy of the public one made under that umask (the '
    'recovery `cp log/db .service/db`)} (quick: 1536 cases); thorough adds first '
    'start under 0o000/0o002/0o027/0o077/0o777 followed by a restart under '
    'every umask (4096 cases).  Each case runs in a forked child: umask set, '
    'run dir created, then the scheduler start-up sequence '
    '(WorkflowDatabaseManager, restart_check on restart, '
    'make_workflow_run_tree, key_housekeeping, on_workflow_start, one '
    'process_queued_ops).  Oracle: after each completed start-up, mode & '
    '0o077 == 0 for .service/db, the server private key and the client '
    'private key.  Non-trivial = start-up completed under a umask that would '
    'by itself leave group or other permission bits on a new 0o666 file '
    '(umask & 0o066 != 0o066); distinct = one per (first umask, restart '
    'umask) pair.')
ASSUMPTIONS = [
    '"Once start-up completes" = after on_workflow_start + key_housekeeping '
    'as called by Scheduler.install / Scheduler.configure, and one '
    'process_queued_ops.',
    'Start-up refusing to proceed (PermissionError/OSError EACCES) under a '
    'umask that denies the owner (umask & 0o700) is a clean rejection '
    '(DESIGN 5a); the checks run as the user of the harness (root here, for '
    'which no umask blocks start-up).',
    'The private key files are those named by KeyInfo(PRIVATE, SERVER|CLIENT) '
    'in the .service directory.',
]


def all_cases(tier):
    cases = []
    for u in range(512):
        cases.append({'first': u, 'restart': u})
    for u in range(512):
        cases.append({'first': 0o022, 'restart': u})
    for u in range(512):
        # the documented recovery of a lost private DB: it is copied back
        # from the public one (a new file, created under the umask)
        cases.append({'first': 0o022, 'restart': u, 'recover': True})
    if tier == 'thorough':
        for f in (0o000, 0o002, 0o027, 0o077, 0o777):
            for u in range(512):
                cases.append({'first': f, 'restart': u})
    return cases


def _startup(wid):
    """The scheduler's start-up file creation (see Scheduler.__init__,
    .install, .configure)."""
    from pathlib import Path
    from cylc.flow.network.authentication import key_housekeeping
    from cylc.flow.pathutil import (
        get_workflow_run_dir, make_workflow_run_tree)
    from cylc.flow.workflow_db_mgr import WorkflowDatabaseManager
    from cylc.flow.workflow_files import get_workflow_srv_dir
    run_dir = get_workflow_run_dir(wid)
    mgr = WorkflowDatabaseManager(
        pri_d=get_workflow_srv_dir(wid),
        pub_d=os.path.join(run_dir, 'log'))
    is_restart = Path(mgr.pri_path).is_file()
    if not is_restart and Path(mgr.pub_path).is_file():
        os.unlink(mgr.pub_path)
    if is_restart:
        mgr.restart_check()
    make_workflow_run_tree(wid)
    key_housekeeping(wid, platform='localhost')
    mgr.on_workflow_start(is_restart)
    mgr.put_workflow_params_1('is_paused', 0) if hasattr(
        mgr, 'put_workflow_params_1') else None
    mgr.process_queued_ops()
    mgr.on_workflow_shutdown()
    return is_restart


def _recover_db(wid):
    """`cp log/db .service/db` (the recovery the restart check suggests)
    under the current umask."""
    from cylc.flow.pathutil import get_workflow_run_dir
    from cylc.flow.workflow_files import get_workflow_srv_dir
    pri = os.path.join(get_workflow_srv_dir(wid), 'db')
    pub = os.path.join(get_workflow_run_dir(wid), 'log', 'db')
    os.unlink(pri)
    shutil.copyfile(pub, pri)


def _modes(wid):
    from cylc.flow.workflow_files import (
        KeyInfo, KeyOwner, KeyType, get_workflow_srv_dir)
    srv = get_workflow_srv_dir(wid)
    paths = {
        'db': os.path.join(srv, 'db'),
        'server-private-key': KeyInfo(
            KeyType.PRIVATE, KeyOwner.SERVER,
            workflow_srv_dir=srv).full_key_path,
        'client-private-key': KeyInfo(
            KeyType.PRIVATE, KeyOwner.CLIENT,
            workflow_srv_dir=srv).full_key_path,
    }
    out = {}
    for label, p in paths.items():
        try:
            out[label] = stat.S_IMODE(os.lstat(p).st_mode)
        except FileNotFoundError:
            out[label] = None
    return out


def _child_one(case, wid):
    report = {'phases': []}
    try:
        from cylc.flow.pathutil import get_workflow_run_dir
        for phase, um in (('first', case['first']),
                          ('restart', case['restart'])):
            if um is None:
                continue
            os.umask(um)
            try:
                if phase == 'first':
                    os.makedirs(get_workflow_run_dir(wid))
                elif case.get('recover'):
                    _recover_db(wid)
                was_restart = _startup(wid)
            except OSError as exc:
                import errno
                if isinstance(exc, PermissionError) or exc.errno in (
                        errno.EACCES, errno.EPERM):
                    report['phases'].append(
                        {'phase': phase, 'umask': um,
                         'rejected': f'{type(exc).__name__}: {exc}'})
                    break
                raise
            os.umask(0o022)
            report['phases'].append({
                'phase': phase, 'umask': um, 'was_restart': was_restart,
                'modes': _modes(wid)})
    except BaseException as exc:   # noqa
        report['error'] = repr(exc)
        report['error_sig'] = exc_sig(exc)
    os.umask(0o022)
    return report


def _child(batch, wfd):
    """Runs in the forked child (the umask is process-wide, so it is never
    changed in the worker itself); never returns."""
    code = 0
    try:
        reports = [_child_one(case, wid) for case, wid in batch]
        data = json.dumps(reports).encode()
        while data:
            n = os.write(wfd, data)
            data = data[n:]
    except BaseException:   # noqa
        code = 5
    os._exit(code)


_preloaded = False


def _preload():
    """Import in the parent everything the children need (a forked child
    would otherwise re-import zmq and half of cylc every time)."""
    global _preloaded
    if _preloaded:
        return
    import zmq.auth  # noqa
    import cylc.flow.network.authentication  # noqa
    import cylc.flow.workflow_db_mgr  # noqa
    import cylc.flow.pathutil  # noqa
    import cylc.flow.workflow_files  # noqa
    from cylc.flow.cfgspec.glbl_cfg import glbl_cfg
    glbl_cfg()
    _preloaded = True


def _wid(case):
    return 'c44%s%03o_%s' % ('r' if case.get('recover') else 'w',
                              case['first'], (
        '%03o' % case['restart']) if case['restart'] is not None else 'x')


def _run_batch(cases):
    """Run the cases in ONE forked child; return their reports."""
    from vf.cylcutil import reset_globals
    reset_globals()
    _preload()
    base = os.path.join(os.path.expanduser('~'), 'cylc-run')
    os.makedirs(base, exist_ok=True)
    batch = [(case, _wid(case)) for case in cases]
    tops = [os.path.join(base, wid) for _, wid in batch]
    for top in tops:
        shutil.rmtree(top, ignore_errors=True)
    rfd, wfd = os.pipe()
    pid = os.fork()
    if pid == 0:
        os.close(rfd)
        _child(batch, wfd)
    os.close(wfd)
    chunks = []
    while True:
        b = os.read(rfd, 65536)
        if not b:
            break
        chunks.append(b)
    os.close(rfd)
    _, status = os.waitpid(pid, 0)
    rc = os.waitstatus_to_exitcode(status)
    try:
        if rc != 0 or not chunks:
            raise RuntimeError(f'C44 harness: child rc={rc} for {cases[:2]}')
        return json.loads(b''.join(chunks))
    finally:
        for top in tops:
            for dirpath, dirnames, _ in os.walk(top):
                for d in dirnames:
                    try:
                        os.chmod(os.path.join(dirpath, d), 0o700)
                    except OSError:
                        pass
            shutil.rmtree(top, ignore_errors=True)


def check_case(case, ctx: Ctx) -> CaseResult:
    return _judge(case, _run_batch([case])[0])


def _judge(case, report):
    viol = []
    classes = set()
    completed = 0
    if 'error' in report:
        viol.append(Violation(
            'C44:startup-exception:' + report['error_sig'],
            f'umasks first={case["first"]:#o} restart={case["restart"]}: '
            f'{report["error"]}'))
    for ph in report['phases']:
        um = ph['umask']
        if 'rejected' in ph:
            classes.add('rejected')
            if not um & 0o700:
                viol.append(Violation(
                    'C44:startup-refused-under-owner-permitting-umask',
                    f'{ph["phase"]} under umask {um:#05o}: {ph["rejected"]}'))
            continue
        completed += 1
        classes.add('completed:' + ph['phase'])
        if ph['phase'] == 'restart' and not ph['was_restart']:
            raise RuntimeError('C44 harness: restart phase saw no database')
        for label, mode in ph['modes'].items():
            if mode is None:
                raise RuntimeError(
                    f'C44 harness: {label} does not exist after start-up')
            if mode & 0o077:
                viol.append(Violation(
                    f'C44:group-or-other-access:{label}',
                    f'{label} has mode {mode:#05o} after the {ph["phase"]} '
                    f'under umask {um:#05o} (first start under '
                    f'{case["first"]:#05o})'))
    lax = [u for u in (case['first'], case['restart'])
           if u is not None and (u & 0o066) != 0o066]
    if lax:
        classes.add('umask-leaves-group-or-other-bits')
    if case.get('recover'):
        classes.add('private-db-recovered-from-public-copy')
    if case['first'] & 0o700 or (case['restart'] or 0) & 0o700:
        classes.add('umask-denies-owner')
    seen = {}
    for v in viol:
        seen.setdefault(v.sig, v)
    return CaseResult(list(seen.values()),
                      nontrivial=bool(completed and lax),
                      classes=sorted(classes),
                      distinct_key=[case['first'], case['restart'],
                                    bool(case.get('recover'))],
                      info=report['phases'][-1] if report['phases'] else None)


def run_shard(ctx: Ctx):
    cases = all_cases(ctx.tier)
    budget = BUDGET[ctx.tier]
    if budget < len(cases):
        # reduced --budget (development only): an evenly spread subset
        step = len(cases) / max(budget, 1)
        cases = [cases[int(i * step)] for i in range(budget)]
        ctx.col.extra['reduced_budget'] = True
    mine = [c for i, c in enumerate(cases) if i % ctx.nshards == ctx.shard]
    for k in range(0, len(mine), 16):
        chunk = mine[k:k + 16]
        for case, report in zip(chunk, _run_batch(chunk)):
            res = _judge(case, report)
            ctx.col.record(case, res)
            for v in ctx.col.filter_known(res.violations):
                ctx.col.add_violation(v, case)
