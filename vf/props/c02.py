"""C02 No task instance runs twice in a flow; retries are bounded."""
from __future__ import annotations

from hypothesis import strategies as st

from vf.core import CaseResult, Ctx, Violation, hyp_run
from vf.gen.wfspec import wfspecs
from vf.sim.drive import (
    SCase, outcome_for, outcome_maps, run_async, schedules)

PROP_ID = 'C02'
LEVEL = 'exploration'
BUDGET = {'quick': 420, 'thorough': 10000}
MANIFEST = {
    'engine': 'S',
    'technique': 'model-based PBT on the stepped scheduler: retry configs x '
                 'failing outcome sequences x duplicate/late events',
}
RULE = (
    'Generated workflow (as C01, no future/absolute triggers) with execution '
    'and submission retry delay lists of length 0-2 (PT0S) per task, outcome '
    'sequences per instance of up to 4 submissions (fail / submit-fail / '
    'submitted-then-vanished-from-the-job-runner (noticed only by poll; the '
    'drain of such cases polls every 3rd round) / succeed), schedules of <=50 steps over loop / return / advance / '
    'deliver / duplicate-deliver / user poll, then a fair drain.  Oracle per '
    'instance: launches <= (N+1)(M+1); submit numbers are 1..k without gap '
    'or repeat; launch k+1 only after job k has emitted failed or failed '
    'submission; at launch k+1 neither failed nor submit-failed of that '
    'instance is recorded complete; launches == 1 + number of leading jobs '
    'that failed with a retry remaining (model of the retry counters).  '
    'Non-trivial = a retry was consumed or a duplicate / late message or a '
    'poll result was delivered; distinct by the whole case.')
ASSUMPTIONS = [
    'Schedule domain: a job\'s final message (succeeded/failed) is never '
    'delivered before the jobs-submit command that launched it has returned '
    '("started" may overtake the submit callback).',
    'Retry delays are PT0S on the virtual clock (each clock read advances '
    '1 microsecond), so a lined-up retry is released on a following iteration.',
    'The submission retry counter restarts after a job starts (documented in '
    '_process_message_started), giving the (N+1)(M+1) bound of the statement.',
    'No manual intervention: only polls are issued.',
]


@st.composite
def cases(draw):
    spec = draw(wfspecs({'retries': True, 'future': False, 'abs': False,
                         'max_tasks': 5, 'max_fcp': 4}))
    outcomes = draw(outcome_maps(spec, max_subs=4))
    # bias: tasks with retries fail more often
    model_insts = [(t, p) for t in spec['retries']
                   for p in range(spec['icp'], spec['fcp'] + 1)]
    for (t, p) in model_insts:
        if draw(st.integers(0, 2)) == 0:
            n = draw(st.integers(1, 4))
            outcomes[f'{p}/{t}'] = [
                {'final': draw(st.sampled_from(
                    ['failed', 'failed', 'submit-fail', 'vanish', None]))}
                for _ in range(n)]
    sched = draw(schedules(50, ops=('loop', 'loop', 'ret', 'adv', 'del',
                                    'dup', 'poll')))
    case = {'spec': spec, 'outcomes': outcomes, 'schedule': sched}
    if any(oc.get('final') == 'vanish'
           for lst in outcomes.values() for oc in lst):
        # a job that disappears from the job runner without starting is
        # only ever noticed by a poll: the fair drain polls every 3rd round
        case['poll_every'] = 3
    return case


def check_case(case, ctx: Ctx) -> CaseResult:
    return run_async(_check(case, ctx))


def model_launches(spec, outcomes, t, p):
    """Number of submissions the retry counters allow for this outcome
    sequence, and whether failed / submit-failed is the final word."""
    r = spec.get('retries', {}).get(t) or {}
    N, M = r.get('exec', 0), r.get('submit', 0)
    e = s = 0
    k = 0
    while True:
        k += 1
        oc = outcome_for(outcomes, t, p, k)
        final = oc.get('final') or 'succeeded'
        if final in ('submit-fail', 'vanish'):
            if s < M:
                s += 1
                continue
            return k, 'submit-failed'
        s = 0   # job started
        if final == 'failed':
            if e < N:
                e += 1
                continue
            return k, 'failed'
        return k, 'succeeded'


async def _check(case, ctx: Ctx) -> CaseResult:
    spec, outcomes = case['spec'], case['outcomes']
    async with SCase(case, ctx) as sc:
        if sc.rejected:
            return CaseResult(sc.crash_violations('C02'), False,
                              ['rejected:' + sc.rejected])
        await sc.run_schedule()
        await sc.drain()
        viol = sc.crash_violations('C02')
        classes = []
        sim, to_int = sc.sim, sc.drv.to_int
        per = {}
        failure_emitted = set()
        dup_or_late = False
        for ev in sim.trace:
            k = ev['k']
            if k == 'emit':
                cyc, name, nn = ev['job'].split('/')
                if ev['msg'].startswith('failed'):
                    failure_emitted.add((name, cyc, int(nn)))
            elif k == 'deliver' and ev.get('dup'):
                dup_or_late = True
            elif k == 'cmd-poll':
                dup_or_late = True
            elif k == 'launch':
                key = (ev['name'], ev['cycle'])
                per.setdefault(key, []).append(ev)
        retried = False
        for (t, cyc), evs in per.items():
            p = to_int.get(cyc)
            r = spec.get('retries', {}).get(t) or {}
            N, M = r.get('exec', 0), r.get('submit', 0)
            nums = [e['submit_num'] for e in evs]
            if nums != list(range(1, len(nums) + 1)):
                viol.append(Violation(
                    'C02:submit-numbers-not-sequential',
                    f'{cyc}/{t}: submit numbers of successive launches {nums}'))
            if len(evs) > (N + 1) * (M + 1):
                viol.append(Violation(
                    'C02:more-than-(N+1)(M+1)-submissions',
                    f'{cyc}/{t}: {len(evs)} launches with N={N} M={M}'))
            if len(evs) > 1:
                retried = True
            for i, e in enumerate(evs[1:], start=1):
                prev_sn = evs[i - 1]['submit_num']
                job = sim.jobs.get((cyc, t, prev_sn))
                prev_failed = job is not None and (
                    not job.submit_ok or job.vanished
                    or (t, cyc, prev_sn) in failure_emitted)
                if not prev_failed:
                    viol.append(Violation(
                        'C02:resubmitted-without-failure',
                        f'{cyc}/{t}: job {e["submit_num"]:02d} launched but '
                        f'job {prev_sn:02d} had not failed'))
                for o in ('failed', 'submit-failed'):
                    if f'{cyc}/{t}:{o}' in e['done']:
                        viol.append(Violation(
                            f'C02:{o}-completed-while-retry-remained',
                            f'{cyc}/{t}: output {o} was recorded complete '
                            f'before retry job {e["submit_num"]:02d} launched'))
            if not sc.inconclusive and p is not None:
                want, final = model_launches(spec, outcomes, t, p)
                if len(evs) != want and not viol:
                    viol.append(Violation(
                        'C02:launch-count-differs-from-retry-model',
                        f'{cyc}/{t}: {len(evs)} launches, retry model says '
                        f'{want} (N={N}, M={M}, outcomes='
                        f'{outcomes.get(f"{p}/{t}")})'))
        if retried:
            classes.append('retry-consumed')
        if dup_or_late:
            classes.append('dup-or-poll')
        if any(e['k'] == 'deliver' and e.get('dup') for e in sim.trace):
            classes.append('duplicate-delivered')
        nontrivial = retried or dup_or_late
        return CaseResult(viol, nontrivial, classes,
                          inconclusive=sc.inconclusive,
                          info={'flow': sc.drv.flow_text})


def run_shard(ctx: Ctx):
    hyp_run(ctx, cases(), check_case, ctx.share(BUDGET[ctx.tier]))
