"""C18 Cycle point / interval algebra is a consistent total order.

Oracle: every generated point is built from numeric fields, so its value is
known independently of cylc: the integer itself, or the instant in minutes
computed with the harness' own calendar arithmetic (proleptic Gregorian,
360/365/366-day) and time-zone offset.  Cylc's comparison operators, hashes
of standardised points, standardise(), + and - are compared with that value;
result strings are parsed back by the harness' own regex parser.
"""
from __future__ import annotations

import re

from hypothesis import strategies as st

from vf.core import CaseResult, Ctx, Violation, hyp_run, exc_sig

PROP_ID = 'C18'
LEVEL = 'exploration'
BUDGET = {'quick': 8000, 'thorough': 160000}
RULE = (
    'Hypothesis draws one cycling set-up per case and 2-6 points + 1-3 '
    'fixed-length intervals in it. Integer (1/3 of cases): values in '
    '+-10**9 (small, clustered and huge), spelled canonically, zero-padded '
    '(007, -007) or with a plus sign (+5); intervals Pn, +Pn, -Pn, P00n. '
    'Datetime: calendar gregorian/360day/365day/366day, cycle point time '
    'zone Z, +0100, -0530, +1245 or UTC mode, 0 or 2 expanded year digits, '
    'default or extended dump format; points from (year, month, day, hour, '
    'minute, zone) fields clustered around month/year/leap-day boundaries, '
    'spelled basic, extended, hour-only, date-only, ordinal-date, week-date, '
    'with Z, +hh, +hhmm, +hh:mm or no zone (assumed); intervals PTnM, PTnH, '
    'PnD, PnW, PnDTnH, and their negatives. All ordered pairs are compared '
    '(twice: second pass answers from the lru caches) with <, <=, >, >=, ==, '
    '!= against the oracle value; standardise() must be idempotent and '
    'keep the value; equal standardised points must hash equal; (p+i)-i == '
    'p with the value of p (sums that leave years 0000-9999 without expanded '
    'year digits are out of domain; the value of p+i and point differences '
    'are recorded as observation classes only: the statement does not cover '
    'them). Non-trivial = '
    'two different spellings of one value, or points in two different zone '
    'spellings, or an addition crossing a month/year boundary; distinct by '
    'the whole case.')
ASSUMPTIONS = [
    'Hash equality is required of standardised points only (what the task '
    'pool uses as keys); raw spellings must only compare consistently.',
    'Datetime points have minute resolution (the default cycle point format '
    'keeps no seconds) and intervals are multiples of a minute.',
    'A point written without a time zone is in the configured cycle point '
    'time zone.',
    'Year 0000 exists and is a leap year (ISO 8601 proleptic Gregorian).',
    'The iso8601 lru caches are cleared when a case starts (init() '
    'parameters change between cases, never inside one); inside a case they '
    'are left alone.  A quarter of the datetime cases first compare the '
    'same point strings under a different calendar and then re-initialise '
    'WITHOUT clearing the caches (one process loading two workflows): the '
    'answers must be those of the calendar in force.',
]
MANIFEST = {'engine': 'P', 'technique': 'Hypothesis, independent calendar '
            'arithmetic oracle'}

CALS = ['gregorian', '360day', '365day', '366day']
ZONES = ['Z', '+0100', '-0530', '+1245', None]      # None = UTC mode
MONTH_DAYS = [31, 28, 31, 30, 31, 30, 31, 31, 30, 31, 30, 31]


# --------------------------------------------------------------------------
# independent calendar arithmetic
# --------------------------------------------------------------------------
def is_leap(y):
    return y % 4 == 0 and (y % 100 != 0 or y % 400 == 0)


def month_len(cal, y, m):
    if cal == '360day':
        return 30
    if m == 2:
        if cal == '366day':
            return 29
        if cal == '365day':
            return 28
        return 29 if is_leap(y) else 28
    return MONTH_DAYS[m - 1]


def year_len(cal, y):
    if cal == '360day':
        return 360
    if cal == '365day':
        return 365
    if cal == '366day':
        return 366
    return 366 if is_leap(y) else 365


def days_from_epoch(cal, y, m, d):
    """Days from 0000-01-01 of the calendar to y-m-d."""
    if cal == 'gregorian':
        # leap years in [a, b) = f(b - 1) - f(a - 1); year 0 is leap
        def f(n):
            return n // 4 - n // 100 + n // 400
        days = 365 * y + f(y - 1) - f(-1)
    else:
        days = year_len(cal, 0) * y
    for mm in range(1, m):
        days += month_len(cal, y, mm)
    return days + d - 1


def civil_from_days(cal, days):
    """Inverse of days_from_epoch -> (y, m, d)."""
    if cal == 'gregorian':
        y = days // 366            # lower bound, then walk up
        while days_from_epoch(cal, y + 1, 1, 1) <= days:
            y += 1
        while days_from_epoch(cal, y, 1, 1) > days:
            y -= 1
    else:
        y = days // year_len(cal, 0)
    rem = days - days_from_epoch(cal, y, 1, 1)
    m = 1
    while rem >= month_len(cal, y, m):
        rem -= month_len(cal, y, m)
        m += 1
    return y, m, rem + 1


def tz_minutes(tz):
    """'+0100' -> 60; 'Z' -> 0"""
    if tz in ('Z', None):
        return 0
    sign = -1 if tz[0] == '-' else 1
    digits = tz[1:].replace(':', '')
    h = int(digits[:2])
    mi = int(digits[2:4]) if len(digits) > 2 else 0
    return sign * (h * 60 + mi)


def instant(cal, y, m, d, h, mi, tzoff):
    return (days_from_epoch(cal, y, m, d) * 1440 + h * 60 + mi) - tzoff


def iso_weekdate(y, m, d):
    """Gregorian (y, m, d) -> ISO week date (wy, ww, wd); years 1..9999."""
    import datetime
    return tuple(datetime.date(y, m, d).isocalendar())


def fmt_year(y, xyd):
    if xyd:
        return ('-' if y < 0 else '+') + '%0*d' % (4 + xyd, abs(y))
    return '%04d' % y


def spell_point(pt, cal, xyd):
    """fields -> string in the requested spelling."""
    y, m, d, h, mi = pt['y'], pt['m'], pt['d'], pt['h'], pt['mi']
    sp = pt['sp']
    zone = pt['z']            # None (assumed) or zone string
    Y = fmt_year(y, xyd)
    zs = zone or ''
    if sp == 'ext':
        if zone and zone != 'Z' and len(zone) == 5:
            zs = zone[:3] + ':' + zone[3:]
        return f'{Y}-{m:02d}-{d:02d}T{h:02d}:{mi:02d}{zs}'
    if sp == 'hour':
        return f'{Y}{m:02d}{d:02d}T{h:02d}{zs}'
    if sp == 'date':
        return f'{Y}{m:02d}{d:02d}'
    if sp == 'ordinal':
        doy = days_from_epoch(cal, y, m, d) - days_from_epoch(cal, y, 1, 1) + 1
        return f'{Y}{doy:03d}T{h:02d}{mi:02d}{zs}'
    if sp == 'week':
        wy, ww, wd = iso_weekdate(y, m, d)
        return f'{fmt_year(wy, xyd)}W{ww:02d}{wd}T{h:02d}{mi:02d}{zs}'
    return f'{Y}{m:02d}{d:02d}T{h:02d}{mi:02d}{zs}'


RESULT_RE = re.compile(
    r'^([+-]?\d{4,})-?(\d\d)-?(\d\d)T(\d\d):?(\d\d)'
    r'(Z|[+-]\d\d(?::?\d\d)?)$')


def parse_result(s, cal):
    """Instant of a dumped point string, or None if not in dump format."""
    mo = RESULT_RE.match(s)
    if not mo:
        return None
    y, m, d, h, mi = (int(mo[i]) for i in range(1, 6))
    if not (1 <= m <= 12 and 1 <= d <= month_len(cal, y, m)
            and h < 24 and mi < 60):
        return None
    return instant(cal, y, m, d, h, mi, tz_minutes(mo[6]))


IV_RE = re.compile(r'^([+-]?)P(?:(\d+)W)?(?:(\d+)D)?(?:T(?:(\d+)H)?(?:(\d+)M)?)?$')


def interval_minutes(s):
    mo = IV_RE.match(s)
    sign = -1 if mo[1] == '-' else 1
    w, d, h, mi = (int(x) if x else 0 for x in mo.groups()[1:])
    return sign * (((w * 7 + d) * 24 + h) * 60 + mi)


# --------------------------------------------------------------------------
# strategies
# --------------------------------------------------------------------------
@st.composite
def int_cases(draw):
    base = draw(st.sampled_from([0, 0, 5, 100, 10 ** 9 - 3, -(10 ** 9)]))
    vals = draw(st.lists(
        st.one_of(st.integers(-3, 3).map(lambda x: base + x),
                  st.integers(-10 ** 9, 10 ** 9)),
        min_size=2, max_size=6))
    if draw(st.booleans()):
        vals.append(vals[0])        # same value twice (other spelling)
    pts = []
    for v in vals:
        sp = draw(st.sampled_from(['c', 'c', 'pad', 'plus']))
        if sp == 'pad':
            s = ('-' if v < 0 else '') + '00' + str(abs(v))
        elif sp == 'plus' and v >= 0:
            s = '+' + str(v)
        else:
            s = str(v)
        pts.append({'v': v, 's': s})
    ivs = []
    for _ in range(draw(st.integers(1, 3))):
        n = draw(st.one_of(st.integers(0, 5), st.integers(0, 10 ** 9)))
        sp = draw(st.sampled_from(['P%d', '+P%d', '-P%d', 'P00%d']))
        ivs.append(sp % n)
    return {'mode': 'integer', 'pts': pts, 'ivs': ivs}


@st.composite
def iso_cases(draw):
    cal = draw(st.sampled_from(CALS))
    tz = draw(st.sampled_from(ZONES))
    xyd = draw(st.sampled_from([0, 0, 2]))
    ext_fmt = draw(st.integers(0, 4)) == 0
    # an anchor near a boundary; points cluster around it
    if xyd:
        y0 = draw(st.sampled_from([2000, 0, -1, -4, 9999, 10000, -12345,
                                   123456]))
    else:
        y0 = draw(st.sampled_from([2000, 1999, 2001, 1900, 2100, 2024, 4,
                                   1, 9998]))
    anchor = draw(st.sampled_from(
        [(1, 1), (12, 31), (2, 28), (3, 1), (2, 29), (6, 30), (2, 30)]))
    n = draw(st.integers(2, 5))
    pts = []
    for i in range(n):
        y = y0 + draw(st.sampled_from([0, 0, 0, 1, -1]))
        if draw(st.integers(0, 3)) > 0:
            m, d = anchor
            if draw(st.booleans()):
                d += draw(st.integers(-1, 1))
        else:
            m, d = draw(st.integers(1, 12)), draw(st.integers(1, 31))
        if d < 1:
            m, d = (m - 1 or 12), 31
        d = min(d, month_len(cal, y, m))
        h = draw(st.sampled_from([0, 0, 23, 12, 1, 6]))
        mi = draw(st.sampled_from([0, 0, 0, 30, 59, 15]))
        z = draw(st.sampled_from([None, None, 'Z', '+0100', '-0530',
                                  '+1245', '+01', '-11', '+0000']))
        sps = ['basic', 'basic', 'ext']
        if mi == 0:
            sps.append('hour')
        if mi == 0 and h == 0 and z is None:
            sps.append('date')
        if cal == 'gregorian' and 1 <= y <= 9998:
            sps += ['ordinal', 'week']
        pts.append({'y': y, 'm': m, 'd': d, 'h': h, 'mi': mi, 'z': z,
                    'sp': draw(st.sampled_from(sps))})
    # a second spelling of an existing instant (other zone / other form)
    if draw(st.integers(0, 2)) > 0:
        src = pts[draw(st.integers(0, len(pts) - 1))]
        assumed = tz_minutes(tz)
        inst = instant(cal, src['y'], src['m'], src['d'], src['h'],
                       src['mi'],
                       assumed if src['z'] is None else tz_minutes(src['z']))
        z = draw(st.sampled_from(['Z', '+0100', '-0530', '+1245', '-11']))
        loc = inst + tz_minutes(z)
        y, m, d = civil_from_days(cal, loc // 1440)
        rest = loc % 1440
        if (not xyd and not 0 <= y <= 9999):
            pass
        else:
            pts.append({'y': y, 'm': m, 'd': d, 'h': rest // 60,
                        'mi': rest % 60, 'z': z,
                        'sp': draw(st.sampled_from(['basic', 'ext']))})
    ivs = []
    for _ in range(draw(st.integers(1, 3))):
        kind = draw(st.sampled_from(['PT%dM', 'PT%dH', 'P%dD', 'P%dW',
                                     'P%dDT%dH', 'PT%dH%dM']))
        a = draw(st.sampled_from([1, 1, 2, 6, 12, 24, 30, 36, 59, 60, 90,
                                  365, 366, 400]))
        b = draw(st.integers(1, 23))
        s = kind % ((a, b) if kind.count('%') == 2 else a)
        if draw(st.integers(0, 3)) == 0:
            s = '-' + s
        ivs.append(s)
    case = {'mode': 'iso', 'cal': cal, 'tz': tz, 'xyd': xyd,
            'ext_fmt': ext_fmt, 'pts': pts, 'ivs': ivs}
    if draw(st.integers(0, 3)) == 0:
        # the process worked in another calendar before (same points
        # compared there, caches kept): nothing of that may leak
        case['warm_cal'] = draw(st.sampled_from(
            [c for c in CALS if c != cal]))
    return case


def cases():
    return st.one_of(int_cases(), iso_cases(), iso_cases())


# --------------------------------------------------------------------------
# check
# --------------------------------------------------------------------------
OPS = [('<', lambda a, b: a < b), ('<=', lambda a, b: a <= b),
       ('>', lambda a, b: a > b), ('>=', lambda a, b: a >= b),
       ('==', lambda a, b: a == b), ('!=', lambda a, b: a != b)]


def _clear_iso_caches():
    from cylc.flow.cycling import iso8601
    for holder in (iso8601, iso8601.ISO8601Point, iso8601.ISO8601Interval):
        for name in dir(holder):
            obj = getattr(holder, name)
            if hasattr(obj, 'cache_clear'):
                obj.cache_clear()


ORDINAL_SIG = 'C18:iso:ordinal-or-week-date-spelling-mishandled'


def check_case(case, ctx: Ctx) -> CaseResult:
    if case['mode'] == 'integer':
        return _check_integer(case, ctx)
    res = _guarded_iso(case, ctx)
    if res.violations and any(
            pt['sp'] in ('ordinal', 'week') for pt in case['pts']):
        # differential: the same instants written as plain calendar dates
        import copy
        twin = copy.deepcopy(case)
        for pt in twin['pts']:
            if pt['sp'] in ('ordinal', 'week'):
                pt['sp'] = 'basic'
        res2 = _guarded_iso(twin, ctx)
        if not res2.violations:
            v = res.violations[0]
            res.violations = [Violation(
                ORDINAL_SIG,
                f'[{v.sig}] {v.detail} -- holds when the same points are '
                f'written as calendar dates')]
    return res


def _pairs(viol, label, objs, vals, names):
    """Compare all ordered pairs with all operators (two passes)."""
    for pas in (1, 2):
        for i, a in enumerate(objs):
            for j, b in enumerate(objs):
                for op, fn in OPS:
                    try:
                        got = fn(a, b)
                    except Exception as exc:
                        viol.append(Violation(
                            f'C18:{label}:compare-crash:{exc_sig(exc)}',
                            f'{names[i]!r} {op} {names[j]!r} raised {exc!r}'))
                        return
                    want = fn(vals[i], vals[j])
                    if got is not want:
                        viol.append(Violation(
                            f'C18:{label}:order:{op}',
                            f'{names[i]!r} {op} {names[j]!r} -> {got!r} '
                            f'(pass {pas}); values {vals[i]} and {vals[j]} '
                            f'so expected {want}'))
                        return


def _check_integer(case, ctx):
    from cylc.flow.cycling.integer import IntegerPoint, IntegerInterval
    viol = []
    names = [p['s'] for p in case['pts']]
    vals = [p['v'] for p in case['pts']]
    pts = [IntegerPoint(s) for s in names]
    classes = ['integer']
    respelled = any(vals[i] == vals[j] and names[i] != names[j]
                    for i in range(len(vals)) for j in range(i))
    if respelled:
        classes.append('two-spellings-of-one-value')
    if any(s != str(v) for s, v in zip(names, vals)):
        classes.append('non-canonical-spelling')
    _pairs(viol, 'integer', pts, vals, names)
    # standardise
    stds = []
    for s, v in zip(names, vals):
        p = IntegerPoint(s)
        r = p.standardise()
        first = p.value
        p.standardise()
        if r is not p or first != str(v) or p.value != first:
            viol.append(Violation(
                'C18:integer:standardise',
                f'IntegerPoint({s!r}).standardise() -> {first!r}, again -> '
                f'{p.value!r}; expected {str(v)!r} both times'))
            break
        stds.append(p)
    else:
        for i, a in enumerate(stds):
            for j, b in enumerate(stds):
                if vals[i] == vals[j] and hash(a) != hash(b):
                    viol.append(Violation(
                        'C18:integer:hash',
                        f'standardised {names[i]!r} and {names[j]!r} are '
                        f'equal but hash differently'))
    # intervals
    ivals = [int(s.replace('P', '')) for s in case['ivs']]
    ivs = [IntegerInterval(s) for s in case['ivs']]
    _pairs(viol, 'integer-interval', ivs, ivals, case['ivs'])
    for p, v, s in zip(pts, vals, names):
        for iv, n, isr in zip(ivs, ivals, case['ivs']):
            try:
                q = p + iv
                back = q - iv
                diff = q - p
                d2 = p - (p - iv)
                # the statement: adding then subtracting returns the point
                ok = (back == p and int(back) == v)
            except Exception as exc:
                viol.append(Violation(
                    f'C18:integer:arith-crash:{exc_sig(exc)}',
                    f'{s!r} with {isr!r}: {exc!r}'))
                continue
            if not ok:
                viol.append(Violation(
                    'C18:integer:arith',
                    f'p={s!r} i={isr!r}: p+i={q}, (p+i)-i={back}, '
                    f'(p+i)-p={diff}, p-(p-i)={d2}; expected {v + n}, {v}, '
                    f'P{n}, P{n}'))
    return CaseResult(_dedupe(viol), respelled, classes)


def _dedupe(viol):
    out = []
    for v in viol:
        if not any(o.sig == v.sig for o in out):
            out.append(v)
    return out


def _guarded_iso(case, ctx):
    """_check_iso; an exception raised from inside cylc.flow on a generated
    (valid) point is a crash violation, anything else a harness error."""
    try:
        return _check_iso(case, ctx)
    except Exception as exc:
        sig = exc_sig(exc)
        if sig.endswith('@?'):
            raise
        return CaseResult([Violation(
            f'C18:iso:crash:{sig}', f'{exc!r} on {case}')], False, ['iso'])


def _representable(cal, v, assumed):
    """Instant v (minutes) falls in years 0000..9999 of the local zone,
    with a day of margin."""
    lo = days_from_epoch(cal, 0, 1, 2) * 1440
    hi = days_from_epoch(cal, 9999, 12, 29) * 1440
    return lo <= v + assumed <= hi


def _check_iso(case, ctx):
    from cylc.flow.cycling import iso8601
    from cylc.flow.cycling.iso8601 import ISO8601Point, ISO8601Interval
    from cylc.flow.exceptions import PointParsingError
    cal, tz, xyd = case['cal'], case['tz'], case['xyd']
    _clear_iso_caches()
    kw = dict(num_expanded_year_digits=xyd, cycling_mode=cal)
    if tz is None:
        kw['assume_utc'] = True
    else:
        kw['time_zone'] = tz
    if case.get('ext_fmt'):
        # an extended-format dump needs the extended zone form (+hh:mm)
        ztxt = tz or 'Z'
        if len(ztxt) == 5:
            ztxt = ztxt[:3] + ':' + ztxt[3:]
        kw['custom_dump_format'] = (
            ('+X' if xyd else '') + 'CCYY-MM-DDThh:mm' + ztxt)
    classes = ['iso', 'cal:' + cal, 'tz:' + str(tz), f'xyd:{xyd}']
    if case.get('warm_cal'):
        classes.append('other-calendar-used-before-in-process')
        iso8601.init(**dict(kw, cycling_mode=case['warm_cal']))
        warm = []
        for pt in case['pts']:
            try:
                warm.append(ISO8601Point(spell_point(pt, cal, xyd)))
            except Exception:    # noqa: BLE001 (a date the other calendar lacks)
                pass
        for a in warm:
            for b in warm:
                try:
                    a < b, a == b, a.standardise()
                except Exception:    # noqa: BLE001
                    pass
    iso8601.init(**kw)
    assumed = tz_minutes(tz)
    if case.get('ext_fmt'):
        classes.append('custom-dump-format')
    viol = []
    names, vals = [], []
    for pt in case['pts']:
        names.append(spell_point(pt, cal, xyd))
        vals.append(instant(cal, pt['y'], pt['m'], pt['d'], pt['h'],
                            pt['mi'], assumed if pt['z'] is None
                            else tz_minutes(pt['z'])))
        classes.append('spelling:' + pt['sp'])
    respelled = any(vals[i] == vals[j] and names[i] != names[j]
                    for i in range(len(vals)) for j in range(i))
    zones = {pt['z'] for pt in case['pts']}
    if respelled:
        classes.append('two-spellings-of-one-value')
    if len(zones) > 1:
        classes.append('mixed-zones')
    if not xyd and not all(_representable(cal, v, assumed) and
                           _representable(cal, v, 0) for v in vals):
        # within a day of year 0000 / 9999: a zone shift leaves the range
        # that can be written without expanded year digits - out of domain
        return CaseResult([], False, classes + ['out-of-domain:year-range'])
    pts = [ISO8601Point(s) for s in names]
    # every generated spelling must be accepted
    for s in names:
        try:
            ISO8601Point(s).standardise()
        except PointParsingError as exc:
            viol.append(Violation(
                'C18:iso:valid-point-rejected',
                f'ISO8601Point({s!r}).standardise() under {kw}: {exc}'))
            return CaseResult(viol, False, classes)
    _pairs(viol, 'iso', pts, vals, names)
    # standardise: idempotent, value preserving, canonical for hashing
    stds = []
    for s, v in zip(names, vals):
        p = ISO8601Point(s)
        p.standardise()
        first = p.value
        p.standardise()
        got = parse_result(first, cal)
        if p.value != first or got != v:
            viol.append(Violation(
                'C18:iso:standardise',
                f'ISO8601Point({s!r}).standardise() -> {first!r} (instant '
                f'{got}), again -> {p.value!r}; expected instant {v} under '
                f'{kw}'))
            break
        stds.append(p)
    else:
        for i, a in enumerate(stds):
            for j, b in enumerate(stds):
                if vals[i] == vals[j] and (hash(a) != hash(b) or a != b):
                    viol.append(Violation(
                        'C18:iso:hash',
                        f'standardised {names[i]!r} -> {a.value!r} and '
                        f'{names[j]!r} -> {b.value!r} denote one instant but '
                        f'hash/compare differently'))
    # intervals
    ivals = [interval_minutes(s) for s in case['ivs']]
    ivs = [ISO8601Interval(s) for s in case['ivs']]
    _pairs(viol, 'iso-interval', ivs, ivals, case['ivs'])
    crossed = False
    obs = set()
    for p, v, s in zip(pts, vals, names):
        for iv, n, isr in zip(ivs, ivals, case['ivs']):
            if not xyd and not _representable(cal, v + n, assumed):
                # the sum lies outside years 0000-9999, which cannot be
                # written without expanded year digits: out of domain
                classes.append('sum-out-of-year-range')
                continue
            try:
                q = p + iv
                qv = parse_result(ISO8601Point(q.value).standardise().value,
                                  cal)
                back = q - iv
                bv = parse_result(
                    ISO8601Point(back.value).standardise().value, cal)
                # the statement: adding then subtracting returns the point
                ok = (bv == v and back == p)
                # beyond the statement (recorded, never a violation)
                if qv != v + n:
                    obs.add('observation:sum-value-differs')
                try:
                    if (q - p) != iv or (p - (p - iv)) != iv:
                        obs.add('observation:point-difference-differs')
                except Exception:
                    obs.add('observation:point-difference-raises')
            except Exception as exc:
                viol.append(Violation(
                    f'C18:iso:arith-crash:{exc_sig(exc)}',
                    f'{s!r} with {isr!r} under {kw}: {exc!r}'))
                continue
            if qv is not None and v // 1440 != qv // 1440:
                a = civil_from_days(cal, (v + assumed) // 1440)
                b = civil_from_days(cal, (qv + assumed) // 1440)
                if a[:2] != b[:2]:
                    crossed = True
            if not ok:
                viol.append(Violation(
                    'C18:iso:arith',
                    f'p={s!r} i={isr!r} under {kw}: p+i={q} (instant {qv}), '
                    f'(p+i)-i={back} (instant {bv}, expected {v} = the '
                    f'original point)'))
    classes.extend(sorted(obs))
    if crossed:
        classes.append('crosses-month-or-year')
    nontrivial = respelled or len(zones) > 1 or crossed
    return CaseResult(_dedupe(viol), nontrivial, classes)


def run_shard(ctx: Ctx):
    hyp_run(ctx, cases(), check_case, ctx.share(BUDGET[ctx.tier]))
