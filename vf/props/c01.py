"""C01 Graph-faithful execution: exactly the graph-implied instances run."""
from __future__ import annotations

from hypothesis import strategies as st

from vf.core import CaseResult, Ctx, Violation, exc_sig, hyp_run
from vf.gen.wfspec import atoms_of, render_flow, wfspecs
from vf.sim.drive import (
    Driver, heard_result_of, outcome_maps, run_async, schedules)
from vf.sim.model import Model

PROP_ID = 'C01'
LEVEL = 'exploration'
BUDGET = {'quick': 480, 'thorough': 12000}
MANIFEST = {
    'engine': 'S',
    'technique': 'model-based PBT: generated workflow x outcome assignment x '
                 'event schedule on the real scheduler vs. reference closure',
}
RULE = (
    'Hypothesis draws a workflow AST (2-6 tasks from a substring-colliding '
    'name pool, 1-3 graph sections with recurrences P1/P2/P3/+Pn/Pk/R1/R1/$/'
    'R1/<pt>/exclusions, AND/OR/parenthesised trigger trees over succeeded/'
    'failed/started/submitted/submit-failed/finished/custom outputs with '
    'negative, future and absolute offsets, optional-output declarations; '
    'integer or datetime cycling), an outcome assignment (fail / omit custom '
    'output / submit-fail exceptions) and a schedule of <=40 steps (loop / '
    'return command / advance job / deliver message) followed by a fair '
    'drain; the real Scheduler runs it on the virtual cluster. Oracle: every '
    'launch is of a valid instance whose model prerequisite is true over '
    'outputs the scheduler has recorded so far; when every finished task is '
    'model-complete the launched set equals the model closure and the '
    'scheduler shut down by itself. Non-trivial = spec has >=1 '
    'of {OR, inter-cycle offset, optional output taken, custom output} and '
    '>=2 cycle points and >=3 jobs launched; distinct by (spec, outcomes, '
    'schedule).')
ASSUMPTIONS = [
    'Schedule domain: a job\'s final message (succeeded/failed) is never '
    'delivered before the jobs-submit command that launched it has returned '
    '("started" may overtake the submit callback).',
    'Suicide triggers, xtriggers, flow=none, manual commands, retries and '
    'unparenthesised and/or mixes are outside this profile.',
    'Atoms whose upstream instance is off-sequence are repaired away by the '
    'generator (cylc accepts them and treats them as never satisfiable).',
    'Instances whose prerequisites are true only through pre-initial atoms '
    'inside an OR while no real upstream output spawned them are ambiguous '
    'under the statement: such cases skip the set-equality clause.',
    'The ZMQ server is stubbed; messages enter through Scheduler.message_queue.',
    'The reference closure counts a custom output only if its message was '
    'processed while the task was in the pool (a message delivered after '
    '"succeeded" completed and removed the task is undeliverable by design).',
]


@st.composite
def cases(draw):
    spec = draw(wfspecs({'families': True}))
    outcomes = draw(outcome_maps(spec))
    sched = draw(schedules(40))
    return {'spec': spec, 'outcomes': outcomes, 'schedule': sched}


def check_case(case, ctx: Ctx) -> CaseResult:
    return run_async(_check(case, ctx))


async def _check(case, ctx: Ctx) -> CaseResult:
    from cylc.flow.exceptions import CylcError
    from cylc.flow.parsec.exceptions import ParsecError
    spec, outcomes = case['spec'], case['outcomes']
    model = Model(spec)
    viol = []
    classes = []
    drv = Driver(spec, outcomes, ctx)
    sim = drv.sim
    try:
        try:
            await drv.start()
        except (CylcError, ParsecError) as exc:
            ctx.col.rejected += 1
            return CaseResult([], False, ['rejected:' + type(exc).__name__])
        if sim.crashed is not None or not sim.running:
            exc = sim.crashed or sim.shutdown_reason
            if isinstance(exc, (CylcError, ParsecError)) and sim.iteration == 0:
                ctx.col.rejected += 1
                return CaseResult([], False, ['rejected:' + type(exc).__name__])
        for op, n in case['schedule']:
            if not sim.running:
                break
            await drv.step(op, n)
        shut, quiescent = await drv.drain()
        inconclusive = not shut and not quiescent
        viol += oracle(spec, outcomes, model, drv, shut, quiescent, classes)
        launches = drv.launches()
        feat = spec_features(spec)
        classes += feat
        if any(oc.get('final') == 'failed'
               for lst in outcomes.values() for oc in lst):
            classes.append('outcome-fail')
        nontrivial = (
            bool({'or', 'offset', 'custom', 'optional-taken'} & set(classes))
            and spec['fcp'] - spec['icp'] >= 1 and len(launches) >= 3)
        if 'optional-taken' not in classes and 'or' not in feat and \
                'offset' not in feat and 'custom' not in feat:
            nontrivial = False
        return CaseResult(
            viol, nontrivial, classes, inconclusive=inconclusive,
            info={'flow': drv.flow_text, 'launched': len(launches)})
    finally:
        await sim.force_stop()
        sim.cleanup()


def spec_features(spec):
    f = set()
    for sec in spec['sections']:
        for ln in sec['lines']:
            tr = ln['lhs']
            if tr is None:
                continue
            stack = [tr]
            while stack:
                n = stack.pop()
                if 'op' in n:
                    if 'fam' in n:
                        f.add('family-trigger')
                    if n['op'] == '|':
                        f.add('or')
                    stack += n['args']
                else:
                    if n.get('abs') is not None:
                        f.add('absolute')
                    elif (n.get('off') or 0) < 0:
                        f.add('offset')
                    elif (n.get('off') or 0) > 0:
                        f.add('future')
                    if n['out'] not in ('succeeded', 'failed', 'started',
                                        'submitted', 'submit-failed',
                                        'finished'):
                        f.add('custom')
    if len(spec['sections']) > 1:
        f.add('multi-section')
    if spec['mode'] == 'datetime':
        f.add('datetime')
    return sorted(f)


def oracle(spec, outcomes, model: Model, drv: Driver, shut, quiescent, classes,
           prop='C01'):
    viol = []
    sim = drv.sim
    to_int = drv.to_int
    # scheduler crash
    from cylc.flow.scheduler import SchedulerStop
    reason = sim.shutdown_reason
    if sim.crashed is not None or (
            reason is not None and not isinstance(reason, SchedulerStop)):
        exc = sim.crashed or reason
        viol.append(Violation(
            f'{prop}:scheduler-crash:' + exc_sig(exc),
            f'scheduler aborted with {exc!r}'))
        return viol

    # outputs whose message arrived after the task had completed and left
    # the pool were never produced as far as the scheduler can tell
    result_of, unheard = heard_result_of(sim, spec, outcomes, drv.to_str)
    if unheard:
        classes.append('output-message-after-task-left-pool')

    # (a) each launch: valid instance, prerequisites true over recorded outputs
    seen = {}
    for ev in sim.trace:
        if ev['k'] != 'launch':
            continue
        t, p, sn = ev['name'], to_int.get(ev['cycle']), ev['submit_num']
        if p is None or not model.is_valid(t, p):
            viol.append(Violation(
                f'{prop}:launch-off-sequence',
                f'{ev["cycle"]}/{t} launched but is not on any of its '
                f'sequences within [ICP, FCP]'))
            continue
        done = {}
        for s in ev['done']:
            inst, out = s.rsplit(':', 1)
            cyc, name = inst.split('/', 1)
            q = to_int.get(cyc)
            done.setdefault((name, q), set()).add(out)
        if not model.prereq(t, p, done):
            viol.append(Violation(
                f'{prop}:launch-before-prerequisites',
                f'{ev["cycle"]}/{t} launched while its graph prerequisite is '
                f'false over outputs recorded complete: {sorted(ev["done"])}'))
        seen[(t, p)] = seen.get((t, p), 0) + 1
        if seen[(t, p)] > 1:
            viol.append(Violation(
                f'{prop}:launched-twice',
                f'{ev["cycle"]}/{t} launched {seen[(t, p)]} times without '
                f'retries configured'))
    # (b) closure equality when all finished tasks are complete
    ran, done, ambiguous = model.closure(result_of)
    all_complete = all(model.complete(t, done[(t, p)]) for (t, p) in ran)
    if any('failed' in done[i] or 'submit-failed' in done[i] for i in ran):
        classes.append('optional-taken')
    if ambiguous:
        classes.append('ambiguous-preinitial')
    if not all_complete:
        classes.append('incomplete-outcome')
    # instances the model leaves waiting forever with unsatisfied
    # prerequisites (spawned by an upstream output, or parentless with an
    # unsatisfied absolute prerequisite): the scheduler legitimately stalls
    waiters = []
    for (t, p) in model.instances():
        if (t, p) in ran or model.prereq(t, p, done):
            continue
        if model.parentless(t, p) or any(
                o in done.get((u, q), ())
                for (u, q, o) in model.real_atoms(t, p)):
            waiters.append((t, p))
    if waiters:
        classes.append('model-waiters')
    if all_complete and not ambiguous:
        classes.append('all-complete')
        launched = set(seen)
        if not shut and not quiescent:
            return viol     # inconclusive (cap hit)

        # Known findings (three shapes, two root causes) are recognised by
        # construction: an instance of a known shape that the scheduler never
        # spawned is taken out of the reference closure together with
        # everything that only it leads to; whatever difference remains
        # between that closure and the launched set is reported as an
        # ordinary violation.
        def atom_hit(a, p, done_k):
            q = a['abs'] if a.get('abs') is not None else p + (
                a.get('off') or 0)
            outs = done_k.get((a['t'], q), ())
            return q, any(o in outs for o in (
                ['succeeded', 'failed'] if a['out'] == 'finished'
                else [a['out']]))

        def known_shape(t, p, done_k):
            atoms = [a for tr in model.trees_at(t, p) for a in atoms_of(tr)]
            later = any(q < p for q in model.valid[t])
            # 1. a parentless instance that follows (on the same task) a
            # point at which the task is parented and never spawned
            if model.parentless(t, p) and any(
                    q < p and (t, q) not in launched
                    and not model.parentless(t, q)
                    for q in model.valid[t]):
                return 'parentless-point-after-unspawned-parented-point'
            # 2. only absolute parents at/after the start point plus a
            # pre-initial (ignored) regular one; not the first instance
            # (the first instance is spawned by the absolute output as its
            # first child - unless that output never completes, while the
            # prerequisite is true through the pre-initial atom)
            if (model.parentless(t, p)
                    and any(a.get('abs') is not None for a in atoms)
                    and any(a.get('abs') is None for a in atoms)
                    and (later or not any(
                        atom_hit(a, p, done_k)[1] for a in atoms
                        if a.get('abs') is not None))):
                return 'absolute-plus-preinitial-parents-not-first-child'
            # 3. not parentless (regular parents at/after the start point);
            # prerequisite true through a completed absolute trigger while
            # no regular parent produced an output that would spawn it
            if not model.parentless(t, p) and later:
                abs_done = reg_done = False
                for a in atoms:
                    q, hit = atom_hit(a, p, done_k)
                    if a.get('abs') is not None:
                        abs_done = abs_done or hit
                    elif q >= model.start:
                        reg_done = reg_done or hit
                if abs_done and not reg_done:
                    return ('absolute-parent-done-other-parents-silent-'
                            'not-first-child')
            return None

        never = {}
        ran_k, done_k = ran, done
        for _round in range(12):
            roots = {}
            for (t, p) in sorted(ran_k - launched):
                shape = known_shape(t, p, done_k)
                if shape:
                    roots[(t, p)] = shape
            if not roots:
                break
            never.update(roots)
            ran_k, done_k, _amb = model.closure(result_of, never=set(never))
        for shape in sorted(set(never.values())):
            insts = sorted(i for i, sh in never.items() if sh == shape)
            viol.append(Violation(
                f'{prop}:missing-run:{shape}',
                f'never spawned: {insts}; all instances of the original '
                f'closure that did not run: {sorted(ran - launched)}'))
        extra = launched - ran_k
        missing = ran_k - launched
        if extra:
            viol.append(Violation(
                f'{prop}:extra-run',
                f'instances launched that are not in the model closure: '
                f'{sorted(extra)}'))
        if missing:
            viol.append(Violation(
                f'{prop}:missing-run',
                f'instances in the model closure never launched: '
                f'{sorted(missing)} (shutdown={shut}, reason={reason!r}'
                + (f'; closure taken without the known-shape instances '
                   f'{sorted(never)}' if never else '') + ')'))
        if never:
            # waiting tasks left behind by the unspawned instances
            waiters = []
            for (t, p) in model.instances():
                if (t, p) in ran_k or (t, p) in never:
                    continue
                if model.prereq(t, p, done_k):
                    continue
                if model.parentless(t, p) or any(
                        o in done_k.get((u, q), ())
                        for (u, q, o) in model.real_atoms(t, p)):
                    waiters.append((t, p))
        if waiters:
            pass
        elif not shut:
            viol.append(Violation(
                f'{prop}:no-auto-shutdown',
                'all tasks complete but the scheduler did not shut down by '
                'itself (quiescent)'))
    return viol


def run_shard(ctx: Ctx):
    hyp_run(ctx, cases(), check_case, ctx.share(BUDGET[ctx.tier]))
