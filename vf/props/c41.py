"""C41 Literal task environment values reach the job unchanged.

The real JobFileWriter._write_runtime_environment output for a generated
[environment] section is sourced by a real bash (set -euo pipefail as in
etc/job.sh), the function is called, and the *exported* environment
(names from `compgen -e`, values NUL separated) is compared with the configured values.
"""
from __future__ import annotations

import io
import os
import re
import subprocess
from collections import OrderedDict
from types import SimpleNamespace

from hypothesis import strategies as st

from vf.core import CaseResult, Ctx, Violation, hyp_run

PROP_ID = 'C41'
LEVEL = 'exploration'
BUDGET = {'quick': 1600, 'thorough': 80000}
RULE = (
    'Hypothesis draws 1-6 variables (legal names that are not bash special '
    'variables) with values built from parts: literal text over printable '
    'ASCII without $ ` \\ " ! (incl. space, tab, single quote, #, =, ;, &, |, '
    '*, ?, (, ), <, >, {, }, [, ], %, ~ in non-leading position) and unicode '
    '(é ü 日 😀 nbsp) and newline; optional leading tilde prefix (~, ~root, ~nosuchuser, '
    '~+, ~-) followed by nothing, /tail or whitespace+tail; references '
    '$NAME / ${NAME} to EARLIER variables. The function text written by the '
    'real _write_runtime_environment is sourced by bash -euo pipefail and '
    'the exported variables (compgen -e) are read back. Oracle: value == configured string (literal class); '
    '== bash\'s own expansion of the tilde prefix (printed by the same bash '
    'process) + literal tail (tilde class; for "~user<space>tail" the '
    'literal is accepted as well); references replaced by the expected value '
    'of the earlier variable. Non-trivial = some value needs quoting (has a '
    'character outside [A-Za-z0-9_./-]) or has a tilde prefix or a '
    'reference; distinct by the variable list.')
ASSUMPTIONS = [
    '"No shell-expansion characters" = none of $ ` \\ " ! (DESIGN 5a); a '
    'leading ~ / ~user prefix is shell-active by cylc\'s documented design '
    'and is compared with bash\'s own expansion of that prefix.',
    'Leading-tilde values whose prefix is directly followed by a shell '
    'metacharacter other than "/" or whitespace (e.g. "~a;b", "~a\'b") are '
    'outside the generated domain (no reading of the statement fixes their '
    'meaning).',
    'Control characters other than tab and newline are not generated; a '
    'newline inside a value (a multi-line, triple-quoted setting) must '
    'reach the job as is.  A value never starts or ends with a newline (the '
    'configuration parser strips those; observed outside the domain: the '
    '"$"-anchored tilde patterns drop one trailing newline of "~/x\\n").',
    'For a multi-line value with a leading tilde prefix both the expanded '
    'and the literal prefix are accepted.',
    'Values are passed as job_conf["environment"] (an ordered dict) as '
    'task_job_mgr does; the flow.cylc parser\'s own quoting rules are not '
    'part of this property.',
]
MANIFEST = {'engine': 'F', 'technique': 'generated env sections evaluated by real bash'}

SAFE_ASCII = [
    chr(c) for c in range(0x20, 0x7f) if chr(c) not in '$`\\"!']
UNI = ['é', 'ü', '日', '😀', ' ', '\t', '\n', '\n']
PLAIN = list('abcXYZ019_./-')
NAMES = ['v', 'v1', 'V_2', 'vFoo', 'v_bar', 'Q_x', 'Q_Y9', 'vv', 'v__',
         'VAR_A', 'VAR_B', 'Q_lower', 'vHOME', 'vPATH']
TILDE_USERS = ['', '', 'root', 'nosuchuserx', '+', '-', 'daemon']
HOME = '/h o/me'   # a HOME with a space: expansion result must not be split

_lit_char = st.one_of(
    st.sampled_from(SAFE_ASCII), st.sampled_from(SAFE_ASCII),
    st.sampled_from(PLAIN), st.sampled_from(UNI),
    st.sampled_from([' ', "'", '#', '=', '~', ';', '*', '%']))
_lit = st.lists(_lit_char, min_size=0, max_size=8).map(''.join)


@st.composite
def cases(draw):
    n = draw(st.integers(1, 6))
    names = draw(st.lists(st.sampled_from(NAMES), min_size=n, max_size=n,
                          unique=True))
    out = []
    for i, name in enumerate(names):
        parts = []
        kind = draw(st.integers(0, 9))
        if kind <= 2:
            user = draw(st.sampled_from(TILDE_USERS))
            follow = draw(st.sampled_from(['', '/', '/', '/', ' ', '\t']))
            parts.append(['tilde', user, follow])
            nparts = draw(st.integers(0, 2)) if follow else 0
        else:
            nparts = draw(st.integers(1, 3))
        for _ in range(nparts):
            if i > 0 and draw(st.integers(0, 2)) == 0:
                parts.append(['ref', draw(st.integers(0, i - 1)),
                              draw(st.booleans())])
            else:
                parts.append(['lit', draw(_lit)])
        # newlines only inside a value (a configured multi-line value never
        # starts or ends with one)
        for part in parts:
            if part[0] != 'lit':
                break
            part[1] = part[1].lstrip('\n')
            if part[1]:
                break
        for part in reversed(parts):
            if part[0] != 'lit':
                break
            part[1] = part[1].rstrip('\n')
            if part[1]:
                break
        out.append({'name': name, 'parts': parts})
    return {'vars': out, 'param_var': draw(st.integers(0, 5)) == 0}


def render(case):
    """-> [(name, value, [acceptable expected templates])] where expected
    templates are lists of pieces ('s', text) | ('t', user)."""
    names = [v['name'] for v in case['vars']]
    res = []
    exp_by_idx = []
    for v in case['vars']:
        parts = v['parts']
        value = ''
        alts = [[]]     # alternative expected piece lists
        open_ref = False   # an unbraced "$NAME" is at the end of value
        for p in parts:
            if p[0] == 'tilde':
                user, follow = p[1], p[2]
                value += '~' + user + follow
                if follow in (' ', '\t'):
                    alts = [[('s', '~' + user + follow)],
                            [('t', user), ('s', follow)]]
                else:
                    alts = [[('t', user), ('s', follow)]]
            elif p[0] == 'lit':
                text = p[1]
                if not value and text.startswith('~'):
                    text = 'x' + text      # leading tilde only via 'tilde'
                if open_ref and text and re.match(r'\w', text[0], re.A):
                    # "$NAME" must not run into a following word character
                    text = '.' + text
                if text:
                    open_ref = False
                value += text
                alts = [a + [('s', text)] for a in alts]
            else:
                idx, braces = p[1], p[2]
                ref = names[idx]
                value += '${%s}' % ref if braces else '$' + ref
                open_ref = not braces
                alts = [a + e for a in alts for e in exp_by_idx[idx]]
        if value == '':
            alts = [[('s', '')]]
        if parts and parts[0][0] == 'tilde' and '\n' in value:
            # a multi-line value with a leading tilde: nothing says whether
            # the prefix is expanded; both readings are accepted
            alts = alts + [
                [('s', '~' + x[1]) if x[0] == 't' and k == 0 else x
                 for k, x in enumerate(a)]
                for a in alts if a and a[0][0] == 't']
        exp_by_idx.append(alts)
        res.append((v['name'], value, alts))
    return res


# ------------------------------------------------------------- bash driver
# One long-lived bash per worker process evaluates the cases (process creation
# is by far the dominant cost on a loaded machine); a failing case is re-run
# in a one-shot bash.
_BASH = {'proc': None}
_ENV = {'HOME': HOME, 'PATH': '/usr/bin:/bin'}


def _oneshot(body, scratch):
    return subprocess.run(
        ['/bin/bash', '--noprofile', '--norc', '-c', body],
        env=_ENV, stdin=subprocess.DEVNULL, stdout=subprocess.PIPE,
        stderr=subprocess.PIPE, cwd=scratch)


def _run_bash(body, scratch, names):
    """Evaluate `body` in the long-lived bash, at top level (no process is
    forked).  Everything a case can define - the function and the variables
    named in `names` - is unset first.  `set -e/-u` failures kill that shell:
    then (or on any protocol problem) the case is re-run in a one-shot bash
    which gives the authoritative exit status and stderr."""
    try:
        proc = _BASH['proc']
        if proc is None or proc.poll() is not None or \
                _BASH.get('cwd') != scratch:
            if proc is not None and proc.poll() is None:
                proc.kill()
            proc = _BASH['proc'] = subprocess.Popen(
                ['/bin/bash', '--noprofile', '--norc'], env=_ENV,
                stdin=subprocess.PIPE, stdout=subprocess.PIPE,
                stderr=subprocess.DEVNULL, cwd=scratch)
            _BASH['cwd'] = scratch
            import atexit
            atexit.register(proc.kill)
        errf = os.path.join(scratch, f'c41-err-{os.getpid()}.txt')
        cmd = (
            f"exec 2>'{errf}'\n"
            'unset -f cylc__job__inst__user_env\n'
            'unset ' + ' '.join(sorted(set(NAMES) | set(names))) + '\n'
            + body +
            "printf '\\0C41END0\\0\\n'\n")
        proc.stdin.write(cmd.encode('utf-8'))
        proc.stdin.flush()
        buf = b''
        fd = proc.stdout.fileno()
        while True:
            end = buf.find(b'\0C41END')
            if end >= 0 and buf.endswith(b'\0\n'):
                break
            chunk = os.read(fd, 65536)
            if not chunk:
                raise EOFError('bash exited')
            buf += chunk
        with open(errf, 'rb') as f:
            err = f.read()
        return SimpleNamespace(returncode=0, stdout=buf[:end], stderr=err)
    except Exception:
        if _BASH['proc'] is not None:
            try:
                _BASH['proc'].kill()
                _BASH['proc'].wait()
            except Exception:
                pass
            _BASH['proc'] = None
        return _oneshot(body, scratch)


def check_case(case, ctx: Ctx) -> CaseResult:
    from cylc.flow.job_file import JobFileWriter
    rendered = render(case)
    env = OrderedDict((n, v) for n, v, _ in rendered)
    job_conf = {'environment': env}
    if case.get('param_var'):
        # parameter variables present; '%' is then a template character
        if any('%' in v for v in env.values()):
            job_conf['param_var'] = {}
        else:
            job_conf['param_var'] = {'i': '1', 'lang': 'en'}
    buf = io.StringIO()
    JobFileWriter._write_runtime_environment(buf, job_conf)
    text = buf.getvalue()
    fpath = os.path.join(ctx.scratch, f'c41-env-{os.getpid()}.sh')
    with open(fpath, 'w', encoding='utf-8') as f:
        f.write(text + '\n')
    users = sorted({p[1] for _, _, alts in rendered for a in alts
                    for p in a if p[0] == 't'})
    body = (
        'set -euo pipefail\n'
        f"source '{fpath}'\n"
        'cylc__job__inst__user_env\n'
        + ''.join(f"printf '%s\\0' ~{u}\n" for u in users)
        + "printf 'C41SEP\\0'\n"
        # the exported environment (names from `compgen -e`), NUL separated;
        # via a file so that no further process is forked
        f"compgen -e > '{fpath}.names'\n"
        'while read -r n; do if [[ -v $n ]]; then '
        'printf \'%s=%s\\0\' "$n" "${!n}"; fi; '
        f"done < '{fpath}.names'\n")
    for nm in env:
        if not re.fullmatch(r'[A-Za-z_][A-Za-z0-9_]*', nm):
            raise RuntimeError(f'harness: illegal variable name {nm!r}')
    proc = _run_bash(body, ctx.scratch, list(env))
    classes = set()
    has_tilde = any(p[0] == 'tilde' for v in case['vars'] for p in v['parts'])
    has_ref = any(p[0] == 'ref' for v in case['vars'] for p in v['parts'])
    needs_quote = any(re.search(r'[^A-Za-z0-9_./-]', v) for v in env.values())
    if has_tilde:
        classes.add('tilde-prefix')
    if has_ref:
        classes.add('reference-earlier')
    if needs_quote:
        classes.add('needs-quoting')
    if any(ord(c) > 127 for v in env.values() for c in v):
        classes.add('unicode')
    if any("'" in v for v in env.values()):
        classes.add('single-quote')
    if any(re.search(r'\s', v) for v in env.values()):
        classes.add('whitespace')
    if job_conf.get('param_var'):
        classes.add('param-vars-present')
    nontrivial = has_tilde or has_ref or needs_quote
    viol = []
    summary = f'environment={dict(env)!r}; generated:\n{text}'
    if proc.returncode != 0:
        viol.append(Violation(
            'C41:bash-fails-on-generated-env',
            f'bash rc={proc.returncode} '
            f'stderr={proc.stderr.decode("utf-8", "replace")[:300]!r}; '
            + summary))
        return CaseResult(viol, nontrivial=nontrivial, classes=sorted(classes))
    out = proc.stdout.decode('utf-8', 'surrogateescape')
    head, _, tail = out.partition('C41SEP\0')
    exps = head.split('\0')[:-1]
    if len(exps) != len(users):
        raise RuntimeError(f'harness: tilde oracle output {exps!r} {users!r}')
    texp = dict(zip(users, exps))
    got = {}
    for item in tail.split('\0'):
        if '=' in item:
            k, _, v = item.partition('=')
            got[k] = v
    for name, value, alts in rendered:
        want = [''.join(texp[p[1]] if p[0] == 't' else p[1] for p in a)
                for a in alts]
        if name not in got:
            viol.append(Violation(
                'C41:variable-not-exported',
                f'{name} missing from the exported environment; ' + summary))
        elif got[name] not in want:
            kind = ('tilde' if any(p[0] == 't' for a in alts for p in a)
                    else 'literal')
            if any(p[0] == 'ref' for v in case['vars'] if v['name'] == name
                   for p in v['parts']):
                kind = 'reference'
            viol.append(Violation(
                f'C41:value-differs:{kind}',
                f'{name}: configured {value!r}, job sees {got[name]!r}, '
                f'expected {want!r}; ' + summary))
    return CaseResult(viol, nontrivial=nontrivial, classes=sorted(classes))


def run_shard(ctx: Ctx):
    hyp_run(ctx, cases(), check_case, ctx.share(BUDGET[ctx.tier]))
