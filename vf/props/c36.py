"""C36 Configuration processing is idempotent.

parse(flow.cylc, output_fname=log/config/flow-processed.cylc) must equal
parse(log/config/flow-processed.cylc) as nested ordered (key, value) lists.
"""
from __future__ import annotations

import itertools
import os
import re
import shutil

from hypothesis import strategies as st

from vf.core import CaseResult, Ctx, Violation, hyp_run, exc_sig

PROP_ID = 'C36'
LEVEL = 'exploration'
BUDGET = {'quick': 2400, 'thorough': 100000}
RULE = (
    'Hypothesis renders a flow.cylc (plus 0-3 %include files, nested, one in '
    'a sub-directory) from a line grammar: section headings at depth 1-3 '
    '(incl. [scheduling][[graph]] with repeated keys), key = value items '
    '(bare / quoted / lists / inline triple-quoted / values containing # = '
    '[ ] and unusual separators \\x0b \\x0c \\x1c \\x85 \\u2028, non-ASCII), '
    'values split over continuation lines, multi-line triple-quoted strings '
    '(both quote styles; body lines that are blank, whitespace-only, indented, '
    'look like comments / items / headings, end in one or two backslashes), '
    'comment and blank lines, trailing whitespace and trailing backslashes on '
    'any line kind, optional CRLF line ends, missing final newline; half of '
    'the files are Jinja2 (#!jinja2; {% set %}, for loops around items / '
    'headings / body lines, if/else, {{ expr }} with template variables '
    'passed to parse(), {# #}, {% raw %} blocks with Jinja2-looking text, '
    'whitespace control, expressions producing \\r, backslashes and '
    '%include-looking text, {% include %} of a Jinja2 file). Sources the first '
    'parse rejects (ParsecError/InputError) are out of domain - except that '
    'a processed file written by a rejected parse must be rejected too. A '
    'quarter of the cases keep every backslash out of the top-level file '
    '(continuations only in %include files or produced by Jinja2). Non-trivial = '
    'first parse accepted and the source uses at least one of continuation, '
    '%include, Jinja2, multi-line string; distinct by the file set.')
ASSUMPTIONS = [
    'The processed file is written where the scheduler writes it '
    '(<dir>/log/config/flow-processed.cylc) and re-parsed from there with no '
    'template variables (as a user inspecting / re-validating it would).',
    '"Same configuration" = identical nested (key, value) lists including '
    'order, exactly as returned by fileparse.parse (values keep their '
    'quoting and trailing comments).',
    'A first parse that fails with a ParsecError / InputError puts the source '
    'out of domain; a first parse that crashes with another exception type '
    'is counted (class first-parse-crash) but is not a C36 violation.',
    'Suspicion DESIGN 8 (Jinja2-generated \\r) refuted by reading and by the '
    'generator: jinja2process uses str.splitlines(), so \\r (and \\x0b \\x0c '
    '\\x1c-\\x1e \\x85 \\u2028 \\u2029) produced by Jinja2 are line breaks in '
    'both parses; mutant c36-splitn (split("\\n")) is detected.',
    'Sensitivity (tools/mut.sh, quick): detected: processed file written '
    'with lines strip()ped, written without blank lines, "#!jinja2" kept in '
    'the Jinja2 output (Jinja2 re-run), jinja2process split("\\n"). The '
    'DESIGN mutant "write the pre-concatenation lines" is equivalent for '
    'this property (re-reading joins them again).',
]
MANIFEST = {'engine': 'P', 'technique': 'Hypothesis grammar-based flow files, self-differential'}

# ---------------------------------------------------------------------------
# pools

SEC = {
    1: ['scheduling', 'scheduling', 'runtime', 'meta', 'a', 'b b', 'scheduler'],
    2: ['graph', 'graph', 'foo', 'FAM, x', 'root', 'p<i>', 'events'],
    3: ['environment', 'x', 'directives', 'meta'],
}
KEYS = ['a', 'b', 'key one', 'script', 'inherit', 'R1', 'R1', 'P1D',
        'env-script', 'x<m,n>', 'T+1', 'foo.bar', 'title', 'URL']
ATOMS = [
    'foo', '1', 'a b', 'a, b, c', "'q'", '"dq"', "'a', 'b'", '"x # y"',
    'x # comment', '', 'a => b', 'foo & bar => baz | qux', '"""inline"""',
    "'''in'''", '"""in""" # c', 'val with = sign', '[bracket]',
    'http://x/y#frag', 'a\\b', 'é日本', 'x\x0cy', 'p\x0bq', 'r\x1cs',
    'u\x85v', 'w z', 'tab\there', '"unterminated', "it's", 'PT1H',
    '$HOME/${X:-y}', '"a", \'b\', c # list', '-1.5e3', '\\', '\\\\ x',
    '!important', '%not-include', 'x %include y', '<angle>', '{brace}',
]
JATOMS = [
    '{{ X }}', '{{ TV }}', 'pre{{ X }}post', '{{ TS }}', '"{{ TS }} # {{ X }}"',
    '{{ X + 1 }}, {{ X * 2 }}', "{{ 'a\\rb' }}", "{{ 'back\\\\' }}slash",
    "{{ '{{' }} not {{ '}}' }}", '{% raw %}{{ raw }}{% endraw %}',
    '{# gone #}kept', '{{ TL | join(", ") }}', '{{ "%include" }} nothing',
    '{{ i | default(0) }}', "{{ 'x\\x0cy' }}", "{{ 'ü' * 2 }}",
]
BODY = [
    'echo hello', '  indented', '', '', '   ', '\t', '# comment in script',
    'x = 1', '[[not a section]]', '[sec]', 'a \\', 'a \\\\', '\\',
    'cat <<EOF', "it's", 'say "hi"', "say ''", 'a => b', '%includex foo',
    'tab\there', 'é', 'x\x0cy', 'p\x85q', 'm n', 'trailing ws   ',
    'foo # bar', 'key = """', "k = '''x", '    deep    spaced   ',
    'if true; then \\', '  echo y; \\', 'fi', '#!jinja2', '#!/bin/bash',
]
JBODY = [
    'echo {{ X }}', '{{ TS }}', '{% raw %}${{ V }}{% endraw %}',
    '{% raw %}{{ literal }} {# c #} {% x %}{% endraw %}', '{# jinja comment #}',
    "{{ 'a\\rb' }}", "{{ 'tail\\\\' }}", "  {{ 'x' }}  ", "{{ '' }}",
    "{{ '%include' }} inc0.cylc", "{{ '  ' }}", "a{{ '\\n' }}b",
    "a{{ '\\n\\n' }}b", "{{ '# c \\\\ ' }}",
]
COMMENTS = [
    '# c', '   # indented', '#', '# with = and [x]', '#!shebang-like',
    '# trailing backslash \\', '## k = v', '# é', '\t# tab',
    '# two \\\\',
]
JCOMMENTS = ['# {{ X }}', '{# only jinja #}', '# {% raw %}{{ r }}{% endraw %}',
             '#{{ TS }} \\']
TRAIL_WS = ['', '', '', '', '', ' ', '  ', '\t', ' \t ']

_I = st.integers
_counter = itertools.count()


class _Gen:
    """Stateful renderer driven by Hypothesis draws."""

    def __init__(self, draw, jinja):
        self.draw = draw
        self.jinja = jinja
        self.files = {}
        self.depth = 0
        self.ninc = 0
        self.feat = set()
        # "quiet main": the top-level file itself has no line ending in a
        # backslash; continuation lines come only from %include files or are
        # produced by Jinja2
        self.no_bs = False

    def pick(self, seq):
        return self.draw(st.sampled_from(seq))

    def chance(self, n):
        return self.draw(_I(0, n - 1)) == 0

    # -- line decoration ---------------------------------------------------
    def deco(self, line, allow_bs=True):
        """Optionally add trailing whitespace / a whitespace-hidden
        backslash (only legal after a '#')."""
        ws = self.pick(TRAIL_WS)
        if ws:
            self.feat.add('trailing-ws')
        if allow_bs and not self.no_bs and '#' in line and self.chance(15):
            self.feat.add('hash-backslash-ws')
            return line + ' \\' + (ws or ' ')
        return line + ws

    def indent(self):
        return ' ' * self.draw(_I(0, 2)) * 2 * max(self.depth, 0) if \
            self.chance(2) else self.pick(['', '    ', '\t', '  '])

    # -- values ------------------------------------------------------------
    def atom(self):
        if self.jinja and self.chance(3):
            self.feat.add('jinja-expr')
            return self.pick(JATOMS)
        a = self.pick(ATOMS)
        if self.no_bs and a.endswith('\\'):
            a = 'foo'
        return a

    def item(self):
        key = self.pick(KEYS)
        ind = self.indent()
        kind = self.draw(_I(0, 9))
        eq = self.pick([' = ', '=', ' =', '= ', '  =  '])
        if kind <= 4:
            return [self.deco(f'{ind}{key}{eq}{self.atom()}')]
        if kind <= 6 and self.no_bs and self.jinja and self.chance(2):
            # continuation backslashes produced by Jinja2 expressions
            self.feat.add('continuation')
            self.feat.add('jinja-made-continuation')
            bs = self.pick(["{{ '\\\\' }}", '{{ BS }}'])
            parts = [self.pick(ATOMS[:9]) for _ in range(self.draw(_I(2, 3)))]
            out = [f'{ind}{key}{eq}{parts[0]}, {bs}']
            for p in parts[1:-1]:
                out.append(f'{self.indent()}{p}, {bs}')
            out.append(f'{self.indent()}{parts[-1]}')
            return out
        if kind <= 6 and self.no_bs:
            return [self.deco(f'{ind}{key}{eq}{self.atom()}')]
        if kind <= 6:
            # continuation lines
            self.feat.add('continuation')
            parts = [self.atom() for _ in range(self.draw(_I(2, 4)))]
            sep = self.pick([', ', ' ', ' & ', ' => '])
            out = [f'{ind}{key}{eq}{parts[0]}{sep}\\']
            for p in parts[1:-1]:
                out.append(f'{self.indent()}{p}{sep}\\')
            out.append(self.deco(f'{self.indent()}{parts[-1]}'))
            return out
        return self.multiline(key, ind, eq)

    def multiline(self, key, ind, eq):
        self.feat.add('multiline')
        q = self.pick(['"""', "'''"])
        first = self.pick(['', '', '', 'echo first', ' ', '# c', 'x \\'])
        if self.no_bs and first.endswith('\\'):
            first = 'x'
        out = [f'{ind}{key}{eq}{q}{first}']
        out += self.body(q, self.draw(_I(0, 6)))
        last = self.pick(['', '', '', 'echo last', '   ', 'x = y'])
        tail = self.pick(['', '', '', ' # closing comment', '  ', ' #'])
        out.append(self.deco(f'{self.indent()}{last}{q}{tail}'))
        return out

    def body(self, q, n, level=0):
        out = []
        for _ in range(n):
            k = self.draw(_I(0, 11))
            if self.jinja and k <= 2:
                self.feat.add('jinja-in-body')
                line = self.pick(JBODY)
            elif self.jinja and k == 3 and level < 2:
                self.feat.add('jinja-loop-in-body')
                opener = self.pick(
                    ['{% for i in range(2) %}', '{%- for i in range(3) %}',
                     '{% for i in [1] -%}', '{% if X > 1 %}', '{% if TV %}'])
                out.append(opener)
                out += self.body(q, self.draw(_I(1, 2)), level + 1)
                out.append(
                    '{% endfor %}' if ' for ' in opener else '{% endif %}')
                continue
            elif k == 4 and level == 0 and self.ninc < 3:
                # include file providing body lines
                name = self.new_include()
                keep, self.no_bs = self.no_bs, False
                self.files[name] = self._join(
                    self.body(q, self.draw(_I(0, 3)), level=2))
                self.no_bs = keep
                out.append(self.include_line(name))
                continue
            else:
                line = self.pick(BODY)
            if q in line:
                line = line.replace(q, 'q')
            if self.no_bs and line.rstrip().endswith('\\'):
                line = line.rstrip().rstrip('\\') + ' x'
            if line.endswith('\\') and not line.endswith('\\\\'):
                self.feat.add('continuation-in-body')
            if line == '':
                self.feat.add('blank-in-multiline')
            out.append(self.deco(line) if self.chance(3) else line)
        return out

    # -- includes ----------------------------------------------------------
    def new_include(self):
        self.feat.add('include')
        n = self.ninc
        self.ninc += 1
        name = f'inc{n}.cylc' if n != 1 else 'inc/sub1.cylc'
        self.files[name] = ''
        return name

    def include_line(self, name):
        form = self.draw(_I(0, 4))
        ind = self.pick(['', '', '    ', '\t'])
        if form == 0:
            s = f'{ind}%include "{name}"'
        elif form == 1:
            s = f"{ind}%include '{name}'"
        elif form == 2:
            s = f'{ind}%include   {name}'
        else:
            s = f'{ind}%include {name}'
        return s + self.pick(['', '', ' ', '  '])

    def _join(self, lines):
        return '\n'.join(lines) + ('\n' if lines else '')

    # -- blocks ------------------------------------------------------------
    def heading(self):
        d = self.draw(_I(1, min(self.depth + 1, 3)))
        self.depth = d
        name = self.pick(SEC[d])
        if self.jinja and self.chance(8):
            name = name + '{{ X }}'
        sp = self.pick(['', '', ' '])
        tail = self.pick(['', '', '', ' # sect comment', '  ', ' #x'])
        ind = self.pick(['', '    ' * (d - 1), '\t'])
        return [self.deco(
            f'{ind}{"[" * d}{sp}{name}{sp}{"]" * d}{tail}', allow_bs=False)]

    def comment(self):
        if self.jinja and self.chance(4):
            c = self.pick(JCOMMENTS)
            if self.no_bs and c.endswith('\\'):
                c = c.rstrip('\\') + 'x'
            return [self.deco(c)]
        c = self.pick(COMMENTS)
        if self.no_bs and c.endswith('\\'):
            c = c.rstrip('\\') + 'x'
        if c.endswith('\\') and not c.endswith('\\\\'):
            self.feat.add('comment-continuation')
        return [self.deco(c)]

    def block(self, n, level=0, in_if=False):
        out = []
        for _ in range(n):
            k = self.draw(_I(0, 15))
            if k <= 5:
                out += self.item()
            elif k <= 7 and not in_if:
                out += self.heading()
            elif k <= 7:
                out += self.item()
            elif k == 8:
                out += self.comment()
            elif k == 9:
                out.append(self.pick(['', '', '   ', '\t']))
            elif k == 10 and self.ninc < 3 and level < 2:
                name = self.new_include()
                if self.chance(3) and self.ninc < 3:
                    self.feat.add('nested-include')
                keep, self.no_bs = self.no_bs, False
                self.files[name] = self._join(
                    self.block(self.draw(_I(0, 4)) + (2 if keep else 0),
                               level + 1, in_if))
                self.no_bs = keep
                out.append(self.include_line(name))
            elif k >= 11 and self.jinja and level < 2:
                out += self.jinja_block(level, in_if)
            else:
                out += self.item()
        return out

    def jinja_block(self, level, in_if):
        kind = self.draw(_I(0, 6))
        self.feat.add('jinja-control')
        if kind == 0:
            return [self.pick(['{% set X = 5 %}', '{%- set X = X + 1 -%}',
                               '{% set TS = "re set" %}',
                               '{% set L = [1, 2] %}'])]
        if kind <= 3:
            opener = self.pick(
                ['{% for i in range(2) %}', '{% for i in range(1, 3) -%}',
                 '{%- for i in TL %}', '{% for i in [] %}',
                 '    {% for i in range(2) %}'])
            inner = self.block(self.draw(_I(1, 3)), level + 1, in_if)
            return [opener] + inner + [
                self.pick(['{% endfor %}', '{%- endfor %}', '{% endfor -%}'])]
        if kind <= 5:
            opener = self.pick(['{% if X > 1 %}', '{% if TV == 3 %}',
                                '{% if false %}', '{% if TS is defined %}'])
            a = self.block(self.draw(_I(1, 2)), level + 1, True)
            out = [opener] + a
            if self.chance(2):
                out += ['{% else %}'] + self.block(
                    self.draw(_I(1, 2)), level + 1, True)
            return out + ['{% endif %}']
        # a Jinja2 include
        self.feat.add('jinja-include')
        self.files['j.j2'] = self._join(
            self.block(self.draw(_I(1, 2)), 2, True))
        return ["{% include 'j.j2' %}"]


@st.composite
def flow_files(draw):
    jinja = draw(st.booleans())
    g = _Gen(draw, jinja)
    lines = []
    if jinja:
        lines.append(draw(st.sampled_from(
            ['#!jinja2', '#!jinja2', '#!Jinja2', '#!jinja2  ', '#!jinja2\t'])))
        if g.chance(2):
            lines.append('{% set X = 2 %}')
        else:
            lines.append('{% set X = TV %}')
    g.no_bs = g.chance(4)
    lines += g.block(draw(_I(1, 9)))
    if g.no_bs:
        g.feat.add('no-backslash-in-top-level-file')
        bad = [ln for ln in lines if ln.rstrip().endswith('\\')]
        if bad:
            raise AssertionError(f'C36 generator: quiet main has {bad!r}')
    elif g.chance(12) and lines:
        lines[-1] = lines[-1] + '\\'
        g.feat.add('backslash-on-last-line')
    text = '\n'.join(lines)
    if not g.chance(8):
        text += '\n'
    files = dict(g.files)
    files['flow.cylc'] = text
    crlf = g.chance(10)
    if crlf:
        files = {k: v.replace('\n', '\r\n') for k, v in files.items()}
    tvars = {'BS': '\\', 'TV': draw(st.sampled_from([3, 3, 0, 1])),
             'TS': draw(st.sampled_from(['str', 'a b', 'q"uote', ''])),
             'TL': draw(st.sampled_from([[1, 2], ['a'], []]))}
    return {'files': files, 'tvars': tvars if jinja else {},
            'feat': sorted(g.feat) + (['crlf'] if crlf else [])
            + (['jinja2'] if jinja else [])}


# ---------------------------------------------------------------------------

def tolist(d):
    return [
        [k, tolist(v) if isinstance(v, dict) else v] for k, v in d.items()]


def _first_diff(a, b, path=''):
    if not isinstance(a, list) or not isinstance(b, list):
        return f'{path}: {a!r} != {b!r}'
    for i, (x, y) in enumerate(zip(a, b)):
        if x != y:
            if (isinstance(x, list) and isinstance(y, list) and len(x) == 2
                    and len(y) == 2 and x[0] == y[0]):
                return _first_diff(x[1], y[1], f'{path}[{x[0]}]')
            return f'{path}#{i}: {x!r} != {y!r}'
    if len(a) != len(b):
        extra = (a if len(a) > len(b) else b)[min(len(a), len(b))]
        side = 'source only' if len(a) > len(b) else 'processed only'
        return f'{path}: {side}: {extra!r}'
    return 'equal'


VIEW_OFF = {'mark': False, 'single': False, 'label': False,
            'jinja2': False, 'contin': False, 'inline': False}


def _attribute(out_path, written):
    """Which processing step changes the processed file when it is read
    again?  (root-cause signature suffix, detail)"""
    from cylc.flow.parsec.fileparse import read_and_proc
    from cylc.flow.parsec import include
    results = {}
    for name, flags in (
        ('none', {}), ('inline', {'inline': True}),
        ('jinja2', {'jinja2': True}), ('contin', {'contin': True}),
    ):
        include.done[:] = []
        try:
            results[name] = read_and_proc(
                out_path, {}, viewcfg=dict(VIEW_OFF, **flags))
        except Exception as exc:
            results[name] = f'{type(exc).__name__}: {exc}'
    if results['none'] != written:
        return [('reread-differs', (
            'reading the processed file back (no processing) does not give '
            'the lines that were parsed: '
            + _line_diff(written, results['none'])))]
    text = {
        'contin': (
            'processed-file-continuation-rejoined',
            'a written line ends in a backslash (exposed by the final '
            'rstrip()), so re-reading joins it with the next line: '),
        'inline': (
            'processed-file-include-reinlined',
            'a written line is an %include directive (produced by Jinja2, so '
            'not inlined by the first parse) that is processed when the '
            'file is read again: '),
        'jinja2': (
            'processed-file-jinja2-rerun',
            'the written file is processed by Jinja2 again: '),
    }
    out = []
    for n in ('inline', 'jinja2', 'contin'):
        if results[n] != written:
            out.append((text[n][0], text[n][1] + _line_diff(written, results[n])))
    return out or [('config-differs', '')]


_JOINED = {'lines': None, 'wrapped': False}


def _watch_join():
    """Record what the continuation-join pass of the real code returns (the
    lines before the final rstrip())."""
    from cylc.flow.parsec import fileparse
    _JOINED['lines'] = None
    orig = getattr(fileparse, '_concatenate', None)
    if orig is None:
        _JOINED['wrapped'] = False
        return lambda: None
    _JOINED['wrapped'] = True

    def watched(lines):
        out = orig(lines)
        _JOINED['lines'] = list(out)
        return out
    fileparse._concatenate = watched

    def undo():
        fileparse._concatenate = orig
    return undo


def _contin_cause(case, written):
    """The recorded root cause of 'continuation-rejoined': the join pass
    leaves a line ending in backslash + whitespace (never in a bare
    backslash) and the final rstrip() exposes the backslash.  A written line
    ending in a backslash that did not come about like that (the join pass
    did not run on these lines, or returned a bare trailing backslash) is
    something else."""
    if not _JOINED['wrapped']:
        return 'processed-file-continuation-rejoined'
    joined = _JOINED['lines']
    if (joined is not None and len(joined) == len(written) and all(
            j.rstrip() == w and not j.endswith('\\')
            for j, w in zip(joined, written))):
        return 'processed-file-continuation-rejoined'
    return ('processed-file-continuation-rejoined:'
            'not-from-backslash-whitespace-line')


def _line_diff(a, b):
    if isinstance(b, str):
        return b
    for i, (x, y) in enumerate(zip(a, b)):
        if x != y:
            return f'line {i + 1}: written {x!r}, re-read {y!r}'
    return f'{len(a)} lines written, {len(b)} re-read'


def check_case(case, ctx: Ctx) -> CaseResult:
    from cylc.flow.parsec.fileparse import parse
    from cylc.flow.parsec.exceptions import ParsecError
    from cylc.flow.exceptions import CylcError
    from cylc.flow.parsec import include
    from vf.cylcutil import reset_globals
    reset_globals()
    include.done[:] = []
    classes = list(case.get('feat', []))
    d = os.path.join(ctx.scratch, 'c36', f'w{next(_counter)}')
    os.makedirs(os.path.join(d, 'log', 'config'))
    cwd = os.getcwd()
    try:
        for name, text in case['files'].items():
            p = os.path.join(d, name)
            os.makedirs(os.path.dirname(p), exist_ok=True)
            with open(p, 'w', newline='') as f:
                f.write(text)
        src = os.path.join(d, 'flow.cylc')
        out = os.path.join(d, 'log', 'config', 'flow-processed.cylc')
        undo = _watch_join()
        try:
            cfg1 = tolist(parse(src, out, template_vars=dict(case['tvars'])))
        except (ParsecError, CylcError) as exc:
            undo()
            ctx.col.rejected += 1
            viol = []
            classes += ['rejected', 'rejected:' + type(exc).__name__]
            if os.path.exists(out):
                # the processed file was written, then its lines were
                # rejected: reading it back must be rejected as well
                classes.append('rejected-after-processed-file-written')
                include.done[:] = []
                try:
                    cfg2 = tolist(parse(out))
                except Exception:
                    cfg2 = None
                finally:
                    os.chdir(cwd)
                if cfg2 is not None:
                    with open(out, newline='') as f:
                        written = f.read().split('\n')[:-1]
                    causes = _attribute(out, written)
                    os.chdir(cwd)
                    for cause, why in causes:
                        if cause == 'config-differs':
                            cause = 'source-rejected-processed-file-accepted'
                        elif cause.endswith('continuation-rejoined'):
                            cause = _contin_cause(case, written)
                        viol.append(Violation(
                            f'C36:{cause}',
                            f'parsing the source raises '
                            f'{type(exc).__name__}: {str(exc)[:300]}; the '
                            f'processed file written by that parse is '
                            f'accepted and gives {cfg2!r:.300}. {why}'))
            return CaseResult(viol, classes=classes)
        except Exception as exc:
            sig = exc_sig(exc)
            ctx.col.extra.setdefault('first_parse_crash', {})
            ctx.col.extra['first_parse_crash'][sig] = \
                ctx.col.extra['first_parse_crash'].get(sig, 0) + 1
            return CaseResult(
                [], classes=classes + ['rejected', 'first-parse-crash'])
        finally:
            undo()
            os.chdir(cwd)
        classes.append('accepted')
        with open(out, newline='') as f:
            written = f.read().split('\n')[:-1]
        if any(ln.endswith('\\') for ln in written):
            classes.append('written-line-ends-in-backslash')
        include.done[:] = []
        err = None
        try:
            cfg2 = tolist(parse(out))
        except Exception as exc:
            cfg2 = None
            err = exc
        finally:
            os.chdir(cwd)
        viol = []
        if cfg2 != cfg1:
            causes = _attribute(out, written)
            os.chdir(cwd)
            if err is not None:
                what = (f'parsing the processed file raises '
                        f'{type(err).__name__}: {str(err)[:300]}')
            else:
                what = 'configs differ at ' + _first_diff(cfg1, cfg2)
            if len(causes) > 1:
                what += (' (several re-processing steps alter the processed '
                         'file; one violation per step)')
            for cause, why in causes:
                if cause.endswith('continuation-rejoined'):
                    cause = _contin_cause(case, written)
                viol.append(Violation(f'C36:{cause}', f'{what}. {why}'))
        nontrivial = any(
            f in classes for f in (
                'continuation', 'continuation-in-body', 'include', 'jinja2',
                'multiline', 'comment-continuation'))
        return CaseResult(viol, nontrivial=nontrivial, classes=classes,
                          distinct_key=case['files'])
    finally:
        os.chdir(cwd)
        shutil.rmtree(d, ignore_errors=True)


def run_shard(ctx: Ctx):
    hyp_run(ctx, flow_files(), check_case, ctx.share(BUDGET[ctx.tier]))
