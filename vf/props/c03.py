"""C03 No premature shutdown and no false stall."""
from __future__ import annotations

from hypothesis import strategies as st

from vf.core import CaseResult, Ctx, Violation, hyp_run
from vf.gen.wfspec import wfspecs
from vf.sim.drive import SCase, outcome_maps, run_async, schedules

PROP_ID = 'C03'
LEVEL = 'exploration'
BUDGET = {'quick': 450, 'thorough': 12000}
MANIFEST = {
    'engine': 'S',
    'technique': 'PBT on the stepped scheduler: pool snapshot oracles at every '
                 'auto-shutdown decision, stall report and at quiescence',
}
RULE = (
    'Generated workflow (C01 domain plus runahead limit P0-P4 and an optional '
    'stop-after cycle point; in a third of the cases 1-2 tasks have execution '
    'retry delays of PT10M/PT1H on the virtual clock and fail once or more), '
    'in a quarter of the cases the default queue is limited to 1-2 and the '
    'schedule holds 1-2 reload commands (definition unchanged); '
    'outcome assignments that include required-'
    'success failures and omitted required custom outputs, schedules of <=40 '
    'steps with delayed message delivery, then a fair drain.  Oracle on the '
    'pool snapshot taken by the monitor when the scheduler decides to shut '
    'down automatically: no preparing/submitted/running task; no released '
    '(not runahead-limited, not held) waiting task whose prerequisites are '
    'all satisfied; no finished task still in the pool; no waiting task at or '
    'before the stop point with some but not all prerequisite atoms '
    'satisfied.  On the snapshot taken when a stall is first reported: no '
    'active task, and no waiting unheld task with all prerequisites satisfied '
    '(whether or not it is still waiting out a retry delay: that needs no '
    'intervention) that is either released or at/below the scheduler\'s '
    'current runahead limit point.  Retry delays are then let elapse on the '
    'virtual clock and the drain repeated.  At quiescence without shutdown (not paused, no stop '
    'requested): no waiting, unheld, released task with all prerequisites '
    'satisfied.  Non-trivial = the run stalled, or a finished task was '
    'incomplete, or a stop point cut the graph; distinct by (spec, outcomes).')
ASSUMPTIONS = [
    '"Can make progress" is judged from the scheduler-visible pool only '
    '(an undelivered message belongs to a task that is still active).',
    '"Never indefinitely" is decided as: at quiescence of the fair drain '
    '(25 idle iterations with nothing pending); cap hit = inconclusive.',
    'No user xtriggers in this profile; queue limits only on the default '
    'queue (at quiescence every job has finished, so a queued ready task has '
    'a free slot) (a retry delay is '
    'held by cylc as a wall-clock xtrigger on the task).',
]

ACTIVE = ('preparing', 'submitted', 'running')
FINAL = ('succeeded', 'failed', 'submit-failed', 'expired')


@st.composite
def cases(draw):
    spec = draw(wfspecs({'max_tasks': 5, 'max_fcp': 5}))
    if draw(st.integers(0, 1)):
        spec['extra']['runahead'] = 'P%d' % draw(st.integers(0, 4))
    if draw(st.integers(0, 3)) == 0:
        spec['extra']['stop_after'] = draw(
            st.integers(spec['icp'], spec['fcp']))
    outcomes = draw(outcome_maps(spec))
    # some tasks wait out a (virtual-clock) retry delay after a failure:
    # they are waiting with satisfied prerequisites but cannot run yet, and
    # no intervention is needed for them to make progress
    if draw(st.integers(0, 2)) == 0:
        k = draw(st.integers(1, min(2, len(spec['tasks']))))
        for t in draw(st.lists(st.sampled_from(spec['tasks']), min_size=k,
                               max_size=k, unique=True)):
            n = draw(st.integers(1, 2))
            spec['retries'][t] = {
                'exec': n, 'submit': 0,
                'exec_delays': [draw(st.sampled_from(['PT1H', 'PT10M']))] * n}
            for p in range(spec['icp'], spec['fcp'] + 1):
                if draw(st.integers(0, 1)) == 0:
                    outcomes[f'{p}/{t}'] = [
                        {'final': 'failed'}
                        for _ in range(draw(st.integers(1, n + 1)))
                    ] + [{'final': None}]
    sched = draw(schedules(40))
    if draw(st.integers(0, 3)) == 0:
        # a limited default queue and reloads (definition unchanged) at
        # drawn moments: queued tasks must still get their turn afterwards
        spec['extra']['queues'] = [
            {'name': 'default', 'limit': draw(st.integers(1, 2))}]
        for _ in range(draw(st.integers(1, 2))):
            sched.insert(draw(st.integers(0, len(sched))), ['reload', 0])
    delays = draw(st.lists(st.sampled_from([0, 0, 0, 1, 2, 4]),
                           min_size=1, max_size=8))
    return {'spec': spec, 'outcomes': outcomes, 'schedule': sched,
            'delays': delays}


def check_case(case, ctx: Ctx) -> CaseResult:
    return run_async(_check(case, ctx))


def ready(t):
    return (t['status'] == 'waiting' and t['prereqs_all'] and not t['held']
            and all(t.get('xtriggers', {}).values()))


def can_progress_unaided(t):
    """Waiting with every task prerequisite satisfied and not held: it will
    run without intervention once its xtriggers / retry delay (a wall-clock
    xtrigger) are satisfied, which needs no operator."""
    return t['status'] == 'waiting' and t['prereqs_all'] and not t['held']


def partially_satisfied(t):
    vals = [bool(v) for v in t['sat'].values()]
    return t['status'] == 'waiting' and any(vals) and not t['prereqs_all']


async def _check(case, ctx: Ctx) -> CaseResult:
    spec = case['spec']
    async with SCase(case, ctx) as sc:
        if sc.rejected:
            return CaseResult(sc.crash_violations('C03'), False,
                              ['rejected:' + sc.rejected])
        sim, to_int = sc.sim, sc.drv.to_int
        stall_limit = {}

        def grab_limit(kind, data):
            if kind == 'stalled':
                data['limit'] = str(sim.schd.pool.runahead_limit_point)
                data['stop'] = str(sim.schd.pool.stop_point)

        sim.hooks.append(grab_limit)
        await sc.run_schedule()
        await sc.drain()
        classes = set()
        # let retry delays elapse on the virtual clock (the fair drain only
        # advances it by seconds), then drain again
        for _round in range(6):
            if not (sim.running and sc.quiescent) or not any(
                    timer.timeout is not None
                    for itask in sim.schd.pool.get_tasks()
                    if itask.state('waiting')
                    for timer in (itask.try_timers or {}).values()):
                break
            classes.add('waited-out-a-retry-delay')
            sim.clock.advance(3700.0)
            await sc.drain()
        viol = sc.crash_violations('C03')
        stop_pt = spec['extra'].get('stop_after') or spec['fcp']
        for ev in sim.trace:
            if ev['k'] == 'set-stop' and ev['mode'] == 'AUTO':
                classes.add('auto-shutdown')
                for t in ev['pool']:
                    ident = f'{t["cycle"]}/{t["name"]}'
                    if t['status'] in ACTIVE:
                        viol.append(Violation(
                            'C03:shutdown-with-active-task',
                            f'auto shutdown while {ident} is {t["status"]}'))
                    elif ready(t) and not t['runahead']:
                        viol.append(Violation(
                            'C03:shutdown-with-ready-task',
                            f'auto shutdown while {ident} is waiting, '
                            f'released and ready'))
                    elif t['status'] in FINAL:
                        viol.append(Violation(
                            'C03:shutdown-with-incomplete-task',
                            f'auto shutdown while finished task {ident} '
                            f'({t["status"]}) is retained as incomplete'))
                    elif partially_satisfied(t) and (
                            to_int.get(t['cycle'], 10**9) <= stop_pt):
                        viol.append(Violation(
                            'C03:shutdown-with-partially-satisfied-task',
                            f'auto shutdown while {ident} has partially '
                            f'satisfied prerequisites {t["sat"]}'))
            elif ev['k'] == 'stalled':
                classes.add('stalled')
                lim = to_int.get(ev.get('limit'))
                for t in ev['pool']:
                    ident = f'{t["cycle"]}/{t["name"]}'
                    if t['status'] in ACTIVE:
                        viol.append(Violation(
                            'C03:stall-with-active-task',
                            f'stall reported while {ident} is {t["status"]}'))
                    elif can_progress_unaided(t) and (
                            not t['runahead']
                            or (lim is not None
                                and to_int.get(t['cycle'], 10**9) <= lim)):
                        if not ready(t):
                            classes.add('stall-check-with-pending-xtrigger-'
                                        'or-retry-delay')
                        viol.append(Violation(
                            'C03:false-stall:ready-task-within-runahead-limit',
                            f'stall reported at iteration {ev["it"]} while '
                            f'{ident} is waiting with all prerequisites '
                            f'satisfied, not held, runahead={t["runahead"]} '
                            f'and limit point {ev.get("limit")}'))
            elif ev['k'] == 'remove' and not ev['complete']:
                classes.add('incomplete-removed')
        if sc.quiescent and sim.running:
            schd = sim.schd
            if not schd.is_paused and schd.stop_mode is None:
                for t in sim.pool_snapshot():
                    if t['status'] in FINAL:
                        classes.add('incomplete-retained')
                    if ready(t) and not t['runahead']:
                        viol.append(Violation(
                            'C03:ready-task-never-submitted',
                            f'{t["cycle"]}/{t["name"]} is waiting, released, '
                            f'unheld with all prerequisites satisfied but '
                            f'was not submitted (quiescent)'))
        if spec['extra'].get('stop_after') is not None and \
                spec['extra']['stop_after'] < spec['fcp']:
            classes.add('stop-point-cuts')
        uniq = {}
        for v in viol:
            uniq.setdefault(v.sig, v)
        nontrivial = bool(classes & {
            'stalled', 'incomplete-retained', 'stop-point-cuts'})
        return CaseResult(
            list(uniq.values()), nontrivial, sorted(classes),
            inconclusive=sc.inconclusive,
            distinct_key=[case['spec'], case['outcomes']],
            info={'flow': sc.drv.flow_text})


def run_shard(ctx: Ctx):
    hyp_run(ctx, cases(), check_case, ctx.share(BUDGET[ctx.tier]))
