"""C12 Required/optional output classification matches the completion
expression; validation consistency with graph optionality; skip-mode default
outputs.

Part A (function level, exhaustive): every binary and/or expression tree
with <= K leaves over {succeeded, failed, x, y, submit_failed, expired}
rendered in one of three presentations -> get_optional_outputs() and
TaskOutputs(expr).iter_required_messages() vs the truth-table classification
written from the statement (vf.gen.cexpr.classify; evaluates the *tree*, it
never parses the text cylc parses).

Part B (config level, Hypothesis): a task with custom outputs, a graph
optionality declaration and a user completion expression (or none) loaded
through a real WorkflowConfig: validation accept => consistent with the
declaration (documented table in _check_completion_expression); on accept,
classification of the TaskDef's expression (incl. the default expression,
model = documented default rule as a set function); skip-mode default
outputs (run_modes.skip.process_outputs on a real TaskProxy).
"""
from __future__ import annotations

from hypothesis import strategies as st

from vf.core import CaseResult, Ctx, Violation, hyp_run, exc_sig
from vf.gen import cexpr
from vf.gen.cexpr import STD_OUTPUTS, compvar
from vf.props import c11 as _c11

PROP_ID = 'C12'
LEVEL = 'exploration'
BUDGET = {'quick': 2400, 'thorough': 60000}   # part B (config level) cases
EXHAUSTIVE = {'quick': True, 'thorough': True}
MANIFEST = {
    'engine': 'P',
    'technique': 'exhaustive enumeration of small boolean expressions '
                 '(truth-table oracle) + Hypothesis over real WorkflowConfig '
                 'loads',
}
KMAX = {'quick': 4, 'thorough': 5}
VARS6 = ['succeeded', 'failed', 'x', 'y', 'submit_failed', 'expired']
TRIGGERS_A = ['succeeded', 'failed', 'x', 'y', 'submit-failed', 'expired',
              'submitted', 'started']
MSG_A = {'x': 'the x (msg).', 'y': 'y'}

RULE = (
    'Part A (exhaustive, not budgeted): ALL binary and/or trees with <= K '
    'leaves (K=4 quick: 53,646 expressions; K=5 thorough: 1,795,470) over the '
    '6 variables succeeded, failed, x, y, submit_failed, expired, each '
    'rendered in one of 3 presentations (minimal parentheses / fully '
    'parenthesised / flattened with irregular whitespace), with outputs '
    'submitted and started also registered (unreferenced); '
    'get_optional_outputs and iter_required_messages compared with the '
    'truth-table classification. Part B (Hypothesis, budgeted): task with 0-3 '
    'custom outputs (hyphen/underscore names, punctuated messages; a class '
    'with names differing only by -/_), graph declaration '
    'required/optional/unused per output restricted to what the graph parser '
    'admits, user completion expression tree (<= 7 leaves) or none, half of '
    'the declarations drawn consistent with the expression and half at '
    'random; real WorkflowConfig load, then classification of the loaded '
    'TaskDef and skip-mode default outputs. Non-trivial: expression mixes '
    'and/or and has >=1 required and >=1 optional output (part B default '
    'rule: >=1 required and >=1 optional declared). distinct_nontrivial '
    'counts distinct trees (part A, by construction) + distinct part B '
    'cases.')
ASSUMPTIONS = [
    'Classification is asserted for referenced outputs (required iff the '
    'expression is false with all other outputs present and that output, '
    'expired and submit_failed absent); unreferenced outputs must be '
    'classified None even where the expression is false anyway.',
    'Validation: only "accepts => consistent" is asserted (statement: '
    '"accepts only if"); consistent = the 9-row table in '
    '_check_completion_expression over the outputs explicitly declared in '
    'the graph. Rejections of consistent expressions are counted '
    '(class reject-though-consistent), not flagged.',
    'Skip mode "by default" = no [skip]outputs setting; required = the '
    'classification of the task\'s completion expression (user or default). '
    'Expressions requiring both succeeded and failed are excluded from the '
    'skip check (the clause is unsatisfiable for them).',
    'Outputs sharing a completion variable (a-b / a_b) are excluded from '
    'the classification comparison and reported under their own signature.',
    'Python operator precedence (`and` binds tighter than `or`) is used when '
    'rendering with minimal parentheses.',
]


# -- part A ------------------------------------------------------------------

def check_expr(tree, style):
    """-> (violations, nontrivial, features)"""
    from cylc.flow.task_outputs import TaskOutputs, get_optional_outputs
    expr = cexpr.render(tree, style)
    allcv = [compvar(t) for t in TRIGGERS_A]
    want = cexpr.classify(tree, allcv)
    viol = []
    try:
        got = get_optional_outputs(expr, TRIGGERS_A)
    except Exception as exc:  # noqa
        return [Violation('C12:classify-raises:' + exc_sig(exc),
                          f'get_optional_outputs({expr!r}) raised {exc!r}')
                ], False, []
    if got != want:
        for cv in allcv:
            g, w = got.get(cv, 'missing'), want[cv]
            if g != w:
                name = {True: 'optional', False: 'required',
                        None: 'unreferenced'}
                viol.append(Violation(
                    f'C12:classification:{name.get(w, w)}-classified-as-'
                    f'{name.get(g, g)}',
                    f'expression {expr!r}: output {cv}: cylc says '
                    f'{name.get(g, g)}, truth table says {name.get(w, w)}; '
                    f'full cylc {got}'))
                break
        else:
            viol.append(Violation('C12:classification:extra-keys',
                                  f'{expr!r}: {got} vs {want}'))
    try:
        outs = TaskOutputs(expr)
        for t in TRIGGERS_A:
            outs.add(t, MSG_A.get(t, t))
        req = sorted(outs.iter_required_messages())
    except Exception as exc:  # noqa
        viol.append(Violation('C12:iter_required_messages-raises:'
                              + exc_sig(exc), f'{expr!r}: {exc!r}'))
    else:
        wreq = sorted(MSG_A.get(t, t) for t in TRIGGERS_A
                      if want[compvar(t)] is False)
        if req != wreq and not viol:
            viol.append(Violation(
                'C12:iter_required_messages-differs',
                f'expression {expr!r}: yielded {req}, truth table {wreq}'))
    vals = [v for v in want.values() if v is not None]
    nontrivial = (len(set(cexpr.ops(tree))) == 2
                  and True in vals and False in vals)
    return viol, nontrivial, vals


def run_part_a(ctx: Ctx):
    col = ctx.col
    idx = 0
    n = nontriv = 0
    kmax = KMAX[ctx.tier]
    cls_counts = {}
    for k in range(1, kmax + 1):
        for tree in cexpr.enum_trees(k, VARS6):
            idx += 1
            if idx % ctx.nshards != ctx.shard:
                continue
            style = (idx // 16) % 3
            viol, nt, vals = check_expr(tree, style)
            n += 1
            if nt:
                nontriv += 1
            for label, cond in (
                ('A:has-required', False in vals),
                ('A:has-optional', True in vals),
                ('A:nontrivial', nt),
                (f'A:leaves={k}', True),
                (f'A:style={style}', True),
            ):
                if cond:
                    cls_counts[label] = cls_counts.get(label, 0) + 1
            if viol or n <= 2 or (nt and n % 20000 == 1):
                case = {'kind': 'expr', 'tree': tree, 'style': style}
                if viol:
                    for v in col.filter_known(viol):
                        col.add_violation(v, case)
                elif len(col.samples) < 2:
                    col.samples.append({'case': case})
    col.evaluations += n
    col.nontrivial_extra += nontriv
    for k_, v_ in cls_counts.items():
        col.classes[k_] += v_
    col.classes['part-A-expression'] += n
    col.extra['exhaustive_expressions'] = n


# -- part B ------------------------------------------------------------------

NAME_POOL = ['x', 'y', 'z', 'x-1', 'y_2', 'Z3', 'out', 'a-b', 'q-r-s']
COLLIDE = [['a-b', 'a_b'], ['a_b', 'a-b'], ['a-b-c', 'a_b-c', 'x'],
           ['x', 'a_b', 'a-b']]


@st.composite
def configs(draw):
    kind = draw(st.sampled_from(
        ['user', 'user', 'user', 'user', 'user', 'default', 'default',
         'collide']))
    if kind == 'collide':
        names = draw(st.sampled_from(COLLIDE))
    else:
        names = draw(st.lists(st.sampled_from(NAME_POOL), min_size=0,
                              max_size=3, unique=True))
    customs = [[n, draw(st.sampled_from(_c11.MSG_POOL)).format(n=n)]
               for n in names]
    outputs = list(STD_OUTPUTS) + names
    expr = None
    style = 0
    decl = {}
    if kind == 'user' or (kind == 'collide' and draw(st.booleans())):
        variables = sorted({compvar(o) for o in outputs})
        weighted = variables + [
            v for v in variables
            if v not in ('expired', 'submit_failed', 'submitted', 'started')
        ] * 2
        expr = draw(_c11._trees(weighted))
        style = draw(st.integers(0, 2))
        cls = cexpr.classify(expr, variables)
        consistent = draw(st.booleans()) or kind == 'collide'
        allcv = [compvar(o) for o in outputs]
        for o in outputs:
            e = cls[compvar(o)]
            if kind == 'collide' and allcv.count(compvar(o)) > 1:
                # colliding outputs: any declaration
                choice = draw(st.sampled_from([True, False, None]))
            elif consistent:
                if e is False and o in ('submit-failed', 'expired'):
                    choice = None
                elif e is False:
                    choice = draw(st.sampled_from([True, None]))
                elif e is True:
                    choice = draw(st.sampled_from([False, None]))
                elif o in ('submit-failed', 'expired'):
                    choice = None
                else:
                    choice = draw(st.sampled_from([None, None, False]))
            else:
                choice = draw(st.sampled_from([True, False, None, None]))
            if choice is not None:
                decl[o] = choice
        if consistent:
            if 'succeeded' not in decl and 'failed' not in decl:
                if cls['succeeded'] is True:
                    decl['succeeded'] = False
                elif cls['succeeded'] is None:
                    decl['failed'] = cls['failed'] is False
            if decl.get('succeeded') is False and cls['failed'] is False:
                del decl['succeeded']
                decl['failed'] = True
    else:
        for o in outputs:
            choice = draw(st.sampled_from([True, False, None, None]))
            if choice is not None:
                decl[o] = choice
    for o in ('submit-failed', 'expired'):
        if decl.get(o) is True:
            decl[o] = False
    for a, b in (('succeeded', 'failed'), ('submitted', 'submit-failed')):
        if a in decl and b in decl and (decl[a] or decl[b]):
            if draw(st.booleans()):
                decl[a] = decl[b] = False
            else:
                del decl[draw(st.sampled_from([a, b]))]
    return {'kind': 'config', 'customs': customs, 'decl': decl, 'expr': expr,
            'style': style, 'skip': draw(st.booleans())}


_KIND_TEXT = {
    'opt-req': 'optional in the graph, required in the expression',
    'req-unref': 'required in the graph, not referenced in the expression',
    'req-opt': 'required in the graph, optional in the expression',
    'permitted-unref': 'optional in the graph, not referenced in the '
                       'expression (submit-failed/expired)',
}


def inconsistencies(decl, cls):
    """Documented consistency table over explicitly declared outputs."""
    out = []
    for o, req in decl.items():
        e = cls[compvar(o)]
        g_opt = not req
        if g_opt and e is False:
            out.append((o, 'opt-req'))
        elif not g_opt and e is None:
            out.append((o, 'req-unref'))
        elif (not g_opt and e is True
              and o not in ('submit-failed', 'expired')):
            out.append((o, 'req-opt'))
        elif g_opt and e is None and o in ('submit-failed', 'expired'):
            out.append((o, 'permitted-unref'))
    return out


def _consistent_decl(cls, outputs):
    """A graph declaration consistent with the classification `cls`."""
    decl = {}
    for o in outputs:
        e = cls[compvar(o)]
        if o in ('submit-failed', 'expired'):
            continue
        if e is False:
            decl[o] = True
        elif e is True:
            decl[o] = False
    if 'succeeded' not in decl and 'failed' not in decl:
        if cls['succeeded'] is None:
            decl['failed'] = cls['failed'] is False
    if decl.get('succeeded') is False and cls['failed'] is False:
        del decl['succeeded']
        decl['failed'] = True
    for a, b in (('succeeded', 'failed'), ('submitted', 'submit-failed')):
        if a in decl and b in decl and (decl[a] or decl[b]):
            # opposite outputs cannot both be declared unless both optional
            return None
    return decl


def _shared_expression_check(case, cls, outputs, ctx, classes):
    from cylc.flow.exceptions import CylcError
    from cylc.flow.parsec.exceptions import ParsecError
    from vf.cylcutil import load_config
    good = _consistent_decl(cls, outputs)
    if good is None or inconsistencies(good, cls):
        return []
    decoy = dict(case, decl=good)
    try:
        load_config(_c11.flow_text_multi([decoy, decoy]), ctx.scratch)
    except (CylcError, ParsecError):
        classes.append('B:shared-expression:decoy-rejected')
        return []
    except Exception:  # noqa
        return []
    classes.append('B:shared-expression-checked')
    try:
        load_config(_c11.flow_text_multi([decoy, case, decoy]), ctx.scratch)
    except (CylcError, ParsecError):
        return []
    except Exception as exc:  # noqa
        return [Violation('C12:config-load-raises:' + exc_sig(exc),
                          f'{type(exc).__name__}: {exc}')]
    return [Violation(
        'C12:validation-accepts-inconsistent:next-to-tasks-sharing-the-'
        'expression',
        f'completion = {cexpr.render(case["expr"], case.get("style", 0))!r} '
        f'with graph declaration {case["decl"]} is rejected for a task on '
        f'its own but accepted when two other tasks with the same '
        f'expression and the consistent declaration {good} are defined '
        f'around it')]


def check_config(case, ctx: Ctx) -> CaseResult:
    from cylc.flow.exceptions import CylcError
    from cylc.flow.parsec.exceptions import ParsecError
    from cylc.flow.id import Tokens
    from cylc.flow.run_modes.skip import process_outputs
    from cylc.flow.task_outputs import TaskOutputs, get_optional_outputs
    from cylc.flow.task_proxy import TaskProxy
    from vf.cylcutil import load_config

    customs = [list(c) for c in case['customs']]
    decl = dict(case['decl'])
    tree = case.get('expr')
    names = [n for n, _ in customs]
    outputs = list(STD_OUTPUTS) + names
    msg_of = {o: o for o in STD_OUTPUTS}
    msg_of.update({n: m for n, m in customs})
    cvs = [compvar(o) for o in outputs]
    collided = {cv for cv in cvs if cvs.count(cv) > 1}
    classes = ['B:user-expression' if tree is not None else 'B:default-rule',
               'part-B-config']
    if collided:
        classes.append('compvar-collision')
    viol = []

    if tree is not None:
        cls = cexpr.classify(tree, cvs)
    else:
        rule = cexpr.DefaultRule(decl)
        by_out = cexpr.classify_fn(rule.complete, rule.referenced(), outputs)
        cls = {}
        for o in outputs:
            if compvar(o) not in collided:
                cls[compvar(o)] = by_out[o]
    vals = [v for cv, v in cls.items() if v is not None]
    if tree is not None:
        nontrivial = (len(set(cexpr.ops(tree))) == 2
                      and True in vals and False in vals)
        incons = inconsistencies(decl, cls)
        classes.append('B:declared-inconsistent' if incons
                       else 'B:declared-consistent')
    else:
        nontrivial = (True in decl.values() and False in decl.values())
        incons = []
    if cls.get('failed') is False:
        classes.append('failed-required')

    extra = ['run mode = skip'] if case.get('skip') else []
    try:
        cfg = load_config(_c11.flow_text(case, extra), ctx.scratch)
    except (CylcError, ParsecError) as exc:
        ctx.col.rejected += 1
        classes.append('B:rejected')
        if tree is not None and not incons:
            classes.append('B:reject-though-consistent')
        if tree is not None and incons and not collided:
            # the same expression text on several tasks: validation is per
            # task (it depends on each task's own graph declaration), so the
            # rejected declaration must still be rejected next to tasks
            # whose declaration is consistent with the expression
            viol += _shared_expression_check(case, cls, outputs, ctx, classes)
        return CaseResult(viol, nontrivial=nontrivial and tree is not None,
                          classes=classes, info=str(exc)[:200])
    except Exception as exc:  # noqa
        return CaseResult(
            [Violation('C12:config-load-raises:' + exc_sig(exc),
                       f'{type(exc).__name__}: {exc} while loading\n'
                       + _c11.flow_text(case, extra))],
            nontrivial=False, classes=classes)
    classes.append('B:accepted')
    tdef = cfg.taskdefs['t']
    eff = dict(decl)
    if 'succeeded' not in eff and 'failed' not in eff:
        eff['succeeded'] = True
    for o in outputs:
        if tdef.outputs[o][1] != eff.get(o) or tdef.outputs[o][0] != msg_of[o]:
            classes.append('declaration-not-applied')
            return CaseResult([], classes=classes, inconclusive=True)

    # (1) validation accepted => consistent
    for o, kind in incons:
        if compvar(o) in collided:
            sig = 'C12:compvar-collision:validation-accepts-inconsistent'
        else:
            sig = f'C12:validation-accepts-inconsistent:{kind}'
        viol.append(Violation(
            sig,
            f'output {o} is {_KIND_TEXT[kind]}, yet WorkflowConfig accepted '
            f'completion = {cexpr.render(tree, case.get("style", 0))!r} with '
            f'graph declaration {decl} (True=required); customs {customs}'))
        break

    # (2) classification of the loaded task's expression
    expr_s = tdef.rtconfig['completion']
    try:
        got = get_optional_outputs(expr_s, tdef.outputs)
        req = set(TaskOutputs(tdef).iter_required_messages())
    except Exception as exc:  # noqa
        viol.append(Violation('C12:classify-raises:' + exc_sig(exc),
                              f'{expr_s!r}: {exc!r}'))
        return CaseResult(viol, nontrivial=nontrivial, classes=classes)
    name = {True: 'optional', False: 'required', None: 'unreferenced'}
    for cv, w in cls.items():
        if cv in collided:
            continue
        g = got.get(cv, 'missing')
        if g != w:
            viol.append(Violation(
                f'C12:classification:{name.get(w, w)}-classified-as-'
                f'{name.get(g, g)}',
                f'task completion {expr_s!r} (declaration {decl}): output '
                f'{cv}: cylc {name.get(g, g)}, model {name.get(w, w)}'))
            break
    safe = [o for o in outputs if compvar(o) not in collided]
    want_req = {msg_of[o] for o in safe if cls[compvar(o)] is False}
    got_req = {m for m in req if m in {msg_of[o] for o in safe}}
    if got_req != want_req and not viol:
        viol.append(Violation(
            'C12:iter_required_messages-differs',
            f'task completion {expr_s!r}: yielded {sorted(got_req)}, model '
            f'{sorted(want_req)}'))

    # (3) skip mode default outputs
    if cls.get('succeeded') is False and cls.get('failed') is False:
        classes.append('skip-unsatisfiable')
    else:
        classes.append('skip-checked')
        try:
            itask = TaskProxy(Tokens('~u/w'), tdef, cfg.start_point)
            res = set(process_outputs(itask, tdef.rtconfig))
            res2 = set(process_outputs(itask, None))
        except Exception as exc:  # noqa
            viol.append(Violation('C12:skip-default:raises:' + exc_sig(exc),
                                  repr(exc)))
            return CaseResult(viol, nontrivial=nontrivial, classes=classes)
        if res != res2:
            viol.append(Violation(
                'C12:skip-default:rtconfig-vs-none-differ',
                f'{sorted(res)} vs {sorted(res2)}'))
        missing = want_req - res
        if missing == {'failed'}:
            viol.append(Violation(
                'C12:skip-default:required-failed-not-generated',
                f'task completion {expr_s!r} requires "failed"; default '
                f'skip-mode outputs {sorted(res)} contain succeeded instead'))
        elif missing:
            viol.append(Violation(
                'C12:skip-default:required-output-missing',
                f'task completion {expr_s!r}: required {sorted(want_req)}; '
                f'default skip-mode outputs {sorted(res)} lack '
                f'{sorted(missing)}'))
        n_final = len(res & {'succeeded', 'failed'})
        if n_final != 1:
            viol.append(Violation(
                'C12:skip-default:not-exactly-one-of-succeeded-failed',
                f'task completion {expr_s!r}: default skip-mode outputs '
                f'{sorted(res)}'))
    return CaseResult(viol, nontrivial=nontrivial, classes=classes)


def check_case(case, ctx: Ctx) -> CaseResult:
    res = _check_case(case, ctx)
    if case.get('kind') != 'expr':
        # part B class counts on their own (part A dominates the totals)
        d = ctx.col.extra.setdefault('part_B_class_counts', {})
        d['cases'] = d.get('cases', 0) + 1
        for c in res.classes:
            d[c] = d.get(c, 0) + 1
        if res.nontrivial:
            d['nontrivial'] = d.get('nontrivial', 0) + 1
    return res


def _check_case(case, ctx: Ctx) -> CaseResult:
    if case.get('kind') == 'expr':
        viol, nt, vals = check_expr(case['tree'], case['style'])
        return CaseResult(viol, nontrivial=nt, classes=['part-A-expression'])
    return check_config(case, ctx)


def run_shard(ctx: Ctx):
    run_part_a(ctx)
    hyp_run(ctx, configs(), check_case, ctx.share(BUDGET[ctx.tier]))
