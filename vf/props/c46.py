"""C46 Warm starts and start tasks run only what follows the start."""
from __future__ import annotations

from hypothesis import strategies as st

from vf.core import CaseResult, Ctx, Violation, hyp_run
from vf.gen.wfspec import atoms_of, wfspecs
from vf.props import c01
from vf.sim.drive import SCase, outcome_maps, run_async, schedules
from vf.sim.model import Model, atom_target

PROP_ID = 'C46'
LEVEL = 'exploration'
BUDGET = {'quick': 450, 'thorough': 12000}
MANIFEST = {
    'engine': 'S',
    'technique': 'model-based PBT on the stepped scheduler: warm-start / '
                 'start-task runs vs. reference closure from the start',
}
RULE = (
    'Generated workflow (C01 domain) started either with --start-cycle-point '
    'in (ICP, FCP] (warm start) or with 1-2 --start-task instances drawn '
    'from the model instances; random outcomes and schedules.  Warm start '
    'oracle: no job launched at a point before the start point; every launch '
    'has its model prerequisite true with atoms before the start point '
    'counted satisfied; when every finished task is complete the launched '
    'set equals the model closure computed from the start point and the '
    'scheduler shuts down by itself.  Start-task oracle: every start task is '
    'launched; every launched instance is a start task or a graph descendant '
    'of one (reachable through trigger edges, or a later parentless instance '
    'of a reached task, which the scheduler auto-spawns; parentless is taken '
    'relative to the earliest start-task point, before which dependencies '
    'count as satisfied); nothing before the earliest '
    'start task point that is not a descendant runs.  Non-trivial = warm '
    'start with an inter-cycle trigger crossing the start point, or start '
    'tasks that are not the whole first cycle; distinct by the case.')
ASSUMPTIONS = [
    'No manual triggering in this profile.',
    'Start-task mode checks containment (start tasks subset of launched '
    'subset of descendants), the part the statement fixes; which descendants '
    'are runnable depends on off-flow prerequisites and is not asserted.',
] + c01.ASSUMPTIONS[:3]


@st.composite
def cases(draw):
    spec = draw(wfspecs({'max_tasks': 5, 'max_fcp': 6}))
    outcomes = draw(outcome_maps(spec))
    sched = draw(schedules(30))
    mode = draw(st.sampled_from(['warm', 'warm', 'tasks']))
    model = Model(spec)
    start = None
    tasks = None
    if mode == 'warm':
        start = draw(st.integers(spec['icp'] + 1, spec['fcp']))
    else:
        insts = model.instances()
        if not insts:
            mode, start = 'warm', spec['fcp']
        else:
            k = draw(st.integers(1, min(2, len(insts))))
            tasks = [list(i) for i in draw(st.lists(
                st.sampled_from(insts), min_size=k, max_size=k, unique=True))]
    return {'spec': spec, 'outcomes': outcomes, 'schedule': sched,
            'mode': mode, 'start': start, 'start_tasks': tasks}


def check_case(case, ctx: Ctx) -> CaseResult:
    return run_async(_check(case, ctx))


def descendants(model: Model, roots):
    reach = set(roots)
    insts = model.instances()
    changed = True
    while changed:
        changed = False
        for (t, p) in insts:
            if (t, p) in reach:
                continue
            # the next parentless instances of a reached task are auto-spawned
            # when it is released (the flow "leads to" them)
            if model.parentless(t, p) and any(
                    (t, q) in reach for q in model.valid[t] if q < p):
                reach.add((t, p))
                changed = True
                continue
            for tr in model.trees_at(t, p):
                if any((a['t'], atom_target(a, p)) in reach
                       for a in atoms_of(tr)):
                    reach.add((t, p))
                    changed = True
                    break
    return reach


async def _check(case, ctx: Ctx) -> CaseResult:
    spec, outcomes = case['spec'], case['outcomes']
    from vf.sim.drive import point_maps
    to_int, to_str = point_maps(spec)
    if case['mode'] == 'warm':
        opts = {'startcp': to_str[case['start']]}
    else:
        opts = {'starttask': [f'{to_str[p]}/{t}'
                              for (t, p) in case['start_tasks']]}
    async with SCase(case, ctx, start_opts=opts) as sc:
        if sc.rejected:
            return CaseResult(sc.crash_violations('C46'), False,
                              ['rejected:' + sc.rejected])
        sim = sc.sim
        await sc.run_schedule()
        await sc.drain()
        classes = [case['mode']]
        viol = []
        launched = {(n, to_int.get(c)) for (c, n, _s) in sim.journal}
        if case['mode'] == 'warm':
            start = case['start']
            model = Model(spec, start=start)
            sc.drv.model = model
            for (t, p) in sorted(launched):
                if p is not None and p < start:
                    viol.append(Violation(
                        'C46:launched-before-start-point',
                        f'{to_str.get(p, p)}/{t} launched; start point is '
                        f'{start}'))
            viol += c01.oracle(spec, outcomes, model, sc.drv, sc.shut,
                               sc.quiescent, classes, prop='C46')
            crossing = any(
                (a.get('off') or 0) < 0
                for sec in spec['sections'] for ln in sec['lines']
                for a in atoms_of(ln['lhs']))
            nontrivial = crossing and len(launched) >= 2
            if crossing:
                classes.append('offset-crosses-start')
        else:
            viol += sc.crash_violations('C46')
            roots = {(t, p) for (t, p) in case['start_tasks']}
            # cylc takes the earliest start-task point as the start point
            # "for use in pre-initial ignore" (config.process_start_cycle_
            # point): dependencies on earlier instances count as satisfied,
            # so instances all of whose parents are earlier are parentless
            smodel = Model(spec, start=min(p for (_t, p) in roots))
            reach = descendants(smodel, roots)
            for r in sorted(roots - launched):
                if sc.shut or sc.quiescent:
                    viol.append(Violation(
                        'C46:start-task-not-run',
                        f'start task {r} was never launched'))
            for x in sorted(launched - reach):
                viol.append(Violation(
                    'C46:ran-instance-not-led-to-by-start-tasks',
                    f'{x} launched but is neither a start task nor a graph '
                    f'descendant of {sorted(roots)}'))
            first = {i for i in sc.model.instances() if i[1] == spec['icp']}
            nontrivial = roots != first and len(launched) >= 2
        uniq = {}
        for v in viol:
            uniq.setdefault(v.sig, v)
        return CaseResult(list(uniq.values()), nontrivial, sorted(set(classes)),
                          inconclusive=sc.inconclusive,
                          info={'flow': sc.drv.flow_text, 'opts': opts})


def run_shard(ctx: Ctx):
    hyp_run(ctx, cases(), check_case, ctx.share(BUDGET[ctx.tier]))
