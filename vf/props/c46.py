"""C46 Warm starts and start tasks run only what follows the start."""
from __future__ import annotations

from hypothesis import strategies as st

from vf.core import CaseResult, Ctx, Violation, hyp_run
from vf.gen.wfspec import atoms_of, rec_points, wfspecs
from vf.props import c01
from vf.sim.drive import (
    SCase, heard_result_of, outcome_maps, run_async, schedules)
from vf.sim.model import Model, atom_target

PROP_ID = 'C46'
LEVEL = 'exploration'
BUDGET = {'quick': 450, 'thorough': 12000}
MANIFEST = {
    'engine': 'S',
    'technique': 'model-based PBT on the stepped scheduler: warm-start / '
                 'start-task runs vs. reference closure from the start; '
                 'warm starts with trigger commands (flow merges) vs. the '
                 'pre-start clause',
}
RULE = (
    'Generated workflow (C01 domain; the whole cycle-point range is shifted '
    'by a drawn amount so that integer cycle points may have different digit '
    'counts: 5..14, 8..13, 97..102 as well as 1..6) started in one of three '
    'modes.  (1) warm: --start-cycle-point in (ICP, FCP]; random outcomes '
    'and schedules.  Oracle: no job launched at a point before the start '
    'point; every launch has its model prerequisite true with atoms before '
    'the start point counted satisfied; when every finished task is complete '
    'the launched set equals the model closure computed from the start point '
    'and the scheduler shuts down by itself.  (2) tasks: 1-3 --start-task '
    'instances drawn from the model instances (any points, so several start '
    'tasks may lie in different cycles whose string order differs from their '
    'point order; in half of the cases the start tasks are drawn one per '
    'cycle point).  Oracle: every start task is '
    'launched (unless it has a trigger on an instance beyond the final '
    'cycle point: such a task is never spawned, by design; or it is still '
    'waiting in the pool of a stalled workflow); every '
    'launched instance is a start task or a graph descendant '
    'of one (reachable through trigger edges, or a later parentless instance '
    'of a reached task, which the scheduler auto-spawns; parentless is taken '
    'relative to the earliest start-task point, before which dependencies '
    'count as satisfied); nothing before the earliest '
    'start task point that is not a descendant runs.  (3) warm-trig: warm '
    'start of a workflow in which future triggers (a[+Pn] => b) are frequent '
    '(drawn with higher odds, and in 3 of 4 cases a fresh consumer task is '
    'attached to a prerequisite-free task through a future or an absolute '
    'trigger) so that tasks at/after the start point have graph children '
    'before it, with >= 1 `cylc trigger` commands '
    '(--flow unset / new / 2 / 1,2; target = a pooled task or any model '
    'instance, before or after the start point, with extra weight on '
    'instances that have a graph child before the start point) interleaved '
    'in the schedule, '
    'which re-run tasks, start new flows and merge flows into flow 1.  '
    'Oracle (first clause of the statement only): a job launched at a point '
    'before the start point whose task proxy was spawned in the original '
    'flow (flow 1 among its flow numbers when it was added to the pool, and '
    'at launch) must be the target of an earlier trigger command.  '
    'Non-trivial = warm '
    'start with an inter-cycle trigger crossing the start point, or start '
    'tasks that are not the whole first cycle, or (warm-trig) a trigger '
    'command was applied and >= 2 jobs ran; distinct by the case.')
ASSUMPTIONS = [
    'No manual commands in the warm and tasks modes; in warm-trig mode only '
    '`cylc trigger`, and there only the pre-start clause is judged (manual '
    'triggering invalidates the closure comparison).',
    'warm-trig: a pre-start instance that runs only in flows that do not '
    'include flow 1 (downstream of a manually started new flow) is counted '
    '(class pre-start-run-in-new-flow-only) but not judged, and neither is '
    'a proxy spawned in such flows into which flow 1 is merged later '
    '(class pre-start-run-new-flow-proxy-merged-with-1: it would run '
    'anyway; the warm-start guard in TaskPool.spawn_task is about spawning '
    'in flow 1, a merge spawns nothing): cylc treats '
    'pre-start tasks as already run in flow 1 only, and the statement\'s '
    '"unless manually triggered" is read to cover what a manually started '
    'flow leads to.',
    'warm mode: a plain missing-run of the C01 closure comparison that '
    'consists only of parentless instances which the restated '
    'TaskDef.next_point_parentless chain cannot reach behind a never-spawned '
    'instance with absolute + pre-start parents (recorded finding), plus '
    'what only they lead to, is reported under a signature of its own '
    '(...parentless-point-after-unspawned-absolute-plus-preinitial-point); '
    'nothing else is re-signed.',
    'Start-task mode checks containment (start tasks subset of launched '
    'subset of descendants), the part the statement fixes; which descendants '
    'are runnable depends on off-flow prerequisites and is not asserted.',
] + c01.ASSUMPTIONS[:3]

# amounts the cycle-point range is shifted by (ICP = 1 + shift): the range
# then straddles 9/10 or 99/100, where the string order of integer points
# differs from their numeric order
SHIFTS = [0, 0, 0, 0, 5, 6, 7, 8, 8, 96, 97]
# start-task mode: mostly ranges in which several start tasks in different
# cycles can have points of different width
SHIFTS_TASKS = [0, 5, 6, 6, 7, 7, 7, 8, 96, 97]
TRIG_FLOWS = [[], ['new'], ['new'], ['2'], ['1', '2']]


def shift_spec(spec, k):
    """Move every cycle point of the AST by k (in place)."""
    if not k:
        return spec
    spec['icp'] += k
    spec['fcp'] += k
    for sec in spec['sections']:
        rec = sec['rec']
        if rec['kind'] == 'R1':
            rec['at'] += k
        elif rec.get('excl'):
            rec['excl'] = [e + k for e in rec['excl']]
        for ln in sec['lines']:
            for a in atoms_of(ln['lhs']):
                if a.get('abs') is not None:
                    a['abs'] += k
    return spec


def add_backward_child(draw, spec):
    """Post-process a drawn AST (before shifting): a fresh consumer task
    `zc` in a section of its own, downstream of an existing task without
    prerequisites (a fresh `zs` if there is none) through a future trigger
    `src[+Pn] => zc` or an absolute trigger `src[<pt>] => zc` - so that
    instances of src have graph children at earlier cycle points."""
    from vf.sim.model import valid_points
    has_pre = {r for sec in spec['sections'] for ln in sec['lines']
               if ln['lhs'] is not None for r in ln['rhs']}
    valid = valid_points(spec)
    cands = [t for t in spec['tasks'] if t not in has_pre and valid[t]]
    blank = {'succ': False, 'submit': False, 'fail_required': False,
             'custom': {}}
    kind = draw(st.sampled_from(['future', 'future', 'abs']))
    if cands:
        src = draw(st.sampled_from(cands))
    else:
        src, kind = 'zs', 'future'
        spec['tasks'].append(src)
        spec['opt'][src] = dict(blank, custom={})
    spec['tasks'].append('zc')
    spec['opt']['zc'] = dict(blank, custom={})
    atom = {'t': src, 'off': None, 'abs': None, 'out': 'succeeded',
            'implicit': True, 'longform': False}
    if kind == 'future':
        step = draw(st.sampled_from([1, 1, 2]))
        atom['off'] = step * draw(st.sampled_from([1, 1, 2]))
        # src joins this section's sequence, so the instance the offset
        # points at is on-sequence (or beyond the final point)
        lines = [{'lhs': None, 'rhs': [src]}, {'lhs': atom, 'rhs': ['zc']}]
    else:
        step = 1
        atom['abs'] = draw(st.sampled_from(sorted(valid[src])))
        atom['form'] = draw(st.integers(0, 1))
        lines = [{'lhs': atom, 'rhs': ['zc']}]
    spec['sections'].append({
        'rec': {'kind': 'P', 'step': step, 'off': 0, 'excl': []},
        'lines': lines})
    return spec


@st.composite
def trig_schedules(draw, spec, start, max_len=30):
    """Schedule with >= 1 `cylc trigger` step.  Targets (Driver.pick): even
    n = n/2-th pooled task, odd n = n//2-th model instance; instances at or
    after the start point that have a graph child before it get extra
    weight."""
    model = Model(spec)
    insts = model.instances()
    parents = pre_start_children(spec, model, start)
    ns = st.integers(0, 15)
    if parents:
        ns = st.one_of(ns, st.sampled_from(
            sorted(2 * insts.index(i) + 1 for i in parents)))
    plain = st.tuples(st.sampled_from(['loop', 'loop', 'ret', 'adv', 'del']),
                      st.integers(0, 7)).map(list)
    trig = st.tuples(st.just('trigger'), ns,
                     st.sampled_from(TRIG_FLOWS)).map(list)
    head = draw(st.lists(plain, max_size=6))
    tail = draw(st.lists(st.one_of(plain, plain, plain, trig),
                         max_size=max_len - 7))
    return head + [draw(trig)] + tail


@st.composite
def cases(draw):
    mode = draw(st.sampled_from(
        ['tasks', 'warm-trig', 'warm', 'tasks', 'warm-trig', 'warm', 'warm']))
    profile = {'max_tasks': 5, 'max_fcp': 6}
    if mode == 'warm-trig':
        profile['future_odds'] = 1
    spec = draw(wfspecs(profile))
    if mode == 'warm-trig' and draw(st.integers(0, 3)):
        spec = add_backward_child(draw, spec)
    spec = shift_spec(spec, draw(st.sampled_from(
        SHIFTS_TASKS if mode == 'tasks' else SHIFTS)))
    outcomes = draw(outcome_maps(spec))
    model = Model(spec)
    start = None
    tasks = None
    if mode != 'tasks':
        start = draw(st.integers(spec['icp'] + 1, spec['fcp']))
    else:
        insts = model.instances()
        if not insts:
            mode, start = 'warm', spec['fcp']
        else:
            k = min(draw(st.sampled_from([1, 2, 2, 3])), len(insts))
            if draw(st.booleans()):
                # start tasks in k different cycles where possible
                pts = sorted({p for (_t, p) in insts})
                chosen = draw(st.lists(st.sampled_from(pts), unique=True,
                                       min_size=min(k, len(pts)),
                                       max_size=min(k, len(pts))))
                tasks = [list(draw(st.sampled_from(
                    [i for i in insts if i[1] == p]))) for p in chosen]
            else:
                tasks = [list(i) for i in draw(st.lists(
                    st.sampled_from(insts), min_size=k, max_size=k,
                    unique=True))]
    if mode == 'warm-trig':
        sched = draw(trig_schedules(spec, start, 30))
    else:
        sched = draw(schedules(30))
    return {'spec': spec, 'outcomes': outcomes, 'schedule': sched,
            'mode': mode, 'start': start, 'start_tasks': tasks}


def check_case(case, ctx: Ctx) -> CaseResult:
    return run_async(_check(case, ctx))


def descendants(model: Model, roots):
    reach = set(roots)
    insts = model.instances()
    changed = True
    while changed:
        changed = False
        for (t, p) in insts:
            if (t, p) in reach:
                continue
            # the next parentless instances of a reached task are auto-spawned
            # when it is released (the flow "leads to" them)
            if model.parentless(t, p) and any(
                    (t, q) in reach for q in model.valid[t] if q < p):
                reach.add((t, p))
                changed = True
                continue
            for tr in model.trees_at(t, p):
                if any((a['t'], atom_target(a, p)) in reach
                       for a in atoms_of(tr)):
                    reach.add((t, p))
                    changed = True
                    break
    return reach


async def _check(case, ctx: Ctx) -> CaseResult:
    spec, outcomes = case['spec'], case['outcomes']
    from vf.sim.drive import point_maps
    to_int, to_str = point_maps(spec)
    if case['mode'] in ('warm', 'warm-trig'):
        opts = {'startcp': to_str[case['start']]}
    else:
        opts = {'starttask': [f'{to_str[p]}/{t}'
                              for (t, p) in case['start_tasks']]}
    async with SCase(case, ctx, start_opts=opts) as sc:
        if sc.rejected:
            return CaseResult(sc.crash_violations('C46'), False,
                              ['rejected:' + sc.rejected])
        sim = sc.sim
        await sc.run_schedule()
        await sc.drain()
        waiting_at_end = {
            (t['name'], t['cycle']) for t in (
                sim.pool_snapshot() if sim.running else [])
            if t['status'] == 'waiting' and t['submit_num'] == 0}
        classes = [case['mode']]
        viol = []
        launched = {(n, to_int.get(c)) for (c, n, _s) in sim.journal}
        if spec['mode'] == 'integer':
            widths = {len(to_str[p]) for p in range(spec['icp'],
                                                    spec['fcp'] + 1)}
            if len(widths) > 1:
                classes.append('integer-points-of-different-width')
        if case['mode'] == 'warm-trig':
            return _check_warm_trig(case, sc, classes, launched, to_int,
                                    to_str, opts)
        if case['mode'] == 'warm':
            start = case['start']
            model = Model(spec, start=start)
            sc.drv.model = model
            for (t, p) in sorted(launched):
                if p is not None and p < start:
                    viol.append(Violation(
                        'C46:launched-before-start-point',
                        f'{to_str.get(p, p)}/{t} launched; start point is '
                        f'{start}'))
            viol += c01.oracle(spec, outcomes, model, sc.drv, sc.shut,
                               sc.quiescent, classes, prop='C46')
            result_of, _unheard = heard_result_of(sim, spec, outcomes,
                                                  to_str)
            viol = resign_chain_break(viol, spec, model, launched,
                                      result_of)
            crossing = any(
                (a.get('off') or 0) < 0
                for sec in spec['sections'] for ln in sec['lines']
                for a in atoms_of(ln['lhs']))
            nontrivial = crossing and len(launched) >= 2
            if crossing:
                classes.append('offset-crosses-start')
        else:
            viol += sc.crash_violations('C46')
            roots = {(t, p) for (t, p) in case['start_tasks']}
            # cylc takes the earliest start-task point as the start point
            # "for use in pre-initial ignore" (config.process_start_cycle_
            # point): dependencies on earlier instances count as satisfied,
            # so instances all of whose parents are earlier are parentless
            smodel = Model(spec, start=min(p for (_t, p) in roots))
            reach = descendants(smodel, roots)
            for r in sorted(roots - launched):
                # a start task with a (future) trigger on an instance beyond
                # the final cycle point can never run: the scheduler refuses
                # to spawn it ("a prerequisite is beyond the workflow stop
                # point"), by design
                if any(atom_target(a, r[1]) > spec['fcp']
                       for tr in smodel.trees_at(*r) for a in atoms_of(tr)):
                    classes.append('start-task-depends-beyond-final-point')
                    continue
                # still in the pool at the end (stalled workflow: e.g. held
                # back beyond the runahead limit because a descendant of
                # another start task waits on an off-flow prerequisite): the
                # statement says what may run, not that a blocked start
                # task must; a start task that is gone without having run
                # was dropped
                if (r[0], to_str[r[1]]) in waiting_at_end:
                    classes.append('start-task-still-waiting-at-stall')
                    continue
                if sc.shut or sc.quiescent:
                    viol.append(Violation(
                        'C46:start-task-not-run',
                        f'start task {r} was never launched and is not in '
                        f'the pool'))
            for x in sorted(launched - reach):
                viol.append(Violation(
                    'C46:ran-instance-not-led-to-by-start-tasks',
                    f'{x} launched but is neither a start task nor a graph '
                    f'descendant of {sorted(roots)}'))
            first = {i for i in sc.model.instances() if i[1] == spec['icp']}
            nontrivial = roots != first and len(launched) >= 2
            pts = sorted({p for (_t, p) in roots})
            if len(pts) > 1:
                classes.append('start-tasks-in-different-cycles')
                if spec['mode'] == 'integer' and min(
                        pts, key=lambda p: to_str[p]) != pts[0]:
                    classes.append('start-task-points-string-order-differs')
        uniq = {}
        for v in viol:
            uniq.setdefault(v.sig, v)
        return CaseResult(list(uniq.values()), nontrivial, sorted(set(classes)),
                          inconclusive=sc.inconclusive,
                          info={'flow': sc.drv.flow_text, 'opts': opts})


MIXED = 'C46:missing-run:absolute-plus-preinitial-parents-not-first-child'
CHAIN_AFTER_MIXED = ('C46:missing-run:parentless-point-after-unspawned-'
                     'absolute-plus-preinitial-point')


def _atoms_at(model, t, p):
    return [a for tr in model.trees_at(t, p) for a in atoms_of(tr)]


def cylc_parentless(model: Model, t, p) -> bool:
    """TaskDef.is_parentless(point, cutoff=start point) restated over the
    AST: no parents, all parent points before the start point, or only
    absolute triggers (a mix of absolute and pre-start parents is none of
    these - the recorded finding MIXED)."""
    atoms = _atoms_at(model, t, p)
    return (not atoms
            or all(atom_target(a, p) < model.start for a in atoms)
            or all(a.get('abs') is not None for a in atoms))


def auto_spawn_chain(spec, model: Model, t):
    """Points of task t reached by the scheduler's parentless auto-spawning
    from the start point: TaskDef.next_point_parentless takes, per sequence
    of t, the next point and keeps it only if t is parentless there."""
    seqs = []
    for sec in spec['sections']:
        if any(t in ln['rhs'] or any(
                a['t'] == t and not a.get('off') and a.get('abs') is None
                for a in atoms_of(ln['lhs'])) for ln in sec['lines']):
            seqs.append(sorted(rec_points(sec['rec'], spec['icp'],
                                          spec['fcp'])))
    reach, cur = set(), None
    while True:
        cands = []
        for pts in seqs:
            nxt = next((q for q in pts if (
                q >= model.start if cur is None else q > cur)), None)
            if nxt is not None and cylc_parentless(model, t, nxt):
                cands.append(nxt)
        if not cands:
            return reach
        cur = min(cands)
        reach.add(cur)


def resign_chain_break(viol, spec, model: Model, launched, result_of):
    """The C01 closure comparison takes the never-spawned instances of the
    recorded finding MIXED (absolute + pre-start parents) out of the
    reference, but not the later parentless instances of the same task, which
    the scheduler reaches only by auto-spawning from the previous instance.
    Take those out as well (with everything only they lead to): if the
    launched set then equals the reference, the plain missing-run gets a
    signature of its own."""
    import ast
    import re
    if not any(v.sig == MIXED for v in viol):
        return viol

    def explained(t, p):
        if not (model.parentless(t, p) and cylc_parentless(model, t, p)):
            return False
        if p in auto_spawn_chain(spec, model, t):
            return False
        return any(
            model.start <= q < p and (t, q) not in launched
            and model.parentless(t, q) and not cylc_parentless(model, t, q)
            for q in model.valid[t])

    out = []
    for v in viol:
        m = re.search(r'never launched: (\[.*?\]) \(shutdown=.*known-shape '
                      r'instances (\[.*?\])\)$', v.detail) \
            if v.sig == 'C46:missing-run' else None
        if m:
            missing = {tuple(x) for x in ast.literal_eval(m.group(1))}
            never = {tuple(x) for x in ast.literal_eval(m.group(2))}
            for _round in range(12):
                more = {i for i in missing if explained(*i)}
                if not more:
                    break
                never |= more
                ran, _done, _amb = model.closure(result_of, never=never)
                missing = ran - launched
                if not missing:
                    if not (launched - ran):
                        v = Violation(CHAIN_AFTER_MIXED, v.detail)
                    break
        out.append(v)
    return out


def pre_start_children(spec, model: Model, start):
    """{(parent task, parent point)} at/after the start point with a graph
    child (through a future or absolute trigger) before the start point."""
    out = set()
    for (t, p) in model.instances():
        if p >= start:
            continue
        for tr in model.trees_at(t, p):
            for a in atoms_of(tr):
                q = atom_target(a, p)
                if q >= start and model.is_valid(a['t'], q):
                    out.add((a['t'], q))
    return out


def _check_warm_trig(case, sc, classes, launched, to_int, to_str, opts):
    """Warm start with `cylc trigger` commands in the schedule: only the
    pre-start clause is judged."""
    spec, start = case['spec'], case['start']
    sim = sc.sim
    viol = list(sc.crash_violations('C46'))
    parents = pre_start_children(spec, sc.model, start)
    if parents:
        classes.append('post-start-task-with-pre-start-child')
    triggered = set()       # ids targeted by a trigger command so far
    spawned_in = {}         # id -> flow numbers at its latest add_to_pool
    applied = 0
    merged = set()          # instances whose flow 1 was merged with another
    for ev in sim.trace:
        if ev['k'] == 'cmd' and ev['cmd'] == 'trigger':
            triggered.add(ev['task'])
            if ev['err'] is None:
                applied += 1
            cyc, name = ev['task'].split('/', 1)
            p = to_int.get(cyc)
            classes.append('trigger-flow:' + (','.join(ev['flow']) or 'unset'))
            classes.append('trigger-target-before-start-point'
                           if p is not None and p < start
                           else 'trigger-target-at-or-after-start-point')
            before = {(t['cycle'], t['name']): t for t in ev['before']}
            for t in ev['after']:
                b = before.get((t['cycle'], t['name']))
                if (b is not None and 1 in b['flows']
                        and len(t['flows']) > len(b['flows'])):
                    classes.append('trigger-merged-a-flow-into-flow-1')
                    merged.add((t['name'], to_int.get(t['cycle'])))
        elif ev['k'] == 'add':
            spawned_in[f'{ev["cycle"]}/{ev["name"]}'] = ev['flows']
        elif ev['k'] == 'launch':
            p = to_int.get(ev['cycle'])
            if p is None or p >= start:
                continue
            ident = f'{ev["cycle"]}/{ev["name"]}'
            if ident in triggered:
                classes.append('pre-start-run-manually-triggered')
                continue
            flows = ev.get('flows')
            if flows is None:
                classes.append('pre-start-run-flows-unknown')
                continue
            if 1 not in flows:
                classes.append('pre-start-run-in-new-flow-only')
                continue
            # the flows the proxy was spawned in (latest add_to_pool): a
            # proxy spawned downstream of a manually started flow runs
            # because of that flow, also when flow 1 is merged into it later
            # (an upstream task triggered in "all active flows" completes
            # an output of which it is the child - no spawn, only a merge)
            born = spawned_in.get(ident, flows)
            if 1 not in born:
                classes.append('pre-start-run-new-flow-proxy-merged-with-1')
                continue
            viol.append(Violation(
                'C46:launched-before-start-point',
                f'{ident} spawned in flows {born}, launched in flows '
                f'{flows} (original flow 1 among them) although the start '
                f'point is {to_str[start]} and no '
                f'trigger command targeted it (triggered: '
                f'{sorted(triggered)})'))
    if merged & parents:
        classes.append('merged-flow-on-parent-of-pre-start-child')
    uniq = {}
    for v in viol:
        uniq.setdefault(v.sig, v)
    return CaseResult(list(uniq.values()),
                      applied > 0 and len(launched) >= 2,
                      sorted(set(classes)), inconclusive=sc.inconclusive,
                      info={'flow': sc.drv.flow_text, 'opts': opts})


def run_shard(ctx: Ctx):
    hyp_run(ctx, cases(), check_case, ctx.share(BUDGET[ctx.tier]))
