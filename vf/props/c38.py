"""C38 `cylc clean` deletes only inside the workflow.

Engine F: a generated run-directory tree is materialised under the worker's
private ``~/cylc-run`` (files, dirs, standard symlink dirs pointing at an
"elsewhere" area, other symlinks pointing at a canary area / back into the
run dir / upwards / nowhere), ``cylc.flow.clean.init_clean`` (local only) is
run with generated ``--rm`` patterns or wholesale, and filesystem snapshots
before / after are compared with an independent model.
"""
from __future__ import annotations

import asyncio
import fnmatch
import itertools
import os
import shutil

from hypothesis import strategies as st

from vf.core import CaseResult, Ctx, Violation, exc_sig, hyp_run

PROP_ID = 'C38'
LEVEL = 'exploration'
BUDGET = {'quick': 4000, 'thorough': 120000}
MANIFEST = {
    'engine': 'F',
    'technique': 'generated trees + glob patterns on a real filesystem, '
                 'snapshot before/after against an independent glob model',
}
RULE = (
    'Hypothesis draws a workflow id (1 or 2 levels), a subset of the 6 '
    'standard symlink dirs (run dir, log, log/job, share, share/cycle, work) '
    'to be symlinks into an "elsewhere" area, a tree of <= 25 nodes (file, '
    'dir, symlink to a canary file/dir/loop/missing target, symlink back '
    'into the run dir, upward symlink) with names from a small pool that '
    'includes the standard names, neighbours (runN, _cylc-install, a '
    'sibling run, a sibling workflow) and either a wholesale clean or 1-3 '
    '--rm arguments built from a glob grammar (*, **, ?, [..], literal '
    'names, trailing /, colon lists, and invalid ../ and absolute forms). '
    'cylc.flow.clean.init_clean(local_only) runs on the real tree. Oracle '
    'on lstat-level snapshots: nothing outside the run dir, the targets of '
    'its standard symlink dirs and the documented tidy-ups is deleted or '
    'changed; nothing is created; every deleted path is in the set an '
    'independent glob matcher (not descending through non-standard '
    'symlinks) selects, incl. descendants; every selected path is gone; a '
    'rejected request (InputError / WorkflowFilesError) deletes nothing. '
    'Non-trivial = the tree holds at least one non-standard symlink with an '
    'existing target and the clean deleted at least one path; distinct by '
    'the case.')
ASSUMPTIONS = [
    '"Inside the workflow" = run dir, targets of its standard symlink dirs, '
    'and the documented tidy-ups (runN if it becomes broken, _cylc-install '
    'if nothing else remains, empty ancestors up to cylc-run/) (DESIGN 5a).',
    'Pattern semantics = Python glob with recursive ** (what clean.py '
    'documents: "glob"); whether */** match dot-names is not asserted either '
    'way (paths with a hidden component are don\'t-care for the "deletes '
    'every match" half, still subject to containment).',
    'A pattern matching the run dir itself (e.g. **) selects everything.',
    'Tidy-ups are permitted, never required.',
    'An exception that is not a documented rejection (InputError, '
    'WorkflowFilesError) is not by itself a violation of this property: the '
    'run is still judged by the snapshots (containment, and completeness - '
    'an abort that leaves selected paths behind is reported with the '
    'exception in the signature).',
]

STD = ['', 'log', 'log/job', 'share', 'share/cycle', 'work']
NAMES = ['a', 'b', 'ab', 'a1', 'c.txt', 'log', 'share', 'work', 'cycle',
         'job', '.hid', 'd']
LINK_NAMES = ['a', 'b', 'ab', 'a1', 'lnk', 'l2', 'd', '.hl']
SEGS = ['*', '*', '**', '**', '?', 'a*', '*b', '[ab]', '[ab]*', '*.txt', '??',
        'l*', 'a', 'b', 'ab', 'log', 'share', 'work', 'cycle', 'lnk', 'd']
_counter = itertools.count()


# ---------------------------------------------------------------- strategy
@st.composite
def cases(draw):
    nodes = []
    n = draw(st.integers(2, 25))
    for _ in range(n):
        kind = draw(st.sampled_from(
            ['f', 'f', 'd', 'd', 'd', 'lc', 'lc', 'li', 'lu', 'lb']))
        if kind in ('f', 'd'):
            name = draw(st.integers(0, len(NAMES) - 1))
        else:
            name = draw(st.integers(0, len(LINK_NAMES) - 1))
            if draw(st.integers(0, 19)) == 0:
                # rare: a standard name that is a non-conforming symlink
                name = 100 + draw(st.integers(0, 2))
        nodes.append([draw(st.integers(0, 30)), kind, name,
                      draw(st.integers(0, 30))])
    wholesale = draw(st.integers(0, 3)) == 0
    rm = []
    if not wholesale:
        for _ in range(draw(st.integers(1, 3))):
            parts = []
            for _ in range(draw(st.sampled_from([1, 1, 1, 2]))):
                r = draw(st.integers(0, 29))
                if r == 17:
                    parts.append(draw(st.sampled_from(
                        ['../run2', '/abs/x', '.', '..', 'a/../..', ' ',
                         '../c38other/run1/log', '../../c38other'])))
                    continue
                segs = draw(st.lists(st.sampled_from(SEGS), min_size=1,
                                     max_size=3))
                pat = '/'.join(segs)
                if 20 <= r < 24:
                    pat += '/'
                elif r == 24:
                    pat = 'a/../' + pat
                parts.append(pat)
            rm.append(':'.join(parts))
    return {
        'levels': draw(st.sampled_from([1, 2, 2])),
        'std': draw(st.sampled_from([0, 0, 1, 2, 8, 16, 32, 63])
                    | st.integers(0, 63)),
        'nodes': nodes,
        'wholesale': wholesale,
        'rm': rm,
        'extras': draw(st.integers(0, 31)),
    }


# ---------------------------------------------------------------- world
class Node:
    __slots__ = ('rel', 'kind', 'phys', 'children', 'target', 'std')

    def __init__(self, rel, kind, phys, target=None, std=False):
        self.rel = rel          # logical path relative to the run dir
        self.kind = kind        # 'd' dir, 'f' file, 'l' non-std symlink,
        #                         's' standard symlink dir (link + target dir)
        self.phys = phys        # physical path of the entry itself
        self.children = {}      # name -> Node (for 'd' and 's')
        self.target = target    # 's': physical target dir; 'l': link text
        self.std = std


def snapshot(roots):
    snap = {}

    def walk(path):
        try:
            entries = list(os.scandir(path))
        except OSError:
            return
        for e in entries:
            p = e.path
            if e.is_symlink():
                snap[p] = 'l:' + os.readlink(p)
            elif e.is_dir(follow_symlinks=False):
                snap[p] = 'd'
                walk(p)
            else:
                with open(p, 'rb') as f:
                    snap[p] = 'f:' + f.read(200).decode('latin1')
    for r in roots:
        if os.path.lexists(r):
            snap[r] = 'd' if not os.path.islink(r) else 'l:' + os.readlink(r)
            if not os.path.islink(r):
                walk(r)
    return snap


class World:
    def __init__(self, case, ctx):
        self.case = case
        n = next(_counter)
        self.home = os.path.expanduser('~')
        self.cylc_run = os.path.join(self.home, 'cylc-run')
        self.area = os.path.join(ctx.scratch, 'c38', f'k{n % 3}')
        self.name = f'c38w{n % 3}'
        self.id = self.name + ('/run1' if case['levels'] == 2 else '')
        self.run_dir = os.path.join(self.cylc_run, self.id)
        self.canary = os.path.join(self.area, 'canary')
        self.nonstd_live = 0
        self.bad_std_link = False
        self.has_up = False

    def wipe(self):
        shutil.rmtree(self.cylc_run, ignore_errors=True)
        shutil.rmtree(self.area, ignore_errors=True)

    def elsewhere_target(self, k, rel):
        return os.path.join(self.area, f'else{k}', 'cylc-run', self.id, rel
                            ).rstrip('/')

    def build(self):
        self.wipe()
        case = self.case
        os.makedirs(self.cylc_run)
        # canary area
        c = self.canary
        os.makedirs(os.path.join(c, 'd1', 's'))
        os.makedirs(os.path.join(c, 'loop'))
        for rel, text in [('f1', 'canary f1'), ('d1/f', 'canary d1/f'),
                          ('d1/s/g', 'canary g'), ('d1/a', 'canary a'),
                          ('d1/log', 'canary log')]:
            with open(os.path.join(c, rel), 'w') as f:
                f.write(text)
        os.symlink('.', os.path.join(c, 'loop', 'self'))
        os.symlink(os.path.join(c, 'missing'), os.path.join(c, 'broken'))
        self.canary_targets = [
            os.path.join(c, 'f1'), os.path.join(c, 'd1'),
            os.path.join(c, 'd1', 's'), os.path.join(c, 'missing'),
            os.path.join(c, 'loop'), c, os.path.join(c, 'd1'),
        ]
        # run dir + standard symlink dirs
        std = case['std']
        os.makedirs(os.path.dirname(self.run_dir), exist_ok=True)
        if std & 1:
            tgt = self.elsewhere_target(0, '')
            os.makedirs(tgt)
            os.symlink(tgt, self.run_dir)
            self.root = Node('', 's', self.run_dir, target=tgt, std=True)
        else:
            os.makedirs(self.run_dir)
            self.root = Node('', 'd', self.run_dir)
        self.dirs = [self.root]      # nodes that can hold children
        for i, rel in enumerate(STD):
            if i == 0 or not std >> i & 1:
                continue
            parent = self.ensure_dir(os.path.dirname(rel))
            if parent is None:
                continue
            name = os.path.basename(rel)
            if name in parent.children:
                continue
            tgt = self.elsewhere_target(i, rel)
            os.makedirs(tgt)
            phys = os.path.join(self.real_dir(parent), name)
            os.symlink(tgt, phys)
            node = Node(rel, 's', phys, target=tgt, std=True)
            parent.children[name] = node
            self.dirs.append(node)
        # generated nodes
        for pidx, kind, nidx, aux in case['nodes']:
            parent = self.dirs[pidx % len(self.dirs)]
            if kind in ('f', 'd'):
                name = NAMES[nidx % len(NAMES)]
            elif nidx >= 100:
                name = ['log', 'share', 'work'][nidx % 3]
            else:
                name = LINK_NAMES[nidx % len(LINK_NAMES)]
            if name in parent.children:
                continue
            rel = os.path.join(parent.rel, name) if parent.rel else name
            phys = os.path.join(self.real_dir(parent), name)
            if kind == 'f':
                with open(phys, 'w') as f:
                    f.write('file ' + rel)
                parent.children[name] = Node(rel, 'f', phys)
            elif kind == 'd':
                os.mkdir(phys)
                node = Node(rel, 'd', phys)
                parent.children[name] = node
                self.dirs.append(node)
            else:
                if kind == 'lc':
                    tgt = self.canary_targets[aux % len(self.canary_targets)]
                elif kind == 'li':
                    # back into the run dir (logical dir, may be the root).
                    # At most one link that can close a cycle per tree:
                    # glob's ** follows symlinks, two of them in one
                    # directory would make the walk exponential.
                    if self.has_up:
                        continue
                    self.has_up = True
                    d = self.dirs[aux % len(self.dirs)]
                    tgt = os.path.join(self.run_dir, d.rel) if aux % 2 else \
                        os.path.relpath(os.path.join(self.run_dir, d.rel),
                                        os.path.join(self.run_dir, parent.rel))
                elif kind == 'lu':
                    # (with a runN link next to the run dir an upward link
                    # gives ** two routes per level: glob, which follows
                    # symlinks, then needs exponential time - not generated)
                    if self.has_up or (
                            case['levels'] == 2 and case['extras'] & 1):
                        continue
                    self.has_up = True
                    tgt = os.path.dirname(self.run_dir)
                else:
                    tgt = 'nowhere/at/all'
                os.symlink(tgt, phys)
                if os.path.exists(phys):
                    self.nonstd_live += 1
                if rel in STD:
                    self.bad_std_link = True
                parent.children[name] = Node(rel, 'l', phys, target=tgt)
        # neighbours
        ex = case['extras']
        wdir = os.path.dirname(self.run_dir)
        self.neigh = {}
        if case['levels'] == 2:
            if ex & 1:
                os.symlink('run1' if ex & 2 else 'run2',
                           os.path.join(wdir, 'runN'))
            if ex & 4:
                os.makedirs(os.path.join(wdir, '_cylc-install'))
                os.symlink(self.canary, os.path.join(
                    wdir, '_cylc-install', 'source'))
            if ex & 8:
                os.makedirs(os.path.join(wdir, 'run2', 'share'))
                with open(os.path.join(wdir, 'run2', 'share', 'a'), 'w') as f:
                    f.write('sibling run')
        if ex & 16:
            other = os.path.join(self.cylc_run, 'c38other', 'run1')
            os.makedirs(os.path.join(other, 'log'))
            with open(os.path.join(other, 'log', 'a'), 'w') as f:
                f.write('sibling workflow')

    def real_dir(self, node):
        return node.target if node.kind == 's' else node.phys

    def ensure_dir(self, rel):
        """Logical dir node for rel (created as plain dirs if missing)."""
        node = self.root
        if not rel:
            return node
        for part in rel.split('/'):
            child = node.children.get(part)
            if child is None:
                phys = os.path.join(self.real_dir(node), part)
                os.mkdir(phys)
                crel = os.path.join(node.rel, part) if node.rel else part
                child = Node(crel, 'd', phys)
                node.children[part] = child
                self.dirs.append(child)
            elif child.kind not in ('d', 's'):
                return None
            node = child
        return node

    # -- model --------------------------------------------------------
    def all_nodes(self):
        out = []

        def rec(node):
            out.append(node)
            for ch in node.children.values():
                rec(ch)
        rec(self.root)
        return out

    def subtree_phys(self, node, acc):
        """Physical paths removed when the logical node is removed."""
        acc.add(node.phys)
        if node.kind == 's':
            acc.add(node.target)
        for ch in node.children.values():
            self.subtree_phys(ch, acc)

    def isdir_follow(self, node):
        if node.kind in ('d', 's'):
            return True
        if node.kind == 'l':
            return os.path.isdir(node.phys)
        return False


def norm_patterns(rm_args):
    """Independent reading of the documented --rm syntax: colon separated,
    stripped, normalised; absolute or upward paths are rejected."""
    out = []
    for item in rm_args:
        for part in item.split(':'):
            part = part.strip()
            if not part:
                continue
            isdir = part.endswith('/')
            part = os.path.normpath(part)
            if part.startswith('/'):
                return None
            if part in ('.', '..') or part.startswith('../'):
                return None
            out.append((part, isdir))
    return out


def seg_match(seg, name, dot_rule):
    magic = any(ch in seg for ch in '*?[')
    if not magic:
        return seg == name
    if dot_rule and name.startswith('.') and not seg.startswith('.'):
        return False
    return fnmatch.fnmatchcase(name, seg)


def path_match(segs, parts, dot_rule, isdir, consumed=False):
    """glob semantics, '**' = zero or more whole segments.  A final '**'
    that consumes nothing stands for "the directory itself" ('a/**' yields
    'a/'), so it needs a directory."""
    if not segs:
        return not parts
    if segs[0] == '**':
        rest = segs[1:]
        if not rest and not parts:
            return consumed or isdir
        if rest and path_match(rest, parts, dot_rule, isdir):
            return True
        if parts and not (dot_rule and parts[0].startswith('.')):
            return path_match(segs, parts[1:], dot_rule, isdir, True)
        return False
    if not parts:
        return False
    return seg_match(segs[0], parts[0], dot_rule) and path_match(
        segs[1:], parts[1:], dot_rule, isdir)


def expected(world, pats):
    """(required, allowed): physical paths that must / may be deleted."""
    required, allowed = set(), set()
    nodes = world.all_nodes()
    req_items = []
    for pat, want_dir in pats:
        segs = pat.split('/')
        for node in nodes:
            parts = node.rel.split('/') if node.rel else []
            isdir = world.isdir_follow(node)
            if want_dir and not isdir:
                continue
            strict = path_match(segs, parts, True, isdir)
            # allowed (not required): dot-names, and Python glob's quirk that
            # a literal 'file/**' yields 'file/' although it is no directory
            loose = strict or path_match(segs, parts, False, True)
            if loose:
                world.subtree_phys(node, allowed)
            if strict:
                # a symlink matches a directories-only pattern ('x/') only
                # while its target directory exists
                cond = (os.path.realpath(node.phys)
                        if want_dir and node.kind == 'l' else None)
                req_items.append((node, cond))
    for node, cond in req_items:
        if cond is not None and any(
                cond == a or cond.startswith(a + '/') for a in allowed):
            # the patterns of one command are applied one after the other in
            # no stated order: if another pattern may delete the target
            # first, the link no longer matches when its pattern is globbed
            continue
        world.subtree_phys(node, required)
    return required, allowed


def run_clean(world, case):
    from cylc.flow.clean import init_clean
    from cylc.flow.scripts.clean import CleanOptions
    opts = CleanOptions(local_only=True,
                        rm_dirs=list(case['rm']) if not case['wholesale']
                        else [])
    asyncio.run(init_clean(world.id, opts))


# ---------------------------------------------------------------- check
def check_case(case, ctx: Ctx) -> CaseResult:
    from cylc.flow.exceptions import InputError, WorkflowFilesError
    from vf.cylcutil import reset_globals
    reset_globals()
    world = World(case, ctx)
    try:
        world.build()
        return _check(case, world, InputError, WorkflowFilesError)
    finally:
        world.wipe()


def _check(case, world, InputError, WorkflowFilesError):
    viol = []
    classes = set()
    roots = [world.cylc_run, world.area]
    before = snapshot(roots)
    pats = None if case['wholesale'] else norm_patterns(case['rm'])
    classes.add('wholesale' if case['wholesale'] else 'targeted')
    if case['std']:
        classes.add('std-symlink-dirs')
    if case['std'] & 1:
        classes.add('run-dir-is-symlink')
    if world.nonstd_live:
        classes.add('nonstd-symlink-live')
    if world.has_up:
        classes.add('cyclic-symlink')
    if world.bad_std_link:
        classes.add('nonconforming-std-symlink')
    expect_reject = None
    if not case['wholesale'] and pats is None:
        expect_reject = 'InputError'
        classes.add('invalid-rm-argument')
    if case['wholesale']:
        required = set()
        world.subtree_phys(world.root, required)
        allowed = set(required)
    elif pats is None:
        required, allowed = set(), set()
    else:
        required, allowed = expected(world, pats)
    rejected = None
    crash = crash_detail = None
    try:
        run_clean(world, case)
    except InputError as exc:
        rejected = ('InputError', exc)
    except WorkflowFilesError as exc:
        rejected = ('WorkflowFilesError', exc)
    except Exception as exc:
        # Not a clean rejection.  The statement is about what gets deleted,
        # so a crash is judged by the snapshots like any other run; it
        # qualifies the signature of an incomplete deletion.
        crash = exc_sig(exc)
        crash_detail = f'{type(exc).__name__}: {exc}'
        classes.add('crash:' + crash)
    after = snapshot(roots)
    deleted = {p for p in before if p not in after}
    created = {p for p in after if p not in before}
    changed = {p for p in before if p in after and before[p] != after[p]}

    def show(paths):
        return sorted(p.replace(world.home, '~').replace(world.area, '$AREA')
                      for p in paths)[:8]

    if created:
        viol.append(Violation('C38:created-paths', f'created: {show(created)}'))
    if changed:
        viol.append(Violation('C38:changed-paths', f'changed: {show(changed)}'))
    canary_hit = {p for p in deleted | changed
                  if p == world.canary or p.startswith(world.canary + '/')}
    if canary_hit:
        viol.append(Violation(
            'C38:canary-touched',
            f'paths outside the workflow (targets of non-standard symlinks) '
            f'were deleted/changed: {show(canary_hit)}; rm={case["rm"]} '
            f'wholesale={case["wholesale"]}'))

    if rejected is not None:
        classes.add('rejected:' + rejected[0])
        if deleted:
            viol.append(Violation(
                'C38:rejected-but-deleted',
                f'{rejected[0]} ({rejected[1]}) but paths were deleted: '
                f'{show(deleted)}'))
        if rejected[0] == 'WorkflowFilesError' and not world.bad_std_link:
            viol.append(Violation(
                'C38:unexpected-rejection',
                f'WorkflowFilesError on a valid tree: {rejected[1]}'))
        if rejected[0] == 'InputError' and expect_reject is None:
            viol.append(Violation(
                'C38:unexpected-rejection',
                f'InputError for valid --rm {case["rm"]}: {rejected[1]}'))
        return _result(case, viol, classes, False, world)
    if rejected is None and expect_reject and not world.bad_std_link:
        viol.append(Violation(
            'C38:invalid-rm-accepted',
            f'--rm {case["rm"]} (absolute / upward path) was not rejected'))

    # ---- containment
    inside = set()
    world.subtree_phys(world.root, inside)
    # documented tidy-ups
    tidy = set()
    wdir = os.path.dirname(world.run_dir)
    run_gone = not os.path.lexists(world.run_dir)
    runN = os.path.join(wdir, 'runN')
    if (run_gone and before.get(runN, '') == 'l:' + os.path.basename(
            world.run_dir)):
        tidy.add(runN)
    inst = os.path.join(wdir, '_cylc-install')
    if inst in before and wdir != world.cylc_run:
        others = [p for p in after
                  if os.path.dirname(p) == wdir and p != inst]
        if not others:
            tidy.update(p for p in before
                        if p == inst or p.startswith(inst + '/'))
    # empty ancestors: of the run dir up to cylc-run, of targets up to
    # <elsewhere>/cylc-run
    def ancestors(path, stop):
        out = []
        path = os.path.dirname(path)
        while path != stop and path.startswith(stop + '/'):
            out.append(path)
            path = os.path.dirname(path)
        return out
    for anc in ancestors(world.run_dir, world.cylc_run):
        tidy.add(anc)
    for node in world.all_nodes():
        if node.kind == 's':
            stop = node.target[:node.target.index('/cylc-run/') + 9]
            for anc in ancestors(node.target, stop):
                tidy.add(anc)
    outside = {p for p in deleted if p not in inside and p not in tidy}
    if outside - canary_hit:
        viol.append(Violation(
            'C38:deleted-outside-workflow',
            f'deleted outside the run dir / its standard symlink targets / '
            f'tidy-ups: {show(outside)}; rm={case["rm"]} '
            f'wholesale={case["wholesale"]}'))
    extra = {p for p in deleted if p in inside and p not in allowed}
    if extra:
        viol.append(Violation(
            'C38:deleted-unselected-path',
            f'deleted paths that no pattern selects (reached through a '
            f'non-standard symlink or over-match): {show(extra)}; '
            f'rm={case["rm"]}'))
    missed = {p for p in required if p in after}
    if missed and crash:
        viol.append(Violation(
            'C38:selected-path-not-deleted:after-crash:' + crash,
            f'clean aborted with {crash_detail}; paths selected by the '
            f'pattern(s) still exist: {show(missed)}; rm={case["rm"]} '
            f'wholesale={case["wholesale"]}'))
    elif missed:
        viol.append(Violation(
            'C38:selected-path-not-deleted',
            f'paths selected by the pattern(s) still exist: {show(missed)}; '
            f'rm={case["rm"]} wholesale={case["wholesale"]}'))
    if deleted:
        classes.add('deleted-something')
    if deleted & tidy:
        classes.add('tidy-up')
    if any(n.kind == 's' and n.phys in deleted for n in world.all_nodes()):
        classes.add('std-symlink-dir-removed')
    if any(n.kind == 'l' and n.phys in deleted for n in world.all_nodes()):
        classes.add('nonstd-symlink-removed')
    if not case['wholesale'] and pats:
        if any('**' in p for p, _ in pats):
            classes.add('pattern-recursive')
        if any(d for _, d in pats):
            classes.add('pattern-trailing-slash')
        if not required:
            classes.add('pattern-matches-nothing')
    return _result(case, viol, classes,
                   bool(world.nonstd_live and deleted), world)


def _result(case, viol, classes, nontrivial, world):
    seen = {}
    for v in viol:
        seen.setdefault(v.sig, v)
    return CaseResult(list(seen.values()), nontrivial=nontrivial,
                      classes=sorted(classes), distinct_key=case,
                      info={'nodes': len(world.all_nodes())})


def run_shard(ctx: Ctx):
    hyp_run(ctx, cases(), check_case, ctx.share(BUDGET[ctx.tier]))
