"""C24 Restricted expression evaluation cannot run arbitrary code.

Targets: cylc.flow.task_outputs.CompletionEvaluator,
cylc.flow.host_select.RankingExpressionEvaluator and evaluators freshly
built with cylc.flow.util.restricted_evaluator from a drawn whitelist.

Oracle (independent): the expression text is parsed by the harness with
ast.parse and walked with ast.walk; if ANY node is outside the evaluator's
whitelist the evaluator must raise its error class and no canary variable may
have been touched (no __bool__/__call__/__getattr__/__getitem__/operator
dunder recorded); otherwise the outcome (value or exception type, and the
exact sequence of canary interactions) must equal that of a reference
evaluation of the same AST with empty builtins and only the supplied
variables - so builtin names and names of the evaluator's own scope must end
in NameError.
"""
from __future__ import annotations

import ast

from hypothesis import strategies as st

from vf.core import CaseResult, Ctx, Violation, hyp_run

PROP_ID = 'C24'
LEVEL = 'exploration'
BUDGET = {'quick': 12000, 'thorough': 240000}
MANIFEST = {
    'engine': 'P',
    'technique': 'Hypothesis-generated Python expression ASTs (whitelisted '
                 'shells around non-whitelisted nodes) with canary variables; '
                 'independent ast.walk whitelist oracle',
}
RULE = (
    'Hypothesis draws a Python expression AST (depth <= 5) from Name, '
    'Constant, BoolOp(and/or), BinOp, UnaryOp, Compare, Call (args/kwargs), '
    'Attribute, Subscript/Slice, Lambda, IfExp, List/Set/Dict/generator '
    'comprehensions, NamedExpr (walrus), f-strings, Starred, Await, Yield, '
    'List, Tuple, Set, Dict nodes, with a bias towards and/or/BinOp shells '
    'around deeper nodes (for the two module-level evaluators 1 case in 4 '
    'uses only node kinds that evaluator whitelists and 1 in 4 such a tree '
    'with exactly one foreign node spliced in at a drawn leaf); rendered '
    'with ast.unparse (optionally padded with whitespace/newlines); 1 case in 8 is instead a raw token soup that may '
    'not parse. Names are canary variables (succeeded, failed, x, RESULT), '
    'unsupplied names, builtin names (len, open, __import__, eval, print, '
    'getattr) and names of the evaluator\'s own scope (expr, variables, '
    'visitor, whitelist, error_class, ast). Each case runs against one '
    'drawn target: CompletionEvaluator, RankingExpressionEvaluator, or a '
    'fresh restricted_evaluator with a drawn whitelist and error class. '
    'Thorough tier only: additionally an Atheris (libFuzzer, coverage of '
    'cylc.flow instrumented) campaign of 480,000 byte inputs decoded into '
    '(target, truth values, whitelist, expression text) with the same '
    'oracle, seeded with the expressions of the repo doctests; anything it '
    'reports is re-checked through the plain replay path (counts in '
    'atheris_runs / atheris_cases_checked). '
    'Non-trivial: the expression contains a non-whitelisted node below a '
    'whitelisted root (must be rejected untouched), or is fully whitelisted '
    'and touches a canary or an unsupplied name. Distinct by (target, '
    'source text).')
ASSUMPTIONS = [
    'The whitelists are transcribed from the source of the two module-level '
    'evaluators (isinstance semantics, e.g. ast.operator covers every '
    'binary operator for the ranking evaluator).',
    'A fully whitelisted expression is compared with Python\'s own eval of '
    'the harness-parsed AST with globals {"__builtins__": {}} and the same '
    'variables: same value / same exception type / same canary interaction '
    'log.',
    'The name __builtins__ itself (bound to the empty dict that denies the '
    'builtins) is not counted as "access to names other than the supplied '
    'variables" and is not generated.',
    'Text that the harness cannot parse: SyntaxError => the evaluator must '
    'raise its error class; any other parser failure (e.g. recursion) => any '
    'exception; in both cases no canary may be touched.',
    'Attribute/subscript access is whitelisted by design in the ranking '
    'evaluator; what is reachable through attributes of supplied objects is '
    'outside this property.',
]

COMPLETION_WL = ('Expression', 'Name', 'Load', 'BoolOp', 'And', 'Or', 'BinOp')
RANKING_WL = ('Expression', 'Name', 'Load', 'Attribute', 'Subscript', 'BinOp',
              'operator', 'UnaryOp', 'unaryop', 'Constant', 'Compare',
              'cmpop', 'List', 'Tuple')
FRESH_POOL = ['Name', 'Load', 'BoolOp', 'And', 'Or', 'BinOp', 'Add', 'Sub',
              'Mult', 'operator', 'UnaryOp', 'Not', 'USub', 'unaryop',
              'Constant', 'Compare', 'cmpop', 'Eq', 'Lt', 'List', 'Tuple',
              'Attribute', 'Subscript', 'IfExp', 'Call', 'keyword', 'Dict',
              'Set', 'Slice', 'JoinedStr', 'FormattedValue', 'Starred']

CANARIES = ['succeeded', 'failed', 'x', 'RESULT']
UNSUPPLIED = ['y', 'answer', 'len', 'open', '__import__', 'eval', 'print',
              'getattr', 'expr', 'variables', 'visitor', 'whitelist',
              'error_class', 'ast', 'expr_node', 'True_', 'self']
BINOPS = ['Add', 'Sub', 'Mult', 'Div', 'Mod', 'BitOr', 'BitAnd', 'BitXor',
          'FloorDiv', 'MatMult']
UNOPS = ['Not', 'USub', 'UAdd', 'Invert']
CMPOPS = ['Eq', 'NotEq', 'Lt', 'GtE', 'Is', 'IsNot', 'In', 'NotIn']


# -- canaries ----------------------------------------------------------------

class Canary:
    """Records every interaction into a shared log."""

    def __init__(self, name, log, truth=True):
        object.__setattr__(self, '_n', name)
        object.__setattr__(self, '_log', log)
        object.__setattr__(self, '_t', truth)

    def _rec(self, what, child=True):
        self._log.append((self._n, what))
        if child:
            return Canary(f'{self._n}.{what}', self._log, self._t)

    def __bool__(self):
        self._rec('bool', False)
        return self._t

    def __call__(self, *a, **k):
        return self._rec('call')

    def __getattr__(self, name):
        return self._rec('getattr:' + name)

    def __setattr__(self, name, value):
        self._rec('setattr:' + name, False)

    def __getitem__(self, key):
        return self._rec('getitem')

    def __iter__(self):
        self._rec('iter', False)
        return iter(())

    def __len__(self):
        self._rec('len', False)
        return 0

    def __contains__(self, item):
        self._rec('contains', False)
        return self._t

    def __index__(self):
        self._rec('index', False)
        return 0

    def __format__(self, spec):
        self._rec('format', False)
        return ''

    def __repr__(self):
        self._rec('repr', False)
        return f'<canary {self._n}>'

    def __str__(self):
        self._rec('str', False)
        return f'<canary {self._n}>'

    def __hash__(self):
        self._rec('hash', False)
        return 0

    def __await__(self):
        self._rec('await', False)
        return iter(())


def _binary(name):
    def f(self, other):
        return self._rec(name)
    return f


for _n in ('add', 'sub', 'mul', 'truediv', 'mod', 'or', 'and', 'xor',
           'floordiv', 'matmul', 'pow', 'lshift', 'rshift',
           'radd', 'rsub', 'rmul', 'rtruediv', 'rmod', 'ror', 'rand', 'rxor',
           'rfloordiv', 'rmatmul', 'rpow',
           'eq', 'ne', 'lt', 'le', 'gt', 'ge'):
    setattr(Canary, f'__{_n}__', _binary(_n))
for _n in ('neg', 'pos', 'invert'):
    setattr(Canary, f'__{_n}__', (lambda n: lambda self: self._rec(n))(_n))


def make_vars(truths):
    log = []
    return {n: Canary(n, log, t) for n, t in zip(CANARIES, truths)}, log


def canon(v, depth=0):
    if isinstance(v, Canary):
        return ('canary', object.__getattribute__(v, '_n'))
    if isinstance(v, (list, tuple, set, frozenset)) and depth < 4:
        return (type(v).__name__, [canon(i, depth + 1) for i in v])
    if isinstance(v, dict) and depth < 4:
        return ('dict', [(canon(k, depth + 1), canon(x, depth + 1))
                         for k, x in v.items()])
    if isinstance(v, (bool, int, float, str, bytes, type(None))):
        return (type(v).__name__, v)
    return ('object', type(v).__name__)


# -- AST generation (JSON trees) ----------------------------------------------

NM = ['x', 'y', 'k', 'succeeded']
ATTRS = ['available', '__class__', 'real', 'b', '_n']
OTHER_KINDS = ['UnaryOp', 'Compare', 'Call', 'Attr', 'Sub', 'Slice', 'Lambda',
               'IfExp', 'Comp', 'Walrus', 'FStr', 'Seq', 'Dict', 'Await',
               'Yield']


def draw_pure(draw, depth, target):
    """Trees using only node kinds the target whitelists."""
    if depth <= 0 or draw(st.integers(0, 3)) == 0:
        if target == 'ranking' and draw(st.integers(0, 2)) == 0:
            return ['Const', draw(st.sampled_from([0, 1, 2, 'a', True]))]
        return ['Name', draw(st.sampled_from(CANARIES * 3 + UNSUPPLIED))]

    def ch():
        return draw_pure(draw, depth - 1, target)

    if target != 'ranking':
        return ['BoolOp', draw(st.sampled_from(['And', 'Or'])),
                [ch() for _ in range(draw(st.integers(2, 3)))]]
    k = draw(st.sampled_from(['BinOp', 'BinOp', 'UnaryOp', 'Compare', 'Attr',
                              'Sub', 'Seq']))
    if k == 'BinOp':
        return [k, draw(st.sampled_from(BINOPS)), ch(), ch()]
    if k == 'UnaryOp':
        return [k, draw(st.sampled_from(UNOPS)), ch()]
    if k == 'Compare':
        return [k, ch(), [draw(st.sampled_from(CMPOPS))], [ch()]]
    if k == 'Attr':
        return [k, ch(), draw(st.sampled_from(ATTRS))]
    if k == 'Sub':
        return [k, ch(), ch()]
    return [k, draw(st.sampled_from(['List', 'Tuple'])),
            [ch() for _ in range(draw(st.integers(0, 2)))], False]


def draw_one_foreign(draw, depth, target):
    """A whitelisted-only tree with exactly one foreign node spliced in."""
    tree = draw_pure(draw, depth, target)

    def leaf():
        return ['Name', draw(st.sampled_from(CANARIES))]

    k = draw(st.sampled_from(
        ['Call', 'Call', 'Call0', 'Attr', 'Sub', 'Lambda', 'IfExp', 'Walrus',
         'UnaryOp', 'Compare', 'Const', 'Await', 'Comp', 'FStr', 'Seq']))
    if k == 'Call':
        foreign = ['Call', leaf(), [leaf()], []]
    elif k == 'Call0':
        foreign = ['Call', leaf(), [], []]
    elif k == 'Attr':
        foreign = ['Attr', leaf(), draw(st.sampled_from(ATTRS))]
    elif k == 'Sub':
        foreign = ['Sub', leaf(), leaf()]
    elif k == 'Lambda':
        foreign = ['Lambda', 'k', leaf()]
    elif k == 'IfExp':
        foreign = ['IfExp', leaf(), leaf(), leaf()]
    elif k == 'Walrus':
        foreign = ['Walrus', 'k', leaf()]
    elif k == 'UnaryOp':
        foreign = ['UnaryOp', draw(st.sampled_from(UNOPS)), leaf()]
    elif k == 'Compare':
        foreign = ['Compare', leaf(), [draw(st.sampled_from(CMPOPS))],
                   [leaf()]]
    elif k == 'Const':
        foreign = ['Const', draw(st.sampled_from([0, 1, 'a', True, None]))]
    elif k == 'Await':
        foreign = ['Await', leaf()]
    elif k == 'Comp':
        foreign = ['Comp', 'List', leaf(), 'k', leaf(), []]
    elif k == 'FStr':
        foreign = ['FStr', [leaf()]]
    else:
        foreign = ['Seq', draw(st.sampled_from(['List', 'Tuple', 'Set'])),
                   [leaf()], False]

    # replace one drawn leaf (Name/Const position) by the foreign node
    def paths(t, here):
        if t[0] in ('Name', 'Const'):
            yield here
            return
        for i, c in enumerate(t):
            if isinstance(c, list) and c and isinstance(c[0], str) \
                    and c[0][:1].isupper() and i > 0:
                yield from paths(c, here + [i])
            elif isinstance(c, list):
                for j, cc in enumerate(c):
                    if (isinstance(cc, list) and cc
                            and isinstance(cc[0], str)
                            and cc[0][:1].isupper()):
                        yield from paths(cc, here + [i, j])
    ps = list(paths(tree, []))
    if not ps:
        return foreign
    path = draw(st.sampled_from(ps))
    if not path:
        return foreign
    node = tree
    for i in path[:-1]:
        node = node[i]
    node[path[-1]] = foreign
    return tree


def draw_tree(draw, depth, root=False):
    """Explicit recursive draw: and/or/BinOp shells around other nodes."""
    r = draw(st.integers(0, 99))
    if depth <= 0 or (not root and r < 22):
        if draw(st.integers(0, 4)) == 0:
            return ['Const', draw(st.sampled_from(
                [0, 1, 2, 'a', '', True, None]))]
        pool = CANARIES * 3 + UNSUPPLIED
        return ['Name', draw(st.sampled_from(pool))]

    def ch():
        return draw_tree(draw, depth - 1)

    if r < 70 or (root and r < 85):
        if draw(st.booleans()):
            n = draw(st.integers(2, 3))
            return ['BoolOp', draw(st.sampled_from(['And', 'Or'])),
                    [ch() for _ in range(n)]]
        return ['BinOp', draw(st.sampled_from(BINOPS)), ch(), ch()]
    k = draw(st.sampled_from(OTHER_KINDS))
    if k == 'UnaryOp':
        return [k, draw(st.sampled_from(UNOPS)), ch()]
    if k == 'Compare':
        n = draw(st.integers(1, 2))
        return [k, ch(), [draw(st.sampled_from(CMPOPS)) for _ in range(n)],
                [ch() for _ in range(n)]]
    if k == 'Call':
        return [k, ch(), [ch() for _ in range(draw(st.integers(0, 2)))],
                [[draw(st.sampled_from(NM)), ch()]
                 for _ in range(draw(st.integers(0, 1)))]]
    if k == 'Attr':
        return [k, ch(), draw(st.sampled_from(ATTRS))]
    if k == 'Sub':
        return [k, ch(), ch()]
    if k in ('Slice', 'IfExp'):
        return [k, ch(), ch(), ch()]
    if k in ('Lambda', 'Walrus'):
        return [k, draw(st.sampled_from(NM)), ch()]
    if k == 'Comp':
        return [k, draw(st.sampled_from(['List', 'Set', 'Gen', 'Dict'])),
                ch(), draw(st.sampled_from(NM)), ch(),
                [ch() for _ in range(draw(st.integers(0, 1)))]]
    if k == 'FStr':
        return [k, [draw(st.sampled_from(['s', ' ', '{{']))
                    if draw(st.booleans()) else ch()
                    for _ in range(draw(st.integers(1, 3)))]]
    if k == 'Seq':
        return [k, draw(st.sampled_from(['List', 'Tuple', 'Set'])),
                [ch() for _ in range(draw(st.integers(0, 3)))],
                draw(st.integers(0, 4)) == 0]
    if k == 'Dict':
        return [k, [[ch(), ch()] for _ in range(draw(st.integers(0, 2)))]]
    return [k, ch()]    # Await, Yield


TOKENS = ['succeeded', 'failed', 'x', 'RESULT', 'len', 'and', 'or', 'not',
          '(', ')', '[', ']', '{', '}', '.', ',', ':', ':=', '+', '-', '*',
          '**', '/', '<', '==', 'if', 'else', 'for', 'in', 'is', 'lambda',
          'await', 'yield', 'import', 'os', '1', '"s"', 'f"{x}"', '\n', '\t',
          ';', '#', '\\', '=', '@', '~', '`', '$', '?', '\x00', '__class__']


@st.composite
def cases(draw):
    target = draw(st.sampled_from(
        ['completion', 'completion', 'ranking', 'fresh']))
    case = {'target': target,
            'truth': draw(st.lists(st.booleans(), min_size=4, max_size=4))}
    if target == 'fresh':
        case['wl'] = sorted(draw(st.lists(
            st.sampled_from(FRESH_POOL), min_size=2, max_size=12,
            unique=True)))
        case['err'] = draw(st.sampled_from(['default', 'custom', 'ctx']))
    if draw(st.integers(0, 7)) == 0:
        case['text'] = ' '.join(draw(st.lists(
            st.sampled_from(TOKENS), min_size=1, max_size=9)))
    else:
        r = draw(st.integers(0, 7))
        if target != 'fresh' and r < 2:
            case['tree'] = draw_pure(draw, draw(st.integers(1, 4)), target)
        elif target != 'fresh' and r < 4:
            case['tree'] = draw_one_foreign(
                draw, draw(st.integers(1, 3)), target)
        else:
            case['tree'] = draw_tree(draw, draw(st.integers(1, 4)), root=True)
        case['pad'] = draw(st.sampled_from(['', '', ' ', '\n', '  \t']))
    return case


# -- JSON tree -> ast -> source ----------------------------------------------

def to_ast(t):
    k = t[0]
    L = ast.Load()
    if k == 'Name':
        return ast.Name(id=t[1], ctx=L)
    if k == 'Const':
        return ast.Constant(value=t[1])
    if k == 'BoolOp':
        return ast.BoolOp(op=getattr(ast, t[1])(),
                          values=[to_ast(c) for c in t[2]])
    if k == 'BinOp':
        return ast.BinOp(left=to_ast(t[2]), op=getattr(ast, t[1])(),
                         right=to_ast(t[3]))
    if k == 'UnaryOp':
        return ast.UnaryOp(op=getattr(ast, t[1])(), operand=to_ast(t[2]))
    if k == 'Compare':
        return ast.Compare(left=to_ast(t[1]),
                           ops=[getattr(ast, o)() for o in t[2]],
                           comparators=[to_ast(c) for c in t[3]])
    if k == 'Call':
        return ast.Call(func=to_ast(t[1]), args=[to_ast(a) for a in t[2]],
                        keywords=[ast.keyword(arg=n, value=to_ast(v))
                                  for n, v in t[3]])
    if k == 'Attr':
        return ast.Attribute(value=to_ast(t[1]), attr=t[2], ctx=L)
    if k == 'Sub':
        return ast.Subscript(value=to_ast(t[1]), slice=to_ast(t[2]), ctx=L)
    if k == 'Slice':
        return ast.Subscript(
            value=to_ast(t[1]),
            slice=ast.Slice(lower=to_ast(t[2]), upper=to_ast(t[3])), ctx=L)
    if k == 'Lambda':
        return ast.Lambda(
            args=ast.arguments(posonlyargs=[], args=[ast.arg(arg=t[1])],
                               kwonlyargs=[], kw_defaults=[], defaults=[]),
            body=to_ast(t[2]))
    if k == 'IfExp':
        return ast.IfExp(test=to_ast(t[1]), body=to_ast(t[2]),
                         orelse=to_ast(t[3]))
    if k == 'Comp':
        gen = ast.comprehension(
            target=ast.Name(id=t[3], ctx=ast.Store()), iter=to_ast(t[4]),
            ifs=[to_ast(c) for c in t[5]], is_async=0)
        if t[1] == 'List':
            return ast.ListComp(elt=to_ast(t[2]), generators=[gen])
        if t[1] == 'Set':
            return ast.SetComp(elt=to_ast(t[2]), generators=[gen])
        if t[1] == 'Gen':
            return ast.GeneratorExp(elt=to_ast(t[2]), generators=[gen])
        return ast.DictComp(key=to_ast(t[2]), value=to_ast(t[2]),
                            generators=[gen])
    if k == 'Walrus':
        return ast.NamedExpr(target=ast.Name(id=t[1], ctx=ast.Store()),
                             value=to_ast(t[2]))
    if k == 'FStr':
        vals = []
        for p in t[1]:
            if isinstance(p, str):
                vals.append(ast.Constant(value=p))
            else:
                vals.append(ast.FormattedValue(value=to_ast(p),
                                               conversion=-1))
        return ast.JoinedStr(values=vals)
    if k == 'Seq':
        elts = [to_ast(c) for c in t[2]]
        if t[3] and elts:
            elts[0] = ast.Starred(value=elts[0], ctx=L)
        if t[1] == 'Set' and not elts:
            return ast.List(elts=[], ctx=L)
        cls = {'List': ast.List, 'Tuple': ast.Tuple, 'Set': ast.Set}[t[1]]
        if cls is ast.Set:
            return ast.Set(elts=elts)
        return cls(elts=elts, ctx=L)
    if k == 'Dict':
        return ast.Dict(keys=[to_ast(a) for a, _ in t[1]],
                        values=[to_ast(b) for _, b in t[1]])
    if k == 'Await':
        return ast.Await(value=to_ast(t[1]))
    if k == 'Yield':
        return ast.Yield(value=to_ast(t[1]))
    raise ValueError(k)


def source_of(case):
    if 'text' in case:
        return case['text']
    node = ast.fix_missing_locations(ast.Expression(body=to_ast(case['tree'])))
    pad = case.get('pad', '')
    return pad + ast.unparse(node) + pad


# -- targets -----------------------------------------------------------------

class _CustomError(Exception):
    pass


class _CtxError(Exception):
    def __init__(self, message, expr=None, error_type=None, error_node=None):
        super().__init__(message)
        self.expr = expr
        self.error_type = error_type
        self.error_node = error_node


def get_target(case):
    """-> (callable, whitelist classes, error class)"""
    if case['target'] == 'completion':
        from cylc.flow.exceptions import InvalidCompletionExpression
        from cylc.flow.task_outputs import CompletionEvaluator
        return (CompletionEvaluator,
                tuple(getattr(ast, n) for n in COMPLETION_WL),
                InvalidCompletionExpression)
    if case['target'] == 'ranking':
        from cylc.flow.host_select import RankingExpressionEvaluator
        return (RankingExpressionEvaluator,
                tuple(getattr(ast, n) for n in RANKING_WL), ValueError)
    from cylc.flow.util import restricted_evaluator
    wl = (ast.Expression,) + tuple(getattr(ast, n) for n in case['wl'])
    if case['err'] == 'default':
        return restricted_evaluator(*wl), wl, ValueError
    err = _CustomError if case['err'] == 'custom' else _CtxError
    return restricted_evaluator(*wl, error_class=err), wl, err


def check_case(case, ctx: Ctx) -> CaseResult:
    src = source_of(case)
    evaluator, wl, err_cls = get_target(case)
    tgt = case['target']
    classes = [f'target={tgt}']
    viol = []

    # independent analysis of the text
    parse_exc = None
    tree = None
    try:
        tree = ast.parse(src.strip(), mode='eval')
    except SyntaxError as exc:
        parse_exc = exc
    except Exception as exc:  # noqa  (ValueError, RecursionError, ...)
        parse_exc = exc
    bad = []
    if tree is not None:
        bad = sorted({type(n).__name__ for n in ast.walk(tree)
                      if not isinstance(n, wl)})
        root_ok = isinstance(tree.body, wl)

    variables, log = make_vars(case['truth'])
    try:
        got = ('value', canon(evaluator(src, **variables)))
    except BaseException as exc:  # noqa
        if isinstance(exc, (KeyboardInterrupt, SystemExit, MemoryError)):
            raise
        got = ('raise', type(exc))
    got_log = list(log)

    nontrivial = False
    if tree is None:
        classes.append('unparsable')
        if got[0] != 'raise':
            viol.append(Violation(
                f'C24:{tgt}:unparsable-text-evaluated',
                f'{src!r}: harness parse error {parse_exc!r}, evaluator '
                f'returned {got[1]}'))
        elif isinstance(parse_exc, SyntaxError) and not issubclass(
                got[1], err_cls):
            viol.append(Violation(
                f'C24:{tgt}:syntax-error-wrong-exception',
                f'{src!r}: SyntaxError expected as {err_cls.__name__}, got '
                f'{got[1].__name__}'))
        if got_log:
            viol.append(Violation(
                f'C24:{tgt}:evaluated-unparsable-text',
                f'{src!r}: canary log {got_log}'))
    elif bad:
        classes.append('must-reject')
        classes += [f'bad:{b}' for b in bad[:3]]
        if root_ok:
            classes.append('bad-node-below-whitelisted-root')
            nontrivial = True
        if got_log:
            viol.append(Violation(
                f'C24:{tgt}:evaluated-before-rejection',
                f'{src!r} contains non-whitelisted {bad} but canaries were '
                f'touched: {got_log[:6]} (outcome {got})'))
        elif got[0] != 'raise':
            viol.append(Violation(
                f'C24:{tgt}:non-whitelisted-accepted',
                f'{src!r} contains non-whitelisted {bad}; evaluator returned '
                f'{got[1]}'))
        elif not issubclass(got[1], err_cls):
            viol.append(Violation(
                f'C24:{tgt}:non-whitelisted-wrong-exception',
                f'{src!r} contains non-whitelisted {bad}; expected '
                f'{err_cls.__name__}, got {got[1].__name__}'))
    else:
        classes.append('fully-whitelisted')
        ref_vars, ref_log = make_vars(case['truth'])
        try:
            want = ('value', canon(eval(  # nosec - harness reference
                compile(tree, '<ref>', 'eval'),
                {'__builtins__': {}}, ref_vars)))
        except BaseException as exc:  # noqa
            if isinstance(exc, (KeyboardInterrupt, SystemExit, MemoryError)):
                raise
            want = ('raise', type(exc))
        names = {n.id for n in ast.walk(tree) if isinstance(n, ast.Name)}
        if names - set(CANARIES):
            classes.append('unsupplied-name')
        if want == ('raise', NameError):
            classes.append('expects-NameError')
        nontrivial = bool(ref_log) or bool(names - set(CANARIES))
        if got != want:
            kind = ('unsupplied-name-resolved'
                    if want == ('raise', NameError) else 'result-differs')
            viol.append(Violation(
                f'C24:{tgt}:{kind}',
                f'{src!r}: evaluator {got}, reference eval with empty '
                f'builtins {want}'))
        elif got_log != list(ref_log):
            viol.append(Violation(
                f'C24:{tgt}:interaction-log-differs',
                f'{src!r}: {got_log[:8]} vs reference {list(ref_log)[:8]}'))
    return CaseResult(viol, nontrivial=nontrivial, classes=classes,
                      distinct_key=[tgt, case.get('wl'), src])


# -- Atheris (thorough tier only): byte-level second driver, same oracle ------

ATHERIS_RUNS = 480000      # total over all shards
_SEED_TEXTS = [
    'succeeded', 'succeeded and x', '(succeeded and x) or failed',
    'succeeded or (failed and x)', '1 + 1', '1 * -1', '1 < RESULT',
    '1 in (1, 2, 3)', '[1,2,3][-1] + 2', 'RESULT.available > 0',
    'open("foo")', 'import sys', 'answer', 'x.b.c', 'my_function()',
    '__import__("os")', 'x - 1', '(y := succeeded)', 'lambda: x',
    '[x for x in RESULT]', 'f"{x}"', 'x if failed else succeeded',
    'succeeded and not failed',
]


def case_from_bytes(data: bytes):
    """Decode fuzzer bytes into a JSON case (same shape as Hypothesis's)."""
    if len(data) < 6:
        return None
    target = ['completion', 'ranking', 'fresh'][data[0] % 3]
    case = {'target': target,
            'truth': [bool(data[1] >> i & 1) for i in range(4)]}
    if target == 'fresh':
        mask = int.from_bytes(data[2:6], 'little')
        case['wl'] = sorted(n for i, n in enumerate(FRESH_POOL)
                            if mask >> i & 1)
        case['err'] = ['default', 'custom', 'ctx'][(data[1] >> 4) % 3]
    text = data[6:].decode('utf-8', 'ignore')
    # not this property: arithmetic that is merely expensive to evaluate
    import re
    if '**' in text or '<<' in text or re.search(r'\d{3}', text):
        return None
    case['text'] = text
    return case


def _atheris_child(argv):
    import json
    import sys
    import atheris
    out, runs, seed, workdir = argv[0], int(argv[1]), int(argv[2]), argv[3]
    with atheris.instrument_imports(include=['cylc.flow'], enable_loader_override=False):
        import cylc.flow.util  # noqa
        import cylc.flow.task_outputs  # noqa
        import cylc.flow.host_select  # noqa: F401
    import os
    corpus = os.path.join(workdir, 'corpus')
    os.makedirs(corpus, exist_ok=True)
    for i, txt in enumerate(_SEED_TEXTS):
        for t in range(3):
            with open(os.path.join(corpus, f's{i}_{t}'), 'wb') as f:
                f.write(bytes([t, 0x0f, 0xff, 0xff, 0x3f, 0x00])
                        + txt.encode())
    stats = {'runs': 0, 'decoded': 0}

    import warnings
    warnings.simplefilter('ignore')

    def one(data):
        stats['runs'] += 1
        if stats['runs'] % 2000 == 0 or stats['runs'] >= runs - 1:
            # (libFuzzer leaves through _exit: no atexit)
            with open(out + '.stats', 'w') as f:
                f.write(json.dumps(stats))
        case = case_from_bytes(data)
        if case is None:
            return
        stats['decoded'] += 1
        res = check_case(case, None)
        if res.violations:
            with open(out, 'a') as f:
                f.write(json.dumps(case) + '\n')
            raise RuntimeError(res.violations[0].sig)

    atheris.Setup(
        [sys.argv[0], f'-runs={runs}', f'-seed={seed}', '-max_len=120',
         '-timeout=20', f'-artifact_prefix={workdir}/', '-verbosity=0',
         corpus], one)
    atheris.Fuzz()


def run_atheris(ctx: Ctx):
    import json
    import os
    import subprocess
    import sys
    work = os.path.join(ctx.scratch, 'atheris')
    os.makedirs(work, exist_ok=True)
    out = os.path.join(work, 'found.jsonl')
    runs = ctx.share(ATHERIS_RUNS)
    ex = ctx.col.extra
    try:
        proc = subprocess.run(
            [sys.executable, '-m', 'vf.props.c24', '--atheris', out,
             str(runs), str(ctx.derived_seed), work],
            stdout=subprocess.PIPE, stderr=subprocess.STDOUT, timeout=600,
            cwd=work)
        ex['atheris_exit_codes'] = {str(proc.returncode): 1}
    except subprocess.TimeoutExpired:
        ex['atheris_timeouts'] = 1
    try:
        with open(out + '.stats') as f:
            stats = json.load(f)
        ex['atheris_runs'] = stats['runs']
        ex['atheris_cases_checked'] = stats['decoded']
    except (OSError, ValueError):
        ex['atheris_no_stats'] = 1
    if os.path.exists(out):
        # every fuzzer finding is re-checked through the plain replay path
        with open(out) as f:
            for line in f:
                case = json.loads(line)
                res = check_case(case, ctx)
                ctx.col.record(case, res)
                for v in ctx.col.filter_known(res.violations):
                    ctx.col.add_violation(v, case)


def run_shard(ctx: Ctx):
    hyp_run(ctx, cases(), check_case, ctx.share(BUDGET[ctx.tier]))
    if ctx.tier == 'thorough':
        run_atheris(ctx)

if __name__ == '__main__':
    import sys as _sys
    if len(_sys.argv) > 1 and _sys.argv[1] == '--atheris':
        _atheris_child(_sys.argv[2:])
