"""C24 Restricted expression evaluation cannot run arbitrary code.

Targets: cylc.flow.task_outputs.CompletionEvaluator,
cylc.flow.host_select.RankingExpressionEvaluator and evaluators freshly
built with cylc.flow.util.restricted_evaluator from a drawn whitelist.

Oracle (independent): the expression text is parsed by the harness with
ast.parse and walked with ast.walk; if ANY node is outside the evaluator's
whitelist the evaluator must raise its error class and no canary variable may
have been touched (no __bool__/__call__/__getattr__/__getitem__/operator
dunder recorded); otherwise the outcome (value or exception type, and the
exact sequence of canary interactions) must equal that of a reference
evaluation of the same AST with empty builtins and only the supplied
variables - so builtin names and names of the evaluator's own scope must end
in NameError.
"""
from __future__ import annotations

import ast

from hypothesis import strategies as st

from vf.core import CaseResult, Ctx, Violation, hyp_run

PROP_ID = 'C24'
LEVEL = 'exploration'
BUDGET = {'quick': 16000, 'thorough': 400000}
MANIFEST = {
    'engine': 'P',
    'technique': 'Hypothesis-generated Python expression ASTs (whitelisted '
                 'shells around non-whitelisted nodes) with canary variables; '
                 'independent ast.walk whitelist oracle',
}
RULE = (
    'Hypothesis draws a Python expression AST (depth <= 5) from Name, '
    'Constant, BoolOp(and/or), BinOp, UnaryOp, Compare, Call (args/kwargs), '
    'Attribute, Subscript/Slice, Lambda, IfExp, List/Set/Dict/generator '
    'comprehensions, NamedExpr (walrus), f-strings, Starred, Await, Yield, '
    'List, Tuple, Set, Dict nodes, with a bias towards and/or/BinOp shells '
    'around deeper nodes; rendered with ast.unparse (optionally padded with '
    'whitespace/newlines); 1 case in 8 is instead a raw token soup that may '
    'not parse. Names are canary variables (succeeded, failed, x, RESULT), '
    'unsupplied names, builtin names (len, open, __import__, eval, print, '
    'getattr) and names of the evaluator\'s own scope (expr, variables, '
    'visitor, whitelist, error_class, ast). Each case runs against one '
    'drawn target: CompletionEvaluator, RankingExpressionEvaluator, or a '
    'fresh restricted_evaluator with a drawn whitelist and error class. '
    'Non-trivial: the expression contains a non-whitelisted node below a '
    'whitelisted root (must be rejected untouched), or is fully whitelisted '
    'and touches a canary or an unsupplied name. Distinct by (target, '
    'source text).')
ASSUMPTIONS = [
    'The whitelists are transcribed from the source of the two module-level '
    'evaluators (isinstance semantics, e.g. ast.operator covers every '
    'binary operator for the ranking evaluator).',
    'A fully whitelisted expression is compared with Python\'s own eval of '
    'the harness-parsed AST with globals {"__builtins__": {}} and the same '
    'variables: same value / same exception type / same canary interaction '
    'log.',
    'The name __builtins__ itself (bound to the empty dict that denies the '
    'builtins) is not counted as "access to names other than the supplied '
    'variables" and is not generated.',
    'Text that the harness cannot parse: SyntaxError => the evaluator must '
    'raise its error class; any other parser failure (e.g. recursion) => any '
    'exception; in both cases no canary may be touched.',
    'Attribute/subscript access is whitelisted by design in the ranking '
    'evaluator; what is reachable through attributes of supplied objects is '
    'outside this property.',
]

COMPLETION_WL = ('Expression', 'Name', 'Load', 'BoolOp', 'And', 'Or', 'BinOp')
RANKING_WL = ('Expression', 'Name', 'Load', 'Attribute', 'Subscript', 'BinOp',
              'operator', 'UnaryOp', 'unaryop', 'Constant', 'Compare',
              'cmpop', 'List', 'Tuple')
FRESH_POOL = ['Name', 'Load', 'BoolOp', 'And', 'Or', 'BinOp', 'Add', 'Sub',
              'Mult', 'operator', 'UnaryOp', 'Not', 'USub', 'unaryop',
              'Constant', 'Compare', 'cmpop', 'Eq', 'Lt', 'List', 'Tuple',
              'Attribute', 'Subscript', 'IfExp', 'Call', 'keyword', 'Dict',
              'Set', 'Slice', 'JoinedStr', 'FormattedValue', 'Starred']

CANARIES = ['succeeded', 'failed', 'x', 'RESULT']
UNSUPPLIED = ['y', 'answer', 'len', 'open', '__import__', 'eval', 'print',
              'getattr', 'expr', 'variables', 'visitor', 'whitelist',
              'error_class', 'ast', 'expr_node', 'True_', 'self']
BINOPS = ['Add', 'Sub', 'Mult', 'Div', 'Mod', 'BitOr', 'BitAnd', 'BitXor',
          'FloorDiv', 'MatMult']
UNOPS = ['Not', 'USub', 'UAdd', 'Invert']
CMPOPS = ['Eq', 'NotEq', 'Lt', 'GtE', 'Is', 'IsNot', 'In', 'NotIn']


# -- canaries ----------------------------------------------------------------

class Canary:
    """Records every interaction into a shared log."""

    def __init__(self, name, log, truth=True):
        object.__setattr__(self, '_n', name)
        object.__setattr__(self, '_log', log)
        object.__setattr__(self, '_t', truth)

    def _rec(self, what, child=True):
        self._log.append((self._n, what))
        if child:
            return Canary(f'{self._n}.{what}', self._log, self._t)

    def __bool__(self):
        self._rec('bool', False)
        return self._t

    def __call__(self, *a, **k):
        return self._rec('call')

    def __getattr__(self, name):
        return self._rec('getattr:' + name)

    def __setattr__(self, name, value):
        self._rec('setattr:' + name, False)

    def __getitem__(self, key):
        return self._rec('getitem')

    def __iter__(self):
        self._rec('iter', False)
        return iter(())

    def __len__(self):
        self._rec('len', False)
        return 0

    def __contains__(self, item):
        self._rec('contains', False)
        return self._t

    def __index__(self):
        self._rec('index', False)
        return 0

    def __format__(self, spec):
        self._rec('format', False)
        return ''

    def __repr__(self):
        self._rec('repr', False)
        return f'<canary {self._n}>'

    def __str__(self):
        self._rec('str', False)
        return f'<canary {self._n}>'

    def __hash__(self):
        self._rec('hash', False)
        return 0

    def __await__(self):
        self._rec('await', False)
        return iter(())


def _binary(name):
    def f(self, other):
        return self._rec(name)
    return f


for _n in ('add', 'sub', 'mul', 'truediv', 'mod', 'or', 'and', 'xor',
           'floordiv', 'matmul', 'pow', 'lshift', 'rshift',
           'radd', 'rsub', 'rmul', 'rtruediv', 'rmod', 'ror', 'rand', 'rxor',
           'rfloordiv', 'rmatmul', 'rpow',
           'eq', 'ne', 'lt', 'le', 'gt', 'ge'):
    setattr(Canary, f'__{_n}__', _binary(_n))
for _n in ('neg', 'pos', 'invert'):
    setattr(Canary, f'__{_n}__', (lambda n: lambda self: self._rec(n))(_n))


def make_vars(truths):
    log = []
    return {n: Canary(n, log, t) for n, t in zip(CANARIES, truths)}, log


def canon(v, depth=0):
    if isinstance(v, Canary):
        return ('canary', object.__getattribute__(v, '_n'))
    if isinstance(v, (list, tuple, set, frozenset)) and depth < 4:
        return (type(v).__name__, [canon(i, depth + 1) for i in v])
    if isinstance(v, dict) and depth < 4:
        return ('dict', [(canon(k, depth + 1), canon(x, depth + 1))
                         for k, x in v.items()])
    if isinstance(v, (bool, int, float, str, bytes, type(None))):
        return (type(v).__name__, v)
    return ('object', type(v).__name__)


# -- AST generation (JSON trees) ----------------------------------------------

def _names():
    return st.one_of(
        st.sampled_from(CANARIES), st.sampled_from(CANARIES),
        st.sampled_from(UNSUPPLIED))


def _leaf():
    return st.one_of(
        _names().map(lambda n: ['Name', n]),
        _names().map(lambda n: ['Name', n]),
        st.sampled_from([0, 1, 2, 'a', '', True, None]).map(
            lambda v: ['Const', v]),
    )


def _extend(ch):
    nm = st.sampled_from(['x', 'y', 'k', 'succeeded'])
    attr = st.sampled_from(['available', '__class__', 'real', 'b', '_n'])
    shells = [
        st.tuples(st.sampled_from(['And', 'Or']),
                  st.lists(ch, min_size=2, max_size=3)).map(
            lambda t: ['BoolOp', t[0], t[1]]),
        st.tuples(st.sampled_from(BINOPS), ch, ch).map(
            lambda t: ['BinOp', t[0], t[1], t[2]]),
    ]
    others = [
        st.tuples(st.sampled_from(UNOPS), ch).map(
            lambda t: ['UnaryOp', t[0], t[1]]),
        st.tuples(ch, st.lists(st.tuples(st.sampled_from(CMPOPS), ch),
                               min_size=1, max_size=2)).map(
            lambda t: ['Compare', t[0], [o for o, _ in t[1]],
                       [c for _, c in t[1]]]),
        st.tuples(ch, st.lists(ch, max_size=2),
                  st.lists(st.tuples(nm, ch), max_size=1)).map(
            lambda t: ['Call', t[0], t[1], [list(k) for k in t[2]]]),
        st.tuples(ch, attr).map(lambda t: ['Attr', t[0], t[1]]),
        st.tuples(ch, ch).map(lambda t: ['Sub', t[0], t[1]]),
        st.tuples(ch, ch, ch).map(lambda t: ['Slice', t[0], t[1], t[2]]),
        st.tuples(nm, ch).map(lambda t: ['Lambda', t[0], t[1]]),
        st.tuples(ch, ch, ch).map(lambda t: ['IfExp', t[0], t[1], t[2]]),
        st.tuples(st.sampled_from(['List', 'Set', 'Gen', 'Dict']), ch, nm, ch,
                  st.lists(ch, max_size=1)).map(
            lambda t: ['Comp', t[0], t[1], t[2], t[3], t[4]]),
        st.tuples(nm, ch).map(lambda t: ['Walrus', t[0], t[1]]),
        st.lists(st.one_of(st.sampled_from(['s', ' ', '{{']), ch),
                 min_size=1, max_size=3).map(lambda p: ['FStr', p]),
        st.tuples(st.sampled_from(['List', 'Tuple', 'Set']),
                  st.lists(ch, max_size=3), st.booleans()).map(
            lambda t: ['Seq', t[0], t[1], t[2]]),
        st.lists(st.tuples(ch, ch), max_size=2).map(
            lambda kv: ['Dict', [list(p) for p in kv]]),
        ch.map(lambda c: ['Await', c]),
        ch.map(lambda c: ['Yield', c]),
    ]
    return st.one_of(*shells, *shells, *shells, st.one_of(*others),
                     st.one_of(*others))


def exprs():
    return st.recursive(_leaf(), _extend, max_leaves=8)


TOKENS = ['succeeded', 'failed', 'x', 'RESULT', 'len', 'and', 'or', 'not',
          '(', ')', '[', ']', '{', '}', '.', ',', ':', ':=', '+', '-', '*',
          '**', '/', '<', '==', 'if', 'else', 'for', 'in', 'is', 'lambda',
          'await', 'yield', 'import', 'os', '1', '"s"', 'f"{x}"', '\n', '\t',
          ';', '#', '\\', '=', '@', '~', '`', '$', '?', '\x00', '__class__']


@st.composite
def cases(draw):
    target = draw(st.sampled_from(
        ['completion', 'completion', 'ranking', 'fresh']))
    case = {'target': target,
            'truth': draw(st.lists(st.booleans(), min_size=4, max_size=4))}
    if target == 'fresh':
        case['wl'] = sorted(draw(st.lists(
            st.sampled_from(FRESH_POOL), min_size=2, max_size=12,
            unique=True)))
        case['err'] = draw(st.sampled_from(['default', 'custom', 'ctx']))
    if draw(st.integers(0, 7)) == 0:
        case['text'] = ' '.join(draw(st.lists(
            st.sampled_from(TOKENS), min_size=1, max_size=9)))
    else:
        case['tree'] = draw(exprs())
        case['pad'] = draw(st.sampled_from(['', '', ' ', '\n', '  \t']))
    return case


# -- JSON tree -> ast -> source ----------------------------------------------

def to_ast(t):
    k = t[0]
    L = ast.Load()
    if k == 'Name':
        return ast.Name(id=t[1], ctx=L)
    if k == 'Const':
        return ast.Constant(value=t[1])
    if k == 'BoolOp':
        return ast.BoolOp(op=getattr(ast, t[1])(),
                          values=[to_ast(c) for c in t[2]])
    if k == 'BinOp':
        return ast.BinOp(left=to_ast(t[2]), op=getattr(ast, t[1])(),
                         right=to_ast(t[3]))
    if k == 'UnaryOp':
        return ast.UnaryOp(op=getattr(ast, t[1])(), operand=to_ast(t[2]))
    if k == 'Compare':
        return ast.Compare(left=to_ast(t[1]),
                           ops=[getattr(ast, o)() for o in t[2]],
                           comparators=[to_ast(c) for c in t[3]])
    if k == 'Call':
        return ast.Call(func=to_ast(t[1]), args=[to_ast(a) for a in t[2]],
                        keywords=[ast.keyword(arg=n, value=to_ast(v))
                                  for n, v in t[3]])
    if k == 'Attr':
        return ast.Attribute(value=to_ast(t[1]), attr=t[2], ctx=L)
    if k == 'Sub':
        return ast.Subscript(value=to_ast(t[1]), slice=to_ast(t[2]), ctx=L)
    if k == 'Slice':
        return ast.Subscript(
            value=to_ast(t[1]),
            slice=ast.Slice(lower=to_ast(t[2]), upper=to_ast(t[3])), ctx=L)
    if k == 'Lambda':
        return ast.Lambda(
            args=ast.arguments(posonlyargs=[], args=[ast.arg(arg=t[1])],
                               kwonlyargs=[], kw_defaults=[], defaults=[]),
            body=to_ast(t[2]))
    if k == 'IfExp':
        return ast.IfExp(test=to_ast(t[1]), body=to_ast(t[2]),
                         orelse=to_ast(t[3]))
    if k == 'Comp':
        gen = ast.comprehension(
            target=ast.Name(id=t[3], ctx=ast.Store()), iter=to_ast(t[4]),
            ifs=[to_ast(c) for c in t[5]], is_async=0)
        if t[1] == 'List':
            return ast.ListComp(elt=to_ast(t[2]), generators=[gen])
        if t[1] == 'Set':
            return ast.SetComp(elt=to_ast(t[2]), generators=[gen])
        if t[1] == 'Gen':
            return ast.GeneratorExp(elt=to_ast(t[2]), generators=[gen])
        return ast.DictComp(key=to_ast(t[2]), value=to_ast(t[2]),
                            generators=[gen])
    if k == 'Walrus':
        return ast.NamedExpr(target=ast.Name(id=t[1], ctx=ast.Store()),
                             value=to_ast(t[2]))
    if k == 'FStr':
        vals = []
        for p in t[1]:
            if isinstance(p, str):
                vals.append(ast.Constant(value=p))
            else:
                vals.append(ast.FormattedValue(value=to_ast(p),
                                               conversion=-1))
        return ast.JoinedStr(values=vals)
    if k == 'Seq':
        elts = [to_ast(c) for c in t[2]]
        if t[3] and elts:
            elts[0] = ast.Starred(value=elts[0], ctx=L)
        if t[1] == 'Set' and not elts:
            return ast.List(elts=[], ctx=L)
        cls = {'List': ast.List, 'Tuple': ast.Tuple, 'Set': ast.Set}[t[1]]
        if cls is ast.Set:
            return ast.Set(elts=elts)
        return cls(elts=elts, ctx=L)
    if k == 'Dict':
        return ast.Dict(keys=[to_ast(a) for a, _ in t[1]],
                        values=[to_ast(b) for _, b in t[1]])
    if k == 'Await':
        return ast.Await(value=to_ast(t[1]))
    if k == 'Yield':
        return ast.Yield(value=to_ast(t[1]))
    raise ValueError(k)


def source_of(case):
    if 'text' in case:
        return case['text']
    node = ast.fix_missing_locations(ast.Expression(body=to_ast(case['tree'])))
    pad = case.get('pad', '')
    return pad + ast.unparse(node) + pad


# -- targets -----------------------------------------------------------------

class _CustomError(Exception):
    pass


class _CtxError(Exception):
    def __init__(self, message, expr=None, error_type=None, error_node=None):
        super().__init__(message)
        self.expr = expr
        self.error_type = error_type
        self.error_node = error_node


def get_target(case):
    """-> (callable, whitelist classes, error class)"""
    if case['target'] == 'completion':
        from cylc.flow.exceptions import InvalidCompletionExpression
        from cylc.flow.task_outputs import CompletionEvaluator
        return (CompletionEvaluator,
                tuple(getattr(ast, n) for n in COMPLETION_WL),
                InvalidCompletionExpression)
    if case['target'] == 'ranking':
        from cylc.flow.host_select import RankingExpressionEvaluator
        return (RankingExpressionEvaluator,
                tuple(getattr(ast, n) for n in RANKING_WL), ValueError)
    from cylc.flow.util import restricted_evaluator
    wl = (ast.Expression,) + tuple(getattr(ast, n) for n in case['wl'])
    if case['err'] == 'default':
        return restricted_evaluator(*wl), wl, ValueError
    err = _CustomError if case['err'] == 'custom' else _CtxError
    return restricted_evaluator(*wl, error_class=err), wl, err


def check_case(case, ctx: Ctx) -> CaseResult:
    src = source_of(case)
    evaluator, wl, err_cls = get_target(case)
    tgt = case['target']
    classes = [f'target={tgt}']
    viol = []

    # independent analysis of the text
    parse_exc = None
    tree = None
    try:
        tree = ast.parse(src.strip(), mode='eval')
    except SyntaxError as exc:
        parse_exc = exc
    except Exception as exc:  # noqa  (ValueError, RecursionError, ...)
        parse_exc = exc
    bad = []
    if tree is not None:
        bad = sorted({type(n).__name__ for n in ast.walk(tree)
                      if not isinstance(n, wl)})
        root_ok = isinstance(tree.body, wl)

    variables, log = make_vars(case['truth'])
    try:
        got = ('value', canon(evaluator(src, **variables)))
    except BaseException as exc:  # noqa
        if isinstance(exc, (KeyboardInterrupt, SystemExit, MemoryError)):
            raise
        got = ('raise', type(exc))
    got_log = list(log)

    nontrivial = False
    if tree is None:
        classes.append('unparsable')
        if got[0] != 'raise':
            viol.append(Violation(
                f'C24:{tgt}:unparsable-text-evaluated',
                f'{src!r}: harness parse error {parse_exc!r}, evaluator '
                f'returned {got[1]}'))
        elif isinstance(parse_exc, SyntaxError) and not issubclass(
                got[1], err_cls):
            viol.append(Violation(
                f'C24:{tgt}:syntax-error-wrong-exception',
                f'{src!r}: SyntaxError expected as {err_cls.__name__}, got '
                f'{got[1].__name__}'))
        if got_log:
            viol.append(Violation(
                f'C24:{tgt}:evaluated-unparsable-text',
                f'{src!r}: canary log {got_log}'))
    elif bad:
        classes.append('must-reject')
        classes += [f'bad:{b}' for b in bad[:3]]
        if root_ok:
            classes.append('bad-node-below-whitelisted-root')
            nontrivial = True
        if got_log:
            viol.append(Violation(
                f'C24:{tgt}:evaluated-before-rejection',
                f'{src!r} contains non-whitelisted {bad} but canaries were '
                f'touched: {got_log[:6]} (outcome {got})'))
        elif got[0] != 'raise':
            viol.append(Violation(
                f'C24:{tgt}:non-whitelisted-accepted',
                f'{src!r} contains non-whitelisted {bad}; evaluator returned '
                f'{got[1]}'))
        elif not issubclass(got[1], err_cls):
            viol.append(Violation(
                f'C24:{tgt}:non-whitelisted-wrong-exception',
                f'{src!r} contains non-whitelisted {bad}; expected '
                f'{err_cls.__name__}, got {got[1].__name__}'))
    else:
        classes.append('fully-whitelisted')
        ref_vars, ref_log = make_vars(case['truth'])
        try:
            want = ('value', canon(eval(  # nosec - harness reference
                compile(tree, '<ref>', 'eval'),
                {'__builtins__': {}}, ref_vars)))
        except BaseException as exc:  # noqa
            if isinstance(exc, (KeyboardInterrupt, SystemExit, MemoryError)):
                raise
            want = ('raise', type(exc))
        names = {n.id for n in ast.walk(tree) if isinstance(n, ast.Name)}
        if names - set(CANARIES):
            classes.append('unsupplied-name')
        if want == ('raise', NameError):
            classes.append('expects-NameError')
        nontrivial = bool(ref_log) or bool(names - set(CANARIES))
        if got != want:
            kind = ('unsupplied-name-resolved'
                    if want == ('raise', NameError) else 'result-differs')
            viol.append(Violation(
                f'C24:{tgt}:{kind}',
                f'{src!r}: evaluator {got}, reference eval with empty '
                f'builtins {want}'))
        elif got_log != list(ref_log):
            viol.append(Violation(
                f'C24:{tgt}:interaction-log-differs',
                f'{src!r}: {got_log[:8]} vs reference {list(ref_log)[:8]}'))
    return CaseResult(viol, nontrivial=nontrivial, classes=classes,
                      distinct_key=[tgt, case.get('wl'), src])


def run_shard(ctx: Ctx):
    hyp_run(ctx, cases(), check_case, ctx.share(BUDGET[ctx.tier]))
