"""C45 Absolute-trigger outputs satisfy every dependent instance."""
from __future__ import annotations

from hypothesis import strategies as st

from vf.core import CaseResult, Ctx, Violation, hyp_run
from vf.gen.wfspec import atoms_of, rec_points, render_flow, render_point
from vf.sim.c19_util import faithful_poll_output, run_steps
from vf.sim.drive import SCase, outcome_maps, point_maps, run_async
from vf.sim.model import Model

PROP_ID = 'C45'
LEVEL = 'exploration'
BUDGET = {'quick': 400, 'thorough': 14000}
MANIFEST = {
    'engine': 'S',
    'technique': 'PBT on the stepped scheduler: constructed absolute-trigger '
                 'graphs, restarts at generated iterations; prerequisite '
                 'snapshots of every pooled dependent after every main-loop '
                 'iteration, command and restart',
}
RULE = (
    'Constructed workflow: a source task foo on R1 / R1/<pt> / P1, an '
    'absolute trigger foo[^] | foo[<pt>] | foo[^+Pn] on output succeeded / '
    'started / custom x, feeding 1-2 dependent tasks (two dependents '
    'reference the same output or two different outputs of the one source '
    'instance, e.g. foo[^]:started => bar and foo[^] => baz) on recurrences '
    'P1, P2, +P1/P1, P1!<pt>, alone or combined (& / |) with a '
    'previous-cycle or same-cycle parent; optional runahead limit P0-P3; '
    'optional warm start '
    '(start point > initial point); integer or datetime cycling; outcome '
    'exceptions; a history of loop / return / advance / deliver / fair-round '
    'steps with 0-3 `restart` steps (real stop --now or clean stop, jobs '
    'optionally progressing while down, new Scheduler on the same run '
    'directory) at generated positions, then the fair drain.  Oracle, '
    'applied to each referenced output separately: once a '
    'process_message event shows the referenced output of the referenced '
    'source instance newly complete, every later pool snapshot (end of every '
    'main-loop iteration, Scheduler.shutdown() entry, right after restart '
    'start-up) must show the atom `<pt>/foo:<output>` satisfied in every '
    'pooled instance of a dependent whose graph line at that point contains '
    'the absolute atom (instances present at completion, added later, '
    'loaded at restart, added after a restart - labelled separately).  '
    'Non-trivial = a referenced absolute output completed and >= 1 dependent '
    'instance was checked in a snapshot taken after it; distinct by the '
    'whole case.  Classes count how often two outputs of one source '
    'instance are referenced / both completed / followed by a restart.')
ASSUMPTIONS = [
    '"Has that prerequisite satisfied" is read at main-loop iteration '
    'boundaries (and at shutdown / restart snapshots): an instance added to '
    'the pool is first looked at when the iteration that added it has '
    'finished.',
    'Which instances exist is not this property (an instance that is never '
    'spawned is C01; see the known finding about absolute + pre-initial '
    'parents): only instances observed in the pool are checked.',
    'Single flow only; no manual commands other than the stop that belongs '
    'to a restart step.',
    'The absolute atom is looked up in the prerequisite snapshot under the '
    'output\'s trigger name (and, for a custom output, also under its '
    'message); a dependent instance whose prerequisites do not list the '
    'atom at all is counted (class atom-absent) but not judged.',
    'A truthful poll result is never processed after a later message of the '
    'same job (pending jobs-poll commands are returned before a delivery '
    'step).',
    '"Recorded complete" = the first process_message event that shows the '
    'output newly complete on the source instance, or (the engine records no '
    'such event for the message that completes and removes a task) the '
    'source instance\'s removal event listing the output.',
]

OPS = ['loop', 'loop', 'ret', 'adv', 'del', 'round', 'round', 'round']


def _atom(t, off=None, abs_=None, out='succeeded', form=0):
    return {'t': t, 'off': off, 'abs': abs_, 'out': out, 'implicit': True,
            'longform': False, 'form': form}


@st.composite
def cases(draw):
    mode = 'datetime' if draw(st.integers(0, 3)) == 0 else 'integer'
    icp = 1
    fcp = draw(st.integers(2, 5))
    out = draw(st.sampled_from(
        ['succeeded', 'succeeded', 'succeeded', 'started', 'x']))
    src_kind = draw(st.sampled_from(['R1', 'R1', 'P1', 'R1at']))
    if src_kind == 'R1':
        q = icp
        src_rec = {'kind': 'R1', 'at': icp, 'form': draw(st.integers(0, 1))}
    elif src_kind == 'P1':
        q = draw(st.integers(icp, fcp))
        src_rec = {'kind': 'P', 'step': 1, 'off': 0, 'excl': []}
    else:
        q = draw(st.integers(icp, fcp))
        src_rec = {'kind': 'R1', 'at': q, 'form': 1}
    # rendering of the absolute offset: 0 `^` (only when q == icp),
    # 1 explicit point, 2 `^+Pn`
    form = draw(st.sampled_from([0, 1, 2]))
    if q != icp and form == 0:
        form = 1
    ndep = draw(st.sampled_from([1, 1, 2, 2]))
    deps = ['bar', 'baz'][:ndep]
    tasks = ['foo', 'c'] + deps
    # the output each dependent's absolute trigger references: the same one
    # for all, or (two dependents) two different outputs of the one source
    # instance
    outs = [out] * ndep
    if ndep == 2 and draw(st.integers(0, 2)):
        outs[1] = draw(st.sampled_from(
            [o for o in ('succeeded', 'started', 'x') if o != out]))
        if draw(st.booleans()):
            outs.reverse()
    custom = {'foo': {'x': draw(st.sampled_from(
        ['x', 'the x file is ready']))}} if 'x' in outs else {}
    opt = {t: {'succ': False, 'submit': False, 'fail_required': False,
               'custom': {}} for t in tasks}
    if 'x' in outs:
        opt['foo']['custom']['x'] = False
    sections = [{'rec': src_rec, 'lines': [{'lhs': None, 'rhs': ['foo']}]}]
    uses_c = False
    lhs_forms = []
    for d, d_out in zip(deps, outs):
        rk = draw(st.sampled_from(['P1', 'P1', 'P2', '+P1/P1', 'P1!']))
        if rk == 'P1':
            rec = {'kind': 'P', 'step': 1, 'off': 0, 'excl': []}
        elif rk == 'P2':
            rec = {'kind': 'P', 'step': 2, 'off': 0, 'excl': []}
        elif rk == '+P1/P1':
            rec = {'kind': 'P', 'step': 1, 'off': 1, 'excl': []}
        else:
            rec = {'kind': 'P', 'step': 1, 'off': 0,
                   'excl': [draw(st.integers(icp, fcp))]}
        if not rec_points(rec, icp, fcp):
            rec = {'kind': 'P', 'step': 1, 'off': 0, 'excl': []}
        a = _atom('foo', abs_=q, out=d_out, form=1 if form else 0)
        lf = draw(st.sampled_from([0, 0, 1, 1, 2, 3]))
        if lf in (1, 3) and rk not in ('P1', 'P2'):
            # d[-Pn] would point at an off-sequence instance at some point
            # (never satisfiable, accepted by validation): not generated
            lf = draw(st.sampled_from([0, 2]))
        lines = []
        if lf == 0:
            lhs = a
        elif lf == 1:
            lhs = {'op': '&', 'args': [a, _atom(d, off=-rec['step'])]}
        elif lf == 2:
            lhs = {'op': '&', 'args': [a, _atom('c')]}
            lines.append({'lhs': None, 'rhs': ['c']})
            uses_c = True
        else:
            lhs = {'op': '|', 'args': [a, _atom(d, off=-rec['step'])]}
        lhs_forms.append(lf)
        lines.append({'lhs': lhs, 'rhs': [d]})
        sections.append({'rec': rec, 'lines': lines})
    if not uses_c:
        tasks.remove('c')
        del opt['c']
    spec = {'mode': mode, 'icp': icp, 'fcp': fcp, 'tasks': tasks,
            'custom': custom, 'opt': opt, 'retries': {}, 'extra': {},
            'sections': sections}
    if draw(st.integers(0, 2)):
        spec['extra']['runahead'] = 'P%d' % draw(st.integers(0, 2))
    start = None
    if q > icp and draw(st.integers(0, 3)) == 0:
        # warm start at or before the source's point (the first graph child
        # of the absolute output may then lie before the start point)
        start = draw(st.integers(icp + 1, q))
    outcomes = {}
    if draw(st.integers(0, 3)) == 0:
        outcomes = draw(outcome_maps(spec))
        # the source keeps its default outcome in most cases
        if draw(st.integers(0, 3)):
            outcomes = {k: v for k, v in outcomes.items()
                        if not k.endswith('/foo')}
    nrest = draw(st.sampled_from([0, 1, 1, 1, 2, 2, 3]))
    sched = []
    for i in range(nrest):
        sched += draw(st.lists(
            st.tuples(st.sampled_from(OPS), st.integers(0, 11)).map(list),
            min_size=3 if i == 0 else 0, max_size=12 if i == 0 else 8))
        sched.append(['restart', draw(st.integers(0, 5))])
    sched += draw(st.lists(
        st.tuples(st.sampled_from(OPS), st.integers(0, 11)).map(list),
        max_size=8))
    sched = [['del', 0] if s[0] == 'del' else s for s in sched]
    return {'spec': spec, 'outcomes': outcomes, 'schedule': sched,
            'abs': {'t': 'foo', 'q': q, 'out': outs[0], 'form': form},
            'outs': outs, 'start': start, 'lhs_forms': lhs_forms}


def flow_text_of(case) -> str:
    spec, ab = case['spec'], case['abs']
    text = render_flow(spec)
    if ab['form'] == 2:
        pt = render_point(spec, ab['q'])
        k = ab['q'] - spec['icp']
        unit = '' if spec['mode'] == 'integer' else 'D'
        text = text.replace(f'{ab["t"]}[{pt}]', f'{ab["t"]}[^+P{k}{unit}]')
    return text


def check_case(case, ctx: Ctx) -> CaseResult:
    return run_async(_check(case, ctx))


def dependents_of(spec, model, ab):
    """{(task, point)} whose graph lines at that point contain the atom."""
    out = set()
    for (t, p) in model.instances():
        for tree in model.trees_at(t, p):
            for a in atoms_of(tree):
                if (a.get('abs') == ab['q'] and a['t'] == ab['t']
                        and a['out'] == ab['out']):
                    out.add((t, p))
    return out


async def _check(case, ctx: Ctx) -> CaseResult:
    spec, ab = case['spec'], case['abs']
    to_int, to_str = point_maps(spec)
    opts = {}
    if case.get('start') is not None:
        opts = {'startcp': to_str[case['start']]}
    async with SCase(case, ctx, start_opts=opts,
                     flow_text=flow_text_of(case)) as sc:
        if sc.rejected:
            return CaseResult(sc.crash_violations('C45'), False,
                              ['rejected:' + sc.rejected])
        sim = sc.sim
        faithful_poll_output(sim)
        snaps = []      # (trace length, snapshot) after every iteration
        sc.drv.after_loop.append(lambda drv: snaps.append(
            (len(sim.trace), {'k': 'snap', 'it': sim.iteration,
                              'inc': sim.incarnation,
                              'pool': sim.pool_snapshot()})))
        await run_steps(sc, case['schedule'])
        await sc.drain()
        viol = sc.crash_violations('C45')
        # merge the snapshots into the trace at the position they were taken
        trace = []
        pos = 0
        for n, snap in snaps:
            trace.extend(sim.trace[pos:n])
            trace.append(snap)
            pos = n
        trace.extend(sim.trace[pos:])
        inconclusive = sc.inconclusive
        flow_text = sc.drv.flow_text
    model = Model(spec, start=case.get('start'))
    outs = list(dict.fromkeys(case.get('outs') or [ab['out']]))
    classes = {f'form:{("^", "point", "^+Pn")[ab["form"]]}',
               'mode:' + spec['mode']}
    for lf in case.get('lhs_forms', ()):
        classes.add('lhs:' + ('abs-only', 'abs&prev-cycle', 'abs&same-cycle',
                              'abs|prev-cycle')[lf])
    if case.get('start') is not None:
        classes.add('warm-start')
    if spec['extra'].get('runahead'):
        classes.add('runahead-limit')
    if len(outs) > 1:
        classes.add('two-outputs-of-one-source-instance-referenced')
    checked = 0
    completed = []          # (trace index, incarnation) per completed output
    restarts = sum(1 for ev in trace if ev['k'] == 'restarted')
    for out in outs:
        ab_o = dict(ab, out=out)
        res = _scan(trace, spec, model, ab_o, to_int, to_str, classes, viol)
        checked += res['checked']
        if res['done_at'] is not None:
            completed.append((res['done_at'], res['done_inc']))
    classes.add(f'restarts:{restarts}')
    if len(completed) > 1:
        classes.add('two-outputs-of-one-source-instance-completed')
        last = max(i for i, _inc in completed)
        if any(ev['k'] == 'restarted' for ev in trace[last:]):
            classes.add('restart-after-two-outputs-completed')
    uniq = {}
    for v in viol:
        uniq.setdefault(v.sig, v)
    return CaseResult(
        list(uniq.values()), bool(completed) and checked > 0,
        sorted(classes), inconclusive=inconclusive,
        info={'flow': flow_text, 'checked': checked})


def _scan(trace, spec, model, ab, to_int, to_str, classes, viol) -> dict:
    """Judge one referenced output `ab['out']` of the source instance over
    the merged trace; adds class labels and violations in place."""
    deps = dependents_of(spec, model, ab)
    q_str = to_str[ab['q']]
    keys = [f'{q_str}/{ab["t"]}:{ab["out"]}']
    msg = spec.get('custom', {}).get(ab['t'], {}).get(ab['out'])
    if msg and msg != ab['out']:
        keys.append(f'{q_str}/{ab["t"]}:{msg}')
    classes.add('out:' + ('custom' if ab['out'] == 'x' else ab['out']))
    done_at = None          # trace index of the completing event
    done_inc = None
    pooled_before = set()   # dependents seen in the last snapshot before
    seen_after = {}         # ident -> phase in which first observed
    restarts = 0
    restarts_after_done = 0
    checked = 0
    added = {}              # ident -> (trace index, inc) of latest add
    for idx, ev in enumerate(trace):
        k = ev['k']
        if k == 'add':
            added[f'{ev["cycle"]}/{ev["name"]}'] = (idx, ev['inc'], 'spawn')
        elif k == 'restarted':
            # (the engine instruments add_to_pool only after start-up, so
            # proxies loaded from the DB have no `add` event of their own)
            for t in ev['pool']:
                added[f'{t["cycle"]}/{t["name"]}'] = (idx, ev['inc'], 'load')
            restarts += 1
            if done_at is not None:
                restarts_after_done += 1
        if (done_at is None and ev.get('name') == ab['t']
                and ev.get('cycle') == q_str and (
                    (k == 'pm' and ab['out'] in ev['after'][2]
                     and ab['out'] not in ev['before'][2])
                    # the engine records no `pm` event for the message that
                    # completes and removes a task: its `remove` event
                    # (emitted after the children were updated) lists the
                    # completed outputs
                    or (k == 'remove' and ab['out'] in ev['outputs']))):
            done_at, done_inc = idx, ev['inc']
            classes.add('abs-output-completed')
            if sim_in_poll(trace, idx):
                classes.add('abs-output-completed-by-poll')
            continue
        if k not in ('snap', 'restarted', 'shutdown'):
            continue
        pool = ev['pool']
        if done_at is None:
            pooled_before = {
                f'{t["cycle"]}/{t["name"]}' for t in pool
                if (t['name'], to_int.get(t['cycle'])) in deps}
            continue
        for t in pool:
            p = to_int.get(t['cycle'])
            if (t['name'], p) not in deps:
                continue
            ident = f'{t["cycle"]}/{t["name"]}'
            # how did this proxy come to be in the pool?
            a_idx, a_inc, how = added.get(ident, (-1, 1, 'spawn'))
            if a_inc > done_inc:
                # proxy created by a later incarnation: loaded from the DB
                # during its start-up, or spawned by it afterwards
                phase = ('loaded-at-restart' if how == 'load'
                         else 'spawned-after-restart')
            elif a_idx > done_at:
                phase = 'spawned-after-completion'
            elif ident in pooled_before:
                phase = 'pooled-at-completion'
            else:
                phase = 'spawned-with-completion'
            seen_after.setdefault(ident, phase)
            classes.add('dependent:' + phase)
            present = [kk for kk in keys if kk in t['sat']]
            if not present:
                classes.add('atom-absent')
                continue
            checked += 1
            if not all(t['sat'][kk] for kk in present):
                where = {'snap': f'end of iteration {ev["it"]}',
                         'restarted': f'right after restart #{restarts}',
                         'shutdown': f'shutdown in iteration {ev["it"]}'}[k]
                viol.append(Violation(
                    f'C45:dependent-unsatisfied:{phase}',
                    f'{ident} ({t["status"]}) has {present[0]} unsatisfied '
                    f'at {where} although that output was recorded complete '
                    f'in iteration {trace[done_at]["it"]} (incarnation '
                    f'{done_inc}); prerequisites: {t["sat"]}'))
    if restarts_after_done:
        classes.add('restart-after-completion')
    if len(seen_after) >= 2:
        classes.add('>=2-dependent-instances-checked')
    return {'checked': checked, 'done_at': done_at, 'done_inc': done_inc}


def sim_in_poll(trace, idx) -> bool:
    """The output-completing event at idx happened inside a jobs-poll
    callback (the engine tags status changes made there)."""
    ev = trace[idx]
    if ev['k'] == 'pm':
        return ev['flag'] == '(polled)'
    for e in reversed(trace[:idx]):
        if (e['k'] == 'state' and e['cycle'] == ev['cycle']
                and e['name'] == ev['name']):
            return e.get('stale_poll') is not None
    return False


def run_shard(ctx: Ctx):
    hyp_run(ctx, cases(), check_case, ctx.share(BUDGET[ctx.tier]))
