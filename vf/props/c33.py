"""C33 Xtriggers are called with the documented discipline."""
from __future__ import annotations

from hypothesis import strategies as st

from vf.core import CaseResult, Ctx, Violation, hyp_run
from vf.gen.wfspec import rec_points, render_flow, wfspecs
from vf.sim.drive import SCase, run_async

PROP_ID = 'C33'
LEVEL = 'exploration'
BUDGET = {'quick': 256, 'thorough': 8000}
MANIFEST = {
    'engine': 'S',
    'technique': 'PBT on the stepped scheduler: xtrigger function calls '
                 'routed to the virtual cluster with scripted results; '
                 'oracle on every process-pool submission / callback',
}
RULE = (
    'Generated integer-cycling workflow (1-3 recurrences, 2-4 tasks, all '
    'jobs succeed) with 1-3 xtrigger labels echo(TAG[, %(point)s][, '
    '%(name)s][, %(id)s], succeed=True[, sequential=..])[:PTnS] (tags from a '
    'pool of two so that labels share signatures, intervals 1-60 s or the '
    'default, per-label / workflow-level sequential flags), "@x [& @y] => t" '
    'lines on 1-4 (section, task) pairs, runahead limit P0-P3, a scripted '
    'result sequence per signature (not-yet / error output / success with or '
    'without a results dict; success for ever once the script is used up), '
    'schedules of main-loop iterations, command returns (xtrigger calls '
    'return only when the schedule says so), job steps, deliveries and clock '
    'ticks of 1-120 s, then fair drains separated by 61 s clock steps until '
    'nothing happens any more.  Monitors: every xtrigger put_command '
    '(signature, virtual time), every callback, the xtrigger prerequisite '
    'flags of all pooled tasks after every iteration.  Oracle: per signature '
    'never two calls outstanding; a call that follows a call which did not '
    'succeed starts >= the (smallest) configured interval later; no call '
    'while a task that needed the signature when a call succeeded still '
    'needs it; at the quiescent end no waiting, released task is still '
    'unsatisfied on a signature whose latest call succeeded.  Non-trivial = '
    'some signature was called twice, some call succeeded, and de-duplication '
    '/ the in-progress guard / the still-needed guard was exercised (two '
    'pooled tasks needed one signature, a call stayed outstanding past its '
    'interval, or a task still needed a signature after its success); '
    'distinct by the case.')
ASSUMPTIONS = [
    'Signature = function name and templated arguments as the scheduler '
    'hands them to the process pool; the harness computes the expected '
    'signature of every (label, task instance) from its own description of '
    'the workflow and treats an unknown signature as a harness error.',
    '"Consecutive calls at least the interval apart" is applied to a call '
    'following a call that did not succeed (the documented purpose of the '
    'interval is re-checking); after a success the signature is forgotten '
    'once no task needs it and a later new need starts afresh (those '
    're-calls are counted in class recall-after-success-within-interval, '
    'not flagged).  Start of a call = put_command; tolerance 1 ms for the '
    'self-advancing virtual clock.',
    'When two labels share a signature the smaller interval is demanded.',
    '"While any task still needs it" = a task that was in the pool with '
    'that xtrigger prerequisite unsatisfied when the call succeeded and has '
    'stayed so (same proxy) ever since.',
    '"Becomes satisfied" is decided at quiescence for tasks that are '
    'waiting and neither runahead-limited nor queued (the main loop checks '
    'xtriggers of exactly those); wall_clock xtriggers are synchronous '
    '(never submitted to the pool) and outside the domain; no commands, '
    'reload or restart.',
    'engine.Sim._cmd_kind labels xtrigger contexts "xtrigger-func" (their '
    'cmd_key is a string) so the engine branch that synthesises xtrigger '
    'results is never reached; this module overrides _cmd_kind on its Sim '
    'instance.',
]

TICKS = [1, 4, 5, 9, 10, 11, 29, 30, 31, 60, 61, 120]
INTERVALS = [None, 1, 5, 5, 30, 60]        # None = default (10 s)
TEMPLS = [[], [], [], [], ['point'], ['name'], ['id'], ['point', 'name']]
TOL = 1e-3


def label_config(lb) -> str:
    args = [lb['tag']] + [f'%({v})s' for v in lb['templ']] + ['succeed=True']
    if lb.get('seq') is not None:
        args.append(f'sequential={lb["seq"]}')
    s = f'echo({", ".join(args)})'
    if lb.get('intvl'):
        s += f':PT{lb["intvl"]}S'
    return s


def label_sig(lb, t, p) -> str:
    vals = {'point': str(p), 'name': t, 'id': f'{p}/{t}'}
    args = [lb['tag']] + [vals[v] for v in lb['templ']] + ['succeed=True']
    return f'echo({", ".join(args)})'


def label_intvl(lb) -> float:
    return float(lb.get('intvl') or 10)


def build_flow(case) -> str:
    spec = case['spec']
    lines = render_flow(spec).split('\n')
    out = []
    in_graph = False
    sec = -1
    for ln in lines:
        out.append(ln)
        if ln.strip() == '[scheduling]' and case.get('seq_default'):
            out.append('    sequential xtriggers = True')
        if ln.strip() == '[[graph]]':
            in_graph = True
        elif in_graph and ln.rstrip().endswith('= """'):
            sec += 1
            for d in case['deps']:
                if d['sec'] == sec:
                    lhs = ' & '.join('@' + x for x in d['labels'])
                    out.append(f'            {lhs} => {d["task"]}')
        elif ln.strip() == '[runtime]':
            in_graph = False
    return '\n'.join(out)


def needs_of(case):
    """(task, point) -> sorted labels, from the harness description."""
    spec = case['spec']
    out = {}
    for d in case['deps']:
        rec = spec['sections'][d['sec']]['rec']
        for p in rec_points(rec, spec['icp'], spec['fcp']):
            out.setdefault((d['task'], p), set()).update(d['labels'])
    return out


@st.composite
def cases(draw):
    spec = draw(wfspecs({'max_tasks': 4, 'max_fcp': 6, 'abs': False,
                         'future': False, 'datetime': False,
                         'optional': False, 'excl': False}))
    nlab = draw(st.integers(1, 3))
    labels = []
    for i in range(nlab):
        labels.append({
            'name': f'x{i}',
            'tag': draw(st.sampled_from(['A', 'A', 'B'])),
            'templ': draw(st.sampled_from(TEMPLS)),
            'intvl': draw(st.sampled_from(INTERVALS)),
            'seq': draw(st.sampled_from([None] * 5 + [True, False])),
        })
    spec['extra']['xtriggers'] = {lb['name']: label_config(lb)
                                  for lb in labels}
    pairs = sorted({(i, t) for i, sec in enumerate(spec['sections'])
                    for ln in sec['lines'] for t in ln['rhs']})
    k = draw(st.integers(1, min(4, len(pairs))))
    chosen = draw(st.lists(st.sampled_from(pairs), min_size=k, max_size=k,
                           unique=True))
    deps = []
    for (i, t) in chosen:
        m = draw(st.integers(1, min(2, nlab)))
        ls = draw(st.lists(st.sampled_from([lb['name'] for lb in labels]),
                           min_size=m, max_size=m, unique=True))
        deps.append({'sec': i, 'task': t, 'labels': sorted(ls)})
    spec['extra']['runahead'] = 'P%d' % draw(
        st.sampled_from([0, 0, 1, 1, 2, 3]))
    scripts = draw(st.lists(
        st.lists(st.sampled_from(['F', 'F', 'E', 'T', 'R']), max_size=4),
        min_size=1, max_size=4))
    sched = draw(st.lists(st.tuples(
        # (reload with the definition unchanged: the call discipline must
        # carry over)
        st.sampled_from(['loop', 'loop', 'loop', 'ret', 'adv', 'del',
                         'tk', 'tk', 'loop', 'ret', 'tk', 'reload']),
        st.integers(0, 11)).map(list), max_size=60))
    return {'spec': spec, 'labels': labels, 'deps': deps, 'scripts': scripts,
            'schedule': sched, 'outcomes': {},
            'seq_default': draw(st.integers(0, 7)) == 0}


def check_case(case, ctx: Ctx) -> CaseResult:
    return run_async(_check(case, ctx))


def _instrument(sim, scripts, sigs_sorted):
    """Route xtrigger calls to the cluster with scripted results; record
    put / launch / callback events."""
    from cylc.flow.subprocctx import SubFuncContext
    orig_kind = sim._cmd_kind
    sim._cmd_kind = lambda ctx: (
        'xtrigger' if isinstance(ctx, SubFuncContext) else orig_kind(ctx))
    orig_put = sim.on_put
    orig_return = sim.on_return
    n_calls = {}

    def on_put(ctx):
        if isinstance(ctx, SubFuncContext):
            sim.ev('xtrig-put', sig=ctx.get_signature(), t=sim.clock.now)
        return orig_put(ctx)

    def on_return(it):
        if it.get('kind') == 'xtrigger':
            ctx = it['ctx']
            sim.ev('xtrig-return', sig=ctx.get_signature(), t=sim.clock.now,
                   outcome=getattr(ctx, '_vf_outcome', None),
                   killed=bool(it.get('killed')))
        return orig_return(it)

    def result(sig, ctx):
        n = n_calls.get(sig, 0)
        n_calls[sig] = n + 1
        script = []
        if sig in sigs_sorted:
            script = scripts[sigs_sorted.index(sig) % len(scripts)]
        oc = script[n] if n < len(script) else 'T'
        ctx._vf_outcome = oc
        if oc == 'F':
            return [False, {}]
        if oc == 'E':
            return 'ERR'            # not a (bool, dict) pair: error output
        if oc == 'R':
            return [True, {'val': f'r{n}'}]
        return [True, {}]

    sim.on_put = on_put
    sim.on_return = on_return

    class _Results(dict):
        def get(self, key, default=None):
            return result

    sim.xtrig_results = _Results()


async def _check(case, ctx: Ctx) -> CaseResult:
    labels = {lb['name']: lb for lb in case['labels']}
    needs = needs_of(case)
    sig_intvl = {}          # model signature -> smallest configured interval
    for (t, p), ls in needs.items():
        for name in ls:
            s = label_sig(labels[name], t, p)
            iv = label_intvl(labels[name])
            sig_intvl[s] = min(iv, sig_intvl.get(s, iv))
    sigs_sorted = sorted(sig_intvl)
    flow = build_flow(case)
    sc = SCase(case, ctx, flow_text=flow)
    sim = sc.sim
    sim.clock.set(1_000_000_000.0)
    _instrument(sim, case['scripts'], sigs_sorted)
    sim.hooks.append(lambda _kind, data: data.__setitem__('vt', sim.clock.now))

    last = [None]

    def snap(_drv=None):
        tasks = {}
        for t in sim.pool_snapshot():
            xt = {k: bool(v) for k, v in t['xtriggers'].items()
                  if k in labels}
            if xt:
                tasks[f'{t["cycle"]}/{t["name"]}'] = {
                    'x': xt, 'status': t['status'],
                    'rh': t['runahead'], 'q': t['queued']}
        if tasks != last[0]:
            # (not through sim.ev every iteration: the drain would never
            # see a quiet iteration)
            last[0] = tasks
            sim.ev('xsnap', tasks=tasks)

    sc.drv.after_loop.append(snap)
    async with sc:
        if sc.rejected:
            return CaseResult(sc.crash_violations('C33'), False,
                              ['rejected:' + sc.rejected],
                              info={'flow': flow})
        snap()
        for op, n in case['schedule']:
            if not sim.running:
                break
            if op == 'tk':
                sim.clock.advance(TICKS[n % len(TICKS)])
            else:
                await sc.drv.step(op, n)
        inconclusive = False
        for _round in range(60):
            n0 = sum(1 for e in sim.trace if e['k'] not in ('iter-end', 'xsnap'))
            shut, quiet = await sc.drain(cap=600, quiet_needed=3)
            if shut:
                break
            if not quiet:
                inconclusive = True
                break
            n1 = sum(1 for e in sim.trace if e['k'] not in ('iter-end', 'xsnap'))
            if n1 == n0 and _round > 0:
                break           # a 61 s step and a drain changed nothing
            sim.clock.advance(61.0)
        else:
            inconclusive = True
        viol = sc.crash_violations('C33')
        res = _oracle(case, sc, viol, labels, sig_intvl, inconclusive)
        res.inconclusive = inconclusive
        res.info = {'flow': flow}
        return res


def _oracle(case, sc, viol, labels, sig_intvl, inconclusive) -> CaseResult:
    sim = sc.sim
    trace = sim.trace
    classes = set()

    def sig_of(task_id, label):
        cyc, name = task_id.split('/')
        return label_sig(labels[label], name, int(cyc))

    outstanding = {}       # sig -> number of calls put and not yet returned
    last_put = {}          # sig -> time of the latest put
    last_outcome = {}      # sig -> outcome of the latest returned call
    n_put = {}
    latest_snap = {}       # task id -> snapshot entry (latest xsnap)
    removed_since = set()
    needing = {}           # sig -> tasks needing it since its success
    any_success = False
    for ev in trace:
        k = ev['k']
        if k == 'xtrig-put':
            s = ev['sig']
            if s not in sig_intvl:
                raise RuntimeError(
                    f'harness: xtrigger signature {s!r} is not one of the '
                    f'model signatures {sorted(sig_intvl)}')
            n_put[s] = n_put.get(s, 0) + 1
            if n_put[s] >= 2:
                classes.add('repeat-call')
            if outstanding.get(s, 0) >= 1:
                viol.append(Violation(
                    'C33:concurrent-calls-same-signature',
                    f'{s} submitted to the process pool at t={ev["t"]:.3f} '
                    f'(iteration {ev["it"]}) while a previous call (put at '
                    f't={last_put[s]:.3f}) has not returned'))
            elif s in last_put:
                gap = ev['t'] - last_put[s]
                if last_outcome.get(s) in ('T', 'R'):
                    classes.add('recall-after-success')
                    if gap < sig_intvl[s] - TOL:
                        classes.add('recall-after-success-within-interval')
                elif gap < sig_intvl[s] - TOL:
                    viol.append(Violation(
                        'C33:calls-closer-than-interval',
                        f'{s} called at t={ev["t"]:.3f}, {gap:.3f} s after '
                        f'the previous call (t={last_put[s]:.3f}, which did '
                        f'not succeed); configured interval '
                        f'{sig_intvl[s]} s'))
                else:
                    classes.add('retry-after-interval')
            if needing.get(s):
                viol.append(Violation(
                    'C33:called-again-after-success-while-still-needed',
                    f'{s} called at iteration {ev["it"]} although an '
                    f'earlier call succeeded and {sorted(needing[s])} '
                    f'needed it then and still do'))
            needing.pop(s, None)
            outstanding[s] = outstanding.get(s, 0) + 1
            last_put[s] = ev['t']
        elif k == 'xtrig-return':
            s = ev['sig']
            outstanding[s] = max(0, outstanding.get(s, 0) - 1)
            if ev.get('killed'):
                continue
            last_outcome[s] = ev['outcome']
            if ev['outcome'] == 'E':
                classes.add('error-result')
            if ev['outcome'] == 'R':
                classes.add('results-broadcast')
            if ev['outcome'] in ('T', 'R'):
                any_success = True
                needing[s] = {
                    tid for tid, ent in latest_snap.items()
                    if tid not in removed_since and any(
                        not sat and sig_of(tid, lab) == s
                        for lab, sat in ent['x'].items())}
        elif k == 'remove':
            tid = f'{ev["cycle"]}/{ev["name"]}'
            removed_since.add(tid)
            for s in needing:
                needing[s].discard(tid)
        elif k == 'xsnap':
            latest_snap = ev['tasks']
            removed_since = set()
            for s in list(needing):
                needing[s] = {
                    tid for tid in needing[s]
                    if tid in latest_snap and any(
                        not sat and sig_of(tid, lab) == s
                        for lab, sat in latest_snap[tid]['x'].items())}
                if needing[s]:
                    classes.add('needed-after-success')
            unsat = {}
            for tid, ent in latest_snap.items():
                for lab, sat in ent['x'].items():
                    if not sat:
                        unsat.setdefault(sig_of(tid, lab), set()).add(tid)
            if any(len(v) >= 2 for v in unsat.values()):
                classes.add('shared-sig-dedup')
        elif k == 'iter-end':
            for s, n in outstanding.items():
                if n and ev['vt'] >= last_put[s] + sig_intvl[s]:
                    classes.add('call-pending-past-interval')
    # every task depending on a succeeded signature becomes satisfied
    if not inconclusive and sim.running and not sc.shut:
        for tid, ent in latest_snap.items():
            if ent['status'] != 'waiting' or ent['rh'] or ent['q']:
                continue
            for lab, sat in ent['x'].items():
                s = sig_of(tid, lab)
                if (not sat and last_outcome.get(s) in ('T', 'R')
                        and not outstanding.get(s)):
                    viol.append(Violation(
                        'C33:task-not-satisfied-by-succeeded-signature',
                        f'at quiescence {tid} (waiting, released) still has '
                        f'xtrigger {lab} = {s} unsatisfied although the '
                        f'latest call of that signature succeeded'))
    if any_success:
        classes.add('some-success')
    if sc.shut:
        classes.add('ran-to-completion')
    if len({lb['name'] for lb in case['labels']}) > len(
            {(lb['tag'], tuple(lb['templ'])) for lb in case['labels']}):
        classes.add('labels-share-function-call')
    if any(lb['templ'] for lb in case['labels']):
        classes.add('templated-args')
    if case.get('seq_default') or any(lb.get('seq') for lb in case['labels']):
        classes.add('sequential-xtriggers')
    nontrivial = ('repeat-call' in classes and any_success and bool(
        classes & {'shared-sig-dedup', 'call-pending-past-interval',
                   'needed-after-success'}))
    if nontrivial:
        classes.add('nontrivial')
    uniq = {}
    for v in viol:
        uniq.setdefault(v.sig, v)
    return CaseResult(list(uniq.values()), nontrivial, sorted(classes))


def run_shard(ctx: Ctx):
    hyp_run(ctx, cases(), check_case, ctx.share(BUDGET[ctx.tier]))
