"""C21 Database writes are atomic and the public database converges.

Engine F: real SQLite files, the real ``WorkflowDatabaseManager`` and
``CylcWorkflowDAO``; the harness owns the faults:

* ``pri``   - for EVERY statement index of the generated batch (and connect,
              and commit) a ``sqlite3.OperationalError`` is raised by a
              wrapped private-DB connection (before the statement, or after
              part of its ``executemany`` rows were applied);
* ``crash`` - for EVERY statement index (and before / after commit) a forked
              writer process dies with ``os._exit`` there;
* ``pub``   - a history of ``process_queued_ops`` calls during which a second
              connection holds an exclusive lock or a read lock on the public
              DB (bit pattern drawn), with health checks
              (``recover_pub_from_pri``) in between, MAX_TRIES lowered to 2-4.

A case is a JSON dict; all ops are lists of ints interpreted modulo what is
available (tables, columns, values).
"""
from __future__ import annotations

import itertools
import os
import shutil
import sqlite3 as real_sqlite3

from hypothesis import strategies as st

from vf.core import CaseResult, Ctx, Violation, exc_sig, hyp_run

PROP_ID = 'C21'
LEVEL = 'fault_enumeration'
BUDGET = {'quick': 960, 'thorough': 6000}
EXHAUSTIVE = {'quick': False, 'thorough': False}
MANIFEST = {
    'engine': 'F',
    'technique': 'fault enumeration over real SQLite files: injected '
                 'OperationalError / process death at every statement index '
                 'of generated batches; lock patterns on the public DB',
    'level_text': 'fault positions of each generated batch are enumerated '
                  'exhaustively; the batches and lock patterns are sampled',
}
RULE = (
    'Hypothesis draws an initial committed batch and a batch of 1-24 queued '
    'operations (insert as list/dict/short list, delete with any WHERE '
    'column subset incl. none, update (set, where) dicts, raw "UPDATE OR '
    'REPLACE" statements with parameter tuples) over all 20 tables with a '
    '3-value domain per column so that keys collide.  Mode pri: the batch is '
    'run once per fault position (connect, every executemany index, commit) '
    'with an injected sqlite3.OperationalError; after each the private DB '
    'read through a fresh connection must equal the pre-state, and one more '
    'un-faulted process_queued_ops must give exactly the state of a clean '
    'run of the same batch, public == private.  Mode crash: same positions '
    '(+ just after commit) with os._exit in a forked writer; the DB must '
    'equal the pre-state (post-state after commit) and pass integrity_check. '
    'Mode pub: a drawn history of process_queued_ops calls with / without an '
    'exclusive or shared lock held on the public DB by a second connection, '
    'optional new batches and health checks; private must follow the clean '
    'reference at every step, a recovery copy must happen iff the count of '
    'consecutive failed public writes reached MAX_TRIES, and after the '
    'pattern ends public == private.  Non-trivial = the batch produces >= 2 '
    'SQL statements over >= 2 tables (so a fault strictly inside the batch '
    'exists) and, in mode pub, at least one public write failed; distinct by '
    'the case.')
ASSUMPTIONS = [
    'Reference for "batch applied exactly once" is the un-faulted real code '
    'applied to a copy of the pre-state (differential: faulted+retried == '
    'clean).',
    'Content comparison is the multiset of rows of every table read through a '
    'fresh connection of the stdlib sqlite3 module.',
    'Process death is os._exit (no power loss): SQLite journal/fsync ordering '
    'is trusted; the harness opens cylc\'s connections with PRAGMA '
    'synchronous=OFF (no fsync) for speed.',
    'CylcWorkflowDAO.MAX_TRIES is lowered to 2-4 and CONN_TIMEOUT to 5 ms by '
    'the harness (constants, not logic) so that the recovery threshold is '
    'reachable.',
    '"Eventually" = after the lock pattern ends, at most three further '
    'process_queued_ops + recover_pub_from_pri rounds with no new operations.',
    'Values are str/int/None (None only in non-key columns); UPDATEs always '
    'set at least one column (an empty SET is a syntax error, not an input '
    'cylc produces) and only non-key columns; key changes use the raw '
    '"UPDATE OR REPLACE" form as in remove_task_from_flows.',
]

_case_counter = itertools.count()


# ---------------------------------------------------------------- strategy
def _op():
    small = st.integers(0, 3)
    vals = st.lists(small, min_size=4, max_size=4)
    return st.one_of(
        st.tuples(st.just('ins'), st.integers(0, 19), vals,
                  st.integers(0, 2)),
        st.tuples(st.just('ins'), st.integers(0, 19), vals,
                  st.integers(0, 2)),
        st.tuples(st.just('del'), st.integers(0, 19), st.integers(0, 7),
                  vals),
        st.tuples(st.just('upd'), st.integers(0, 19), st.integers(1, 15),
                  st.integers(0, 7), vals),
        st.tuples(st.just('raw'), st.integers(0, 1), vals,
                  st.integers(0, 1)),
    ).map(list)


@st.composite
def cases(draw):
    mode = draw(st.sampled_from(['pri', 'pri', 'pri', 'crash', 'pub', 'pub', 'pub']))
    case = {
        'mode': mode,
        'init': draw(st.lists(_op(), min_size=0, max_size=12)),
        'batch': draw(st.lists(_op(), min_size=1, max_size=24)),
        'partial': draw(st.integers(0, 1)),
    }
    if mode == 'crash':
        # one forked writer per position: keep the batches shorter
        case['batch'] = case['batch'][:10]
    if mode == 'pub':
        case['max_tries'] = draw(st.sampled_from([2, 2, 3, 4]))
        n = draw(st.integers(2, 10))
        steps = []
        for i in range(n):
            lock = draw(st.sampled_from([0, 1, 1, 1, 1, 2]))
            # new operations arriving while the public DB may be failing:
            # mostly none
            new = draw(st.integers(0, 9))
            health = draw(st.integers(0, 1))
            steps.append([lock, new, health])
        case['steps'] = steps
        case['extra'] = draw(st.lists(
            st.lists(_op(), min_size=1, max_size=6), min_size=1, max_size=3))
    return case


# ---------------------------------------------------------------- helpers
_TABLES = []


def _tables():
    if _TABLES:
        return _TABLES
    from cylc.flow.rundb import CylcWorkflowDAO
    out = _TABLES
    for name in sorted(CylcWorkflowDAO.TABLES_ATTRS):
        cols = []
        for item in CylcWorkflowDAO.TABLES_ATTRS[name]:
            attrs = item[1] if len(item) > 1 else {}
            cols.append((item[0], attrs.get('datatype', 'TEXT'),
                         bool(attrs.get('is_primary_key'))))
        out.append((name, cols))
    return out


def _value(col, v):
    _name, dtype, is_pk = col
    v %= 4
    if v == 3:
        if is_pk:
            v = 0
        else:
            return None
    if dtype in ('INTEGER', 'REAL'):
        return v
    return 'abc'[v]


def queue_ops(mgr, ops, _tables_unused=None):
    """Put generated operations into the manager's maps (as callers do)."""
    tables = _tables()
    touched = set()
    for op in ops:
        kind = op[0]
        if kind == 'raw':
            tname = ['task_states', 'task_outputs'][op[1] % 2]
            new, cyc, nam, old = ('abc'[x % 3] for x in op[2])
            if op[3] % 2:
                stmt = (f'UPDATE OR REPLACE {tname} SET flow_nums = ? '
                        f'WHERE cycle = ? AND name = ? AND flow_nums = ?')
                params = [(new, cyc, nam, old)]
            else:
                stmt = (f'UPDATE OR REPLACE {tname} SET flow_nums = ? '
                        f'WHERE cycle = ? AND name = ?')
                params = [(new, cyc, nam)]
            mgr.db_updates_map[tname].append((stmt, params))
            touched.add(tname)
            continue
        tname, cols = tables[op[1] % len(tables)]
        touched.add(tname)
        if kind == 'ins':
            vals = op[2]
            row = [_value(c, vals[i % len(vals)] + (i // len(vals)))
                   for i, c in enumerate(cols)]
            form = op[3] % 3
            if form == 0:
                arg = row
            elif form == 1:
                arg = {c[0]: v for c, v in zip(cols, row)}
            else:
                # short list: padded with None by the DAO; keep the keys
                nkeys = max(1, sum(1 for c in cols if c[2]))
                arg = row[:max(nkeys, len(cols) - 1)]
            mgr.db_inserts_map.setdefault(tname, []).append(arg)
        elif kind == 'del':
            mask, vals = op[2], op[3]
            where = {}
            for i, c in enumerate(cols[:3]):
                if mask >> i & 1:
                    where[c[0]] = _value((c[0], c[1], True), vals[i])
            mgr.db_deletes_map.setdefault(tname, []).append(where)
        elif kind == 'upd':
            setmask, wmask, vals = op[2], op[3], op[4]
            set_args = {}
            # only non-key columns are SET (key changes go through the raw
            # "UPDATE OR REPLACE" form in cylc; a plain UPDATE of a key
            # column can fail with a UNIQUE constraint, which is a bad
            # input, not a fault)
            nonkey = [c for c in cols if not c[2]] or cols[-1:]
            if all(c[2] for c in cols):
                continue
            for i, c in enumerate(nonkey):
                if setmask >> (i % 4) & 1:
                    set_args[c[0]] = _value(c, vals[i % 4] + 1)
            if not set_args:
                set_args[nonkey[-1][0]] = _value(nonkey[-1], vals[0])
            where = {}
            for i, c in enumerate(cols[:3]):
                if wmask >> i & 1:
                    where[c[0]] = _value((c[0], c[1], True), vals[i])
            mgr.db_updates_map[tname].append((set_args, where))
    return touched


def dump(path, tables):
    """Content of every table through a fresh connection."""
    conn = real_sqlite3.connect(path, timeout=5)
    try:
        out = {}
        for name, _ in tables:
            rows = [list(r) for r in conn.execute(f'SELECT * FROM {name}')]
            rows.sort(key=repr)
            out[name] = rows
        return out
    finally:
        conn.close()


def diff(a, b):
    for t in a:
        if a[t] != b.get(t):
            return (f'table {t}: {a[t][:6]}{"..." if len(a[t]) > 6 else ""} '
                    f'vs {b.get(t)[:6]}{"..." if len(b.get(t)) > 6 else ""}')
    return None


class _Plan:
    """What the wrapped connection of one DB file should do."""

    def __init__(self, path):
        self.path = os.path.realpath(path)
        self.fail_at = None      # int statement index | 'connect' | 'commit'
        #                          | 'after-commit'
        self.partial = False
        self.action = 'raise'    # or 'exit'
        self.counter = 0
        self.stmts = []
        self.fired = False

    def fire(self, where):
        self.fired = True
        if self.action == 'exit':
            os._exit(0)
        raise real_sqlite3.OperationalError(
            f'disk I/O error (injected by harness at {where})')


class _Conn:
    def __init__(self, real, plan):
        self.__dict__['_real'] = real
        self.__dict__['_plan'] = plan

    def executemany(self, stmt, args):
        plan = self._plan
        idx = plan.counter
        plan.counter += 1
        plan.stmts.append(stmt)
        if plan.fail_at == idx:
            args = list(args)
            if plan.partial and args:
                self._real.executemany(stmt, args[:max(1, len(args) // 2)])
            plan.fire(f'statement {idx}')
        return self._real.executemany(stmt, args)

    def commit(self):
        plan = self._plan
        if plan.fail_at == 'commit':
            plan.fire('commit')
        res = self._real.commit()
        if plan.fail_at == 'after-commit':
            plan.fire('after-commit')
        return res

    # sqlite3.Connection is a context manager (commit on success, rollback
    # on an exception; the connection stays open): code under test may use it
    def __enter__(self):
        return self

    def __exit__(self, exc_type, exc, tb):
        if exc_type is None:
            self.commit()
        else:
            self._real.rollback()
        return False

    def __getattr__(self, name):
        return getattr(self._real, name)

    def __setattr__(self, name, value):
        setattr(self._real, name, value)


class _Shim:
    """Stands in for the sqlite3 module as seen from cylc.flow.rundb."""

    def __init__(self):
        self.plans = {}

    def connect(self, path, *a, **kw):
        plan = self.plans.get(os.path.realpath(str(path)))
        if plan is not None and plan.fail_at == 'connect':
            plan.fire('connect')
        conn = real_sqlite3.connect(path, *a, **kw)
        # no fsync: process death (not power loss) is the fault model, and
        # fsync on the shared disk dominates the run time otherwise
        conn.execute('PRAGMA synchronous=OFF')
        if plan is not None:
            return _Conn(conn, plan)
        return conn

    def __getattr__(self, name):
        return getattr(real_sqlite3, name)


class _Env:
    """Patches (harness side only) + a private directory for one case."""

    def __init__(self, ctx, max_tries=None):
        self.base = os.path.join(
            ctx.scratch, 'c21', f'c{next(_case_counter) % 4}')
        self.max_tries = max_tries

    def __enter__(self):
        import cylc.flow.rundb as rundb
        self.rundb = rundb
        shutil.rmtree(self.base, ignore_errors=True)
        os.makedirs(self.base)
        self.shim = _Shim()
        self._orig_sqlite3 = rundb.sqlite3
        rundb.sqlite3 = self.shim
        dao = rundb.CylcWorkflowDAO
        self._orig = (dao.MAX_TRIES, dao.CONN_TIMEOUT)
        dao.CONN_TIMEOUT = 0.005
        if self.max_tries:
            dao.MAX_TRIES = self.max_tries
        self.mgrs = []
        return self

    def __exit__(self, *exc):
        for m in self.mgrs:
            try:
                m.on_workflow_shutdown()
            except Exception:
                pass
        self.rundb.sqlite3 = self._orig_sqlite3
        dao = self.rundb.CylcWorkflowDAO
        dao.MAX_TRIES, dao.CONN_TIMEOUT = self._orig
        shutil.rmtree(self.base, ignore_errors=True)
        return False

    def dirs(self, tag):
        pri_d = os.path.join(self.base, tag, 'pri')
        pub_d = os.path.join(self.base, tag, 'pub')
        os.makedirs(pri_d, exist_ok=True)
        os.makedirs(pub_d, exist_ok=True)
        return pri_d, pub_d

    def manager(self, tag, restart, plan=False):
        """Real manager on <base>/<tag>; with plan=True its private-DB
        connections (from the very first one) go through a _Plan."""
        from cylc.flow.workflow_db_mgr import WorkflowDatabaseManager
        pri_d, pub_d = self.dirs(tag)
        if plan:
            pl = _Plan(os.path.join(pri_d, 'db'))
            self.shim.plans = {pl.path: pl}
        mgr = WorkflowDatabaseManager(pri_d, pub_d)
        mgr.on_workflow_start(is_restart=restart)
        self.mgrs.append(mgr)
        if plan:
            return mgr, pl
        return mgr

    def clone(self, src_tag, dst_tag):
        shutil.rmtree(os.path.join(self.base, dst_tag), ignore_errors=True)
        shutil.copytree(os.path.join(self.base, src_tag),
                        os.path.join(self.base, dst_tag))

    def done(self, mgr):
        mgr.on_workflow_shutdown()
        self.mgrs.remove(mgr)


def _pub_queue_len(mgr):
    n = 0
    for t in mgr.pub_dao.tables.values():
        n += len(t.insert_queue)
        n += sum(len(v) for v in t.delete_queues.values())
        n += sum(len(v) for v in t.update_queues.values())
    return n


# ---------------------------------------------------------------- check
def check_case(case, ctx: Ctx) -> CaseResult:
    from vf.cylcutil import reset_globals
    reset_globals()
    tables = _tables()
    with _Env(ctx, case.get('max_tries')) as env:
        try:
            return _check(case, ctx, env, tables)
        except real_sqlite3.Error as exc:
            # nothing in an un-faulted phase may fail
            return CaseResult([Violation(
                'C21:unexpected-sqlite-error:' + exc_sig(exc), repr(exc))],
                classes=['mode:' + case['mode']])


def _relevant(case, all_tables):
    """Tables any generated operation of the case refers to (dumps are
    restricted to these, except one full comparison per case)."""
    names = set()
    for ops in [case['init'], case['batch']] + list(case.get('extra', [])):
        for op in ops:
            if op[0] == 'raw':
                names.add(['task_states', 'task_outputs'][op[1] % 2])
            else:
                names.add(all_tables[op[1] % len(all_tables)][0])
    return [t for t in all_tables if t[0] in names]


def _check(case, ctx, env, all_tables):
    viol = []
    tables = _relevant(case, all_tables)
    classes = {'mode:' + case['mode']}
    mode = case['mode']

    # pre-state: tables created by the real start-up path + committed batch
    mgr = env.manager('pre', restart=False)
    queue_ops(mgr, case['init'], tables)
    mgr.process_queued_ops()
    env.done(mgr)
    pre_pri = os.path.join(env.base, 'pre', 'pri', 'db')
    pre_full = dump(pre_pri, all_tables)
    pre = {t: pre_full[t] for t, _ in tables}
    if any(pre.values()):
        classes.add('pre-state-nonempty')

    # clean reference run of the batch, counting statements
    env.clone('pre', 'ref')
    mgr, plan = env.manager('ref', restart=True, plan=True)
    ref_pri = os.path.join(env.base, 'ref', 'pri', 'db')
    touched = queue_ops(mgr, case['batch'], tables)
    mgr.process_queued_ops()
    env.shim.plans = {}
    nstmt = plan.counter
    post_full = dump(ref_pri, all_tables)
    post = {t: post_full[t] for t, _ in tables}
    ref_pub = dump(os.path.join(env.base, 'ref', 'pub', 'db'), tables)
    d = diff(post, ref_pub)
    if d:
        viol.append(Violation(
            'C21:public-differs-after-clean-write',
            f'no fault at all, public != private: {d}'))
    kinds = {s.split()[0] for s in plan.stmts}
    for k in kinds:
        classes.add('stmt:' + k.lower())
    if any(op[0] == 'raw' for op in case['batch']):
        classes.add('raw-update')
    if post != pre:
        classes.add('batch-changes-content')
    classes.add('stmts:%s' % ('1' if nstmt == 1 else '2-5' if nstmt <= 5
                              else '6-12' if nstmt <= 12 else '13+'))
    multi = nstmt >= 2 and len(touched) >= 2
    if multi:
        classes.add('multi-table')
    nontrivial = multi

    if mode == 'pri':
        _mode_pri(case, env, tables, nstmt, pre, post, viol, classes,
                  all_tables, pre_full, post_full)
    elif mode == 'crash':
        _mode_crash(case, env, tables, nstmt, pre, post, viol, classes,
                    all_tables, pre_full, post_full)
    else:
        failed = _mode_pub(case, env, tables, mgr, viol, classes, all_tables)
        nontrivial = multi and failed
    if mode != 'pub':
        env.done(mgr)
    seen = {}
    for v in viol:
        seen.setdefault(v.sig, v)
    return CaseResult(list(seen.values()), nontrivial=nontrivial,
                      classes=sorted(classes), distinct_key=case,
                      info={'statements': nstmt, 'tables': len(touched)})


def _positions(nstmt):
    return ['connect'] + list(range(nstmt)) + ['commit']


def _mode_pri(case, env, some_tables, nstmt, some_pre, some_post, viol,
              classes, all_tables, pre_full, post_full):
    positions = _positions(nstmt)
    for pos in positions:
        if pos == positions[-1]:
            # one comparison per case over every table
            tables, pre, post = all_tables, pre_full, post_full
        else:
            tables, pre, post = some_tables, some_pre, some_post
        env.clone('pre', 'run')
        mgr, plan = env.manager('run', restart=True, plan=True)
        pri = os.path.join(env.base, 'run', 'pri', 'db')
        pub = os.path.join(env.base, 'run', 'pub', 'db')
        queue_ops(mgr, case['batch'], tables)
        if pos == 'connect':
            # as after any earlier write: the DAO has no open connection
            mgr.pri_dao.close()
        plan.fail_at = pos
        plan.partial = bool(case.get('partial'))
        raised = None
        try:
            mgr.process_queued_ops()
        except real_sqlite3.Error as exc:
            raised = exc
        finally:
            plan.fail_at = None
            env.shim.plans = {}
        where = f'fault at {pos} of {nstmt} statements'
        if not plan.fired:
            raise RuntimeError(f'C21 harness: fault {pos} never fired')
        if raised is None:
            viol.append(Violation(
                'C21:private-failure-swallowed',
                f'{where}: process_queued_ops returned normally although '
                f'the private DB write failed'))
        now = dump(pri, tables)
        d = diff(pre, now)
        if d:
            viol.append(Violation(
                'C21:private-not-atomic',
                f'{where}: private DB differs from the previous committed '
                f'state: (expected vs got) {d}'))
        # the fault clears: the retained batch must be applied exactly once
        try:
            mgr.process_queued_ops()
        except real_sqlite3.Error as exc:
            viol.append(Violation(
                'C21:retry-raises', f'{where}: retry raised {exc!r}'))
        now = dump(pri, tables)
        d = diff(post, now)
        if d:
            viol.append(Violation(
                'C21:retry-not-exactly-once',
                f'{where}: after the retry the private DB differs from a '
                f'clean run of the batch: (expected vs got) {d}'))
        else:
            d = diff(now, dump(pub, tables))
            if d:
                viol.append(Violation(
                    'C21:public-differs-after-private-retry',
                    f'{where}: public != private after the retry: {d}'))
        env.done(mgr)
        if viol:
            break
    classes.add('fault-positions:%d' % min(len(_positions(nstmt)), 20))


def _mode_crash(case, env, some_tables, nstmt, some_pre, some_post, viol,
                classes, all_tables, pre_full, post_full):
    positions = list(range(nstmt)) + ['commit', 'after-commit']
    for pos in positions:
        if pos in ('commit', 'after-commit'):
            tables, pre, post = all_tables, pre_full, post_full
        else:
            tables, pre, post = some_tables, some_pre, some_post
        env.clone('pre', 'run')
        pri = os.path.join(env.base, 'run', 'pri', 'db')
        # everything is prepared in the parent; no SQLite connection is
        # open across the fork; the child only performs the write and dies
        mgr, plan = env.manager('run', restart=True, plan=True)
        queue_ops(mgr, case['batch'], tables)
        mgr.pri_dao.close()
        mgr.pub_dao.close()
        plan.fail_at = pos
        plan.partial = bool(case.get('partial'))
        plan.action = 'exit'
        pid = os.fork()
        if pid == 0:
            code = 3
            try:
                mgr.process_queued_ops()
            except BaseException:
                code = 4
            finally:
                os._exit(code)
        plan.fail_at = None
        env.shim.plans = {}
        env.done(mgr)
        _, status = os.waitpid(pid, 0)
        rc = os.waitstatus_to_exitcode(status)
        if rc != 0:
            raise RuntimeError(
                f'C21 harness: forked writer for {pos} ended with {rc}')
        where = f'writer process died at {pos} of {nstmt} statements'
        now = dump(pri, tables)
        want = post if pos == 'after-commit' else pre
        d = diff(want, now)
        if d:
            viol.append(Violation(
                'C21:private-not-atomic-on-crash',
                f'{where}: private DB is not at the '
                f'{"new" if pos == "after-commit" else "previous"} committed '
                f'state: (expected vs got) {d}'))
        conn = real_sqlite3.connect(pri)
        try:
            res = conn.execute('PRAGMA integrity_check').fetchall()
        finally:
            conn.close()
        if res != [('ok',)]:
            viol.append(Violation(
                'C21:private-corrupt-after-crash', f'{where}: {res[:3]}'))
        if viol:
            break
    classes.add('crash-positions:%d' % min(len(positions), 20))


def _mode_pub(case, env, tables, refmgr, viol, classes, all_tables):
    """Lock patterns on the public DB.  `refmgr` is the clean reference
    (never locked) which receives the same operations."""
    env.clone('pre', 'run')
    mgr = env.manager('run', restart=True)
    pri = os.path.join(env.base, 'run', 'pri', 'db')
    pub = os.path.join(env.base, 'run', 'pub', 'db')
    ref_pri = os.path.join(env.base, 'ref', 'pri', 'db')
    max_tries = case['max_tries']
    consec = 0
    any_failed = False
    recovered_with_pending = False
    merged_into_failed = False
    extra = case['extra']

    def ino():
        return os.stat(pub).st_ino

    def one_call(new_ops, lock, health, label):
        nonlocal consec, any_failed, recovered_with_pending
        nonlocal merged_into_failed
        pending_before = _pub_queue_len(mgr)
        if new_ops:
            if pending_before:
                merged_into_failed = True
                classes.add('new-ops-during-outage')
            queue_ops(mgr, new_ops, tables)
            if new_ops is not case['batch']:
                queue_ops(refmgr, new_ops, tables)
                refmgr.process_queued_ops()
        locker = None
        if lock:
            locker = real_sqlite3.connect(pub, isolation_level=None)
            if lock == 1:
                locker.execute('BEGIN EXCLUSIVE')
                classes.add('lock-exclusive')
            else:
                locker.execute('BEGIN')
                locker.execute('SELECT count(*) FROM sqlite_master').fetchall()
                classes.add('lock-shared')
        try:
            try:
                mgr.process_queued_ops()
            except Exception as exc:
                viol.append(Violation(
                    'C21:exception-on-public-failure:' + exc_sig(exc),
                    f'{label}: {exc!r}'))
                return False
        finally:
            if locker is not None:
                try:
                    locker.execute('ROLLBACK')
                finally:
                    locker.close()
        attempted = bool(pending_before or new_ops)
        pending = _pub_queue_len(mgr)
        if pending:
            consec += 1
            any_failed = True
            classes.add('public-write-failed')
            if lock == 2:
                classes.add('public-failed-at-commit')
        elif attempted:
            consec = 0
        d = diff(dump(ref_pri, tables), dump(pri, tables))
        if d:
            viol.append(Violation(
                'C21:private-affected-by-public-failure',
                f'{label}: private DB differs from the clean reference: {d}'))
            return False
        if health:
            before = ino()
            mgr.recover_pub_from_pri()
            copied = ino() != before
            if copied:
                classes.add('recovery-copy')
            if consec >= max_tries and not copied:
                viol.append(Violation(
                    'C21:no-recovery-at-threshold',
                    f'{label}: {consec} consecutive failed public writes '
                    f'(MAX_TRIES={max_tries}) but the health check did not '
                    f'replace the public DB'))
            elif consec < max_tries and copied:
                viol.append(Violation(
                    'C21:recovery-copy-below-threshold',
                    f'{label}: health check replaced the public DB after '
                    f'only {consec} consecutive failed public writes '
                    f'(MAX_TRIES={max_tries})'))
            if copied:
                if _pub_queue_len(mgr):
                    recovered_with_pending = True
                consec = 0
        return True

    ok = True
    for i, (lock, new, health) in enumerate(case['steps']):
        if i == 0:
            ops = case['batch']
        elif new < 3:
            ops = extra[new % len(extra)]
        else:
            ops = None
        ok = one_call(ops, lock, health, f'call {i} (lock={lock})')
        if not ok or viol:
            break
    if ok and not viol:
        # the pattern ends: converge
        for j in range(3):
            one_call(None, 0, 1, f'settling call {j}')
            if viol:
                break
    if not viol:
        if _pub_queue_len(mgr):
            viol.append(Violation(
                'C21:public-queue-never-drains',
                'public DB unlocked for 3 calls but its queue is not empty'))
        d = diff(dump(pri, all_tables), dump(pub, all_tables))
        if d:
            if recovered_with_pending:
                viol.append(Violation(
                    'C21:public-diverged:queue-reapplied-after-recovery-copy',
                    'after MAX_TRIES failures the health check copied the '
                    'private DB over the public one, but the public DAO kept '
                    'its queued batch and applied it again on top of the '
                    f'copy: (private vs public) {d}'))
            elif merged_into_failed:
                viol.append(Violation(
                    'C21:public-diverged:later-ops-merged-into-failed-batch',
                    'operations queued while an earlier public write was '
                    'still failing were merged into the retained batch '
                    '(deletes before inserts before updates per table), so '
                    'the public DB applied them in a different order than '
                    f'the private DB: (private vs public) {d}'))
            else:
                viol.append(Violation(
                    'C21:public-diverged',
                    f'after the lock pattern ended public != private: {d}'))
    env.done(mgr)
    env.done(refmgr)
    return any_failed


def run_shard(ctx: Ctx):
    hyp_run(ctx, cases(), check_case, ctx.share(BUDGET[ctx.tier]))
