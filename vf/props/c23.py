"""C23 Universal identifiers round-trip.

Oracle: an independent formatter written from the documented ID grammar
(``~user/workflow:sel//cycle:sel/task:sel/job:sel``) -- cylc's tokenise must
parse what it produces back to the generating tokens, cylc's detokenise must
produce the same string, relative and absolute forms must agree on the task
part, legacy ids must upgrade to the tokens they were built from, and the
Tokens eq/hash/duplicate laws must hold.
"""
from __future__ import annotations

import re

from hypothesis import strategies as st

from vf.core import CaseResult, Ctx, Violation, hyp_run, exc_sig

PROP_ID = 'C23'
LEVEL = 'exploration'
BUDGET = {'quick': 16000, 'thorough': 480000}
RULE = (
    'Hypothesis draws one of three case kinds. "tokens" (70%): a gap-free '
    'token combination (absolute ~user/workflow//cycle/task/job, partial, or '
    'relative //cycle/task/job; 15% with gaps that the docs say expand to '
    '"*"), hierarchical workflow names, selectors on present tokens, jobs as '
    '1-4 digit ints or NN; every value is drawn from the characters its '
    'regex field admits (letters, digits, unicode, and the separator-adjacent '
    'punctuation . + - @ % * = ~ # $ \\ quotes brackets , ; ! ? ^ | & \\r '
    '\\x0b \\x85 \\u2028 space tab) minus the separators of that field, '
    'stripped, non-empty. "legacy" (15%): 1-3 legacy ids task.cycle[:sel] / '
    'cycle/task[:sel] built from components (task may contain ".", cycle '
    'starts with a digit, 1-8 chars). "garbage" (15%): raw strings over the '
    'same alphabet plus all separators. Non-trivial = a tokens case with a '
    'selector, a hierarchical workflow, an unpadded job, a gap or a '
    'non-alphanumeric character in some value, or any legacy case, or a '
    'garbage string that tokenise accepts; distinct by the whole case.')
ASSUMPTIONS = [
    'Valid tokens exclude per field the characters that are separators for '
    'that field (/ : newline everywhere; ~ in user, workflow and cycle; : '
    'inside cycle), leading/trailing whitespace (values are stripped by '
    'design) and empty values; jobs are non-negative decimal integers or NN '
    '(DESIGN 5a).',
    'Selectors are only valid on a token that is present (or on a gap token '
    'above the lowest present token); detokenise documents that missing '
    'tokens expand to "*", so for gapped tokens the expected re-parse has '
    '"*" in the gaps.',
    'Legacy identifiers are those matching the documented Cylc 7 forms: '
    'cycle starts with a digit and contains none of ~ . : / newline; task '
    'contains none of ~ : / newline.  Integer cycles may be one character '
    'long (tests/unit/test_id.py says so for task.cycle).',
    'For arbitrary strings only "ValueError, or a parse whose formatting '
    're-parses to the same tokens" is required, and only when the parsed '
    'values are themselves valid tokens (empty-after-strip values count as '
    'absent).',
    'Sensitivity (tools/mut.sh, quick): detected: cycle group lazy->greedy, '
    'job padding :02->:03, __hash__ over None values, LEGACY_TASK_DOT_CYCLE '
    '*->+, _dict_strip without strip, workflow "//" join only with '
    'selectors. Not detected: dropping the (?!//) guard -- equivalent mutant '
    '(the workflow group starts with [^:~\\n/]+ which cannot match "/").',
]
MANIFEST = {'engine': 'P', 'technique': 'Hypothesis round-trip vs independent formatter'}

# ---------------------------------------------------------------------------
# alphabets

_COMMON = (
    'abcxyzABZ019_'
    '.+-@%*=#$\\\'"[](){}<>,;!?^|& \t'
    '\r\x0b\x0c\x1c\x85\xa0 '
    'éü４日'
)
_SEPS = '/:~\n'

FIELD_EXCLUDE = {
    'user': '/:\n~',
    'workflow': ':~\n/',
    'workflow_sel': '/:\n',
    'cycle': '~/:\n',
    'cycle_sel': '/:\n',
    'task': '/:\n',
    'task_sel': '/:\n',
    'job_sel': '/:\n',
}


def _alphabet(field):
    excl = FIELD_EXCLUDE[field]
    return ''.join(c for c in _COMMON + _SEPS if c not in excl)


_VALUE_CACHE = {}


def _value(field, max_size=6):
    if field not in _VALUE_CACHE:
        _VALUE_CACHE[field] = _value_uncached(field, max_size)
    return _VALUE_CACHE[field]


def _value_uncached(field, max_size=6):
    alpha = _alphabet(field)
    plain = st.text(alphabet='abcxyz019_', min_size=1, max_size=4)
    wild = st.text(alphabet=alpha, min_size=1, max_size=max_size).map(
        lambda s: s.strip() or 'x')
    return st.one_of(plain, wild, wild)


def _job():
    return _JOB


def _mk_job():
    return st.one_of(
        st.just('NN'),
        st.integers(0, 9).map(str),
        st.integers(0, 99).map(lambda i: f'{i:02d}'),
        st.integers(0, 9999).map(str),
        st.integers(0, 99).map(lambda i: f'{i:04d}'),
    )


_JOB = _mk_job()
_SHAPE = st.sampled_from(
    ['abs', 'abs', 'abs', 'rel', 'rel', 'partial', 'gaps'])
_PAD = st.sampled_from(['', '', ' ', '  ', '\t', ' \t'])
_I3 = st.integers(0, 2)
_I4 = st.integers(0, 3)
_DEPTH_WF = st.sampled_from([1, 1, 2, 3])
_DEPTH = st.sampled_from([1, 2, 2, 3, 3])
_PRESENT = st.lists(
    st.sampled_from(['user', 'workflow', 'cycle', 'task', 'job']),
    min_size=1, max_size=4, unique=True)


@st.composite
def token_cases(draw):
    shape = draw(_SHAPE)
    t = {}
    if shape in ('abs', 'partial'):
        if draw(st.booleans()):
            t['user'] = draw(_value('user'))
        depth_wf = draw(_DEPTH_WF)
        if shape == 'partial' and 'user' in t and draw(_I4) == 0:
            pass  # ~user only
        else:
            t['workflow'] = '/'.join(
                draw(_value('workflow')) for _ in range(depth_wf))
    if shape in ('abs', 'rel'):
        depth = draw(_DEPTH)
        t['cycle'] = draw(_value('cycle'))
        if depth >= 2:
            t['task'] = draw(_value('task'))
        if depth >= 3:
            t['job'] = draw(_job())
    if shape == 'gaps':
        # any subset of the five tokens, at least one, that is NOT gap free
        present = draw(_PRESENT)
        for k in present:
            if k == 'job':
                t[k] = draw(_job())
            else:
                t[k] = draw(_value(k))
    # selectors on present tokens
    for k in ('workflow', 'cycle', 'task', 'job'):
        if k in t and draw(_I3) == 0:
            t[k + '_sel'] = draw(_value(k + '_sel'))
    pad = draw(_PAD)
    return {'kind': 'tokens', 'tokens': t, 'pad': pad}


def _legacy_cycle():
    return _LEGACY_CYCLE


def _legacy_task():
    return _LEGACY_TASK


def _mk_legacy_cycle():
    rest = ''.join(
        c for c in _COMMON + _SEPS if c not in '~.:/\n')
    return st.builds(
        lambda d, r: (d + r).strip(),
        st.sampled_from('0123456789'),
        st.one_of(
            st.just(''), st.just(''),
            st.text(alphabet='0123456789TZ', max_size=7),
            st.text(alphabet=rest, max_size=4)),
    )


def _mk_legacy_task():
    alpha = ''.join(c for c in _COMMON + _SEPS if c not in '~:/\n')
    return st.one_of(
        st.text(alphabet='abcxyz019_', min_size=1, max_size=4),
        st.text(alphabet='ab1._-', min_size=1, max_size=6),
        st.text(alphabet=alpha, min_size=1, max_size=6),
    ).map(lambda s: s.strip() or 'x')


_LEGACY_CYCLE = _mk_legacy_cycle()
_LEGACY_TASK = _mk_legacy_task()
_NIDS = st.sampled_from([1, 1, 2, 3])
_FORM = st.sampled_from(['dot', 'slash'])
_WFDEPTH = st.sampled_from([1, 1, 2])


@st.composite
def legacy_cases(draw):
    n = draw(_NIDS)
    ids = []
    for _ in range(n):
        ent = {
            'form': draw(_FORM),
            'task': draw(_legacy_task()),
            'cycle': draw(_legacy_cycle()),
        }
        if draw(_I3) == 0:
            ent['sel'] = draw(_value('task_sel'))
        ids.append(ent)
    wf = '/'.join(
        draw(_value('workflow')) for _ in range(draw(_WFDEPTH)))
    return {'kind': 'legacy', 'workflow': wf, 'ids': ids}


def garbage_cases():
    frag = st.one_of(
        st.sampled_from(['/', '//', ':', '~', '///', '\n', ' ', '*', '.', 'NN',
                         '01', '1', 'a', 'w', 'c', 't', '~u', 'a:b']),
        st.text(alphabet=_COMMON + _SEPS, min_size=1, max_size=3),
    )
    return st.builds(
        lambda parts, rel: {'kind': 'garbage', 'text': ''.join(parts),
                            'relative': rel},
        st.lists(frag, min_size=0, max_size=9), st.booleans())


def cases():
    tc, lc, gc = token_cases(), legacy_cases(), garbage_cases()
    return st.integers(0, 19).flatmap(
        lambda i: tc if i < 14 else lc if i < 17 else gc)


# ---------------------------------------------------------------------------
# independent formatter (the oracle)

ORDER = ['user', 'workflow', 'cycle', 'task', 'job']
SEL_KEYS = ['workflow_sel', 'cycle_sel', 'task_sel', 'job_sel']
ALL_KEYS = ORDER + SEL_KEYS


def pad_job(job):
    if job is None or job == 'NN':
        return job
    return f'{int(job):02}'


def fill_gaps(t):
    """Tokens as the docs say they re-parse: gaps become '*', selectors of
    absent tokens below the lowest present token vanish."""
    present = [k for k in ORDER if t.get(k)]
    if not present:
        return None
    lowest = max(ORDER.index(k) for k in present)
    relative = not (t.get('user') or t.get('workflow'))
    first = 2 if relative else 1  # user is never filled
    out = {}
    if t.get('user'):
        out['user'] = t['user']
    for i in range(first, lowest + 1):
        k = ORDER[i]
        out[k] = t.get(k) or '*'
        if t.get(k + '_sel'):
            out[k + '_sel'] = t[k + '_sel']
    return out


def fmt(t, selectors=True, relative=False, pad=True, ws=''):
    """Format gap-free tokens `t` (dict without None values) as an ID."""
    def v(k):
        val = t[k]
        if k == 'job' and pad:
            val = pad_job(val)
        val = f'{ws}{val}{ws}'
        if selectors and t.get(k + '_sel'):
            val += f':{ws}{t[k + "_sel"]}{ws}'
        return val
    head = ''
    if t.get('user'):
        head = f'~{ws}{t["user"]}{ws}'
        if t.get('workflow'):
            head += '/'
    if t.get('workflow'):
        head += v('workflow')
    tail = '/'.join(v(k) for k in ('cycle', 'task', 'job') if t.get(k))
    if tail:
        if head or not relative:
            return f'{head}//{tail}'
        return tail
    return head


def tok_dict(tokens):
    return {k: tokens[k] for k in ALL_KEYS if tokens[k] is not None}


def _valid_tokens(n):
    """Do parsed tokens lie inside the valid-token reading?"""
    for k, v in n.items():
        if k == 'job':
            if v != 'NN' and not re.fullmatch(r'[0-9]+', v):
                return False
            continue
        if v != v.strip() or not v:
            return False
        if any(c in FIELD_EXCLUDE[k] for c in v.replace('/', '')
               ) if k == 'workflow' else any(
                c in FIELD_EXCLUDE[k] for c in v):
            return False
        if k == 'workflow' and any(
                not seg or seg != seg for seg in v.split('/')):
            return False
    return True


def _special(val):
    return bool(re.search(r'[^A-Za-z0-9_/]', val))


# ---------------------------------------------------------------------------

def check_case(case, ctx: Ctx) -> CaseResult:
    kind = case['kind']
    if kind == 'tokens':
        return _check_tokens(case)
    if kind == 'legacy':
        return _check_legacy(case)
    return _check_garbage(case)


def _check_tokens(case) -> CaseResult:
    from cylc.flow.id import Tokens, tokenise, detokenise
    t = dict(case['tokens'])
    ws = case.get('pad', '')
    viol = []
    classes = ['kind:tokens']
    for k in ORDER:
        if k in t:
            classes.append('has-' + k)
            if k != 'job' and _special(t[k]):
                classes.append('special-char-in-' + k)
    if any(k in t for k in SEL_KEYS):
        classes.append('selectors')
        if any(_special(t[k]) for k in SEL_KEYS if k in t):
            classes.append('special-char-in-selector')
    if '/' in t.get('workflow', ''):
        classes.append('hier-workflow')
    job = t.get('job')
    if job == 'NN':
        classes.append('job-NN')
    elif job is not None:
        classes.append('job-padded' if pad_job(job) == job else 'job-unpadded')
    relative_only = not (t.get('user') or t.get('workflow'))
    if relative_only:
        classes.append('relative-only')
    filled = fill_gaps(t)
    gappy = filled != t
    if gappy:
        classes.append('gaps')
    if ws:
        classes.append('ws-padded')
    nontrivial = gappy or any(
        c.startswith('special-') or c in (
            'selectors', 'hier-workflow', 'job-unpadded')
        for c in classes)

    def bad(sig, detail):
        viol.append(Violation(sig, f'tokens={t!r}: {detail}'))

    try:
        A = Tokens(**t)
        # --- detokenise against the independent formatter
        want_full = fmt(filled, selectors=True)
        want_plain = fmt(filled, selectors=False)
        got_full = detokenise(A, selectors=True)
        got_plain = detokenise(A)
        if got_full != want_full:
            bad('C23:detokenise-differs',
                f'detokenise(selectors=True)={got_full!r} expected {want_full!r}')
        if got_plain != want_plain or A.id != want_plain:
            bad('C23:detokenise-differs',
                f'detokenise()={got_plain!r} / .id={A.id!r} expected {want_plain!r}')
        # --- tokens -> string -> tokens (job zero-padded)
        want_tok = dict(filled)
        if 'job' in want_tok:
            want_tok['job'] = pad_job(want_tok['job'])
        back = tok_dict(tokenise(got_full))
        if back != want_tok:
            bad('C23:roundtrip-tokens',
                f'tokenise(detokenise(t))={back!r} expected {want_tok!r} '
                f'(via {got_full!r})')
        if not gappy:
            # --- independent string -> tokens (job as given, not padded)
            raw = fmt(t, selectors=True, pad=False)
            got = tok_dict(tokenise(raw))
            if got != t:
                bad('C23:tokenise-differs',
                    f'tokenise({raw!r})={got!r}')
            if ws:
                raw_ws = fmt(t, selectors=True, pad=False, ws=ws)
                got = tok_dict(tokenise(raw_ws))
                if got != t:
                    bad('C23:whitespace-not-stripped',
                        f'tokenise({raw_ws!r})={got!r}')
            # --- canonical string -> tokens -> string
            s2 = detokenise(tokenise(want_full), selectors=True)
            if s2 != want_full:
                bad('C23:roundtrip-string',
                    f'detokenise(tokenise({want_full!r}))={s2!r}')
            s3 = detokenise(tokenise(want_plain))
            if s3 != want_plain:
                bad('C23:roundtrip-string',
                    f'detokenise(tokenise({want_plain!r}))={s3!r}')
            # --- relative vs absolute
            if t.get('cycle'):
                rel = {k: v for k, v in t.items()
                       if k.split('_')[0] in ('cycle', 'task', 'job')}
                rel_s = fmt(rel, selectors=True, relative=True, pad=False)
                forms = {
                    'abs.task': tok_dict(tokenise(raw).task),
                    '//rel': tok_dict(tokenise('//' + rel_s)),
                    'rel(relative=True)': tok_dict(tokenise(rel_s, relative=True)),
                    'Tokens(rel, relative=True)': tok_dict(
                        Tokens(rel_s, relative=True)),
                    '//rel(relative=True)': tok_dict(
                        tokenise('//' + rel_s, relative=True)),
                }
                for name, got in forms.items():
                    if got != rel:
                        bad('C23:relative-absolute-disagree',
                            f'{name} gives {got!r}, expected task part {rel!r}')
                        break
                want_rel = fmt(rel, selectors=False, relative=True)
                want_rel_sel = fmt(rel, selectors=True, relative=True)
                if A.relative_id != want_rel:
                    bad('C23:relative-absolute-disagree',
                        f'.relative_id={A.relative_id!r} expected {want_rel!r}')
                if A.relative_id_with_selectors != want_rel_sel:
                    bad('C23:relative-absolute-disagree',
                        f'.relative_id_with_selectors='
                        f'{A.relative_id_with_selectors!r} expected {want_rel_sel!r}')
                if not relative_only:
                    wf = {k: v for k, v in t.items()
                          if k in ('user', 'workflow')}
                    if A.workflow_id != fmt(wf, selectors=False):
                        bad('C23:relative-absolute-disagree',
                            f'.workflow_id={A.workflow_id!r}')
                    # the task part of the absolute string is the relative string
                    if not want_plain.endswith('//' + want_rel):
                        bad('C23:relative-absolute-disagree',
                            f'{want_plain!r} does not end with //{want_rel!r}')
            # --- eq / hash / duplicate laws
            B = tokenise(raw)
            if not (A == B) or (A != B):
                bad('C23:eq-hash-law', f'Tokens(**t) != tokenise({raw!r})')
            elif hash(A) != hash(B):
                bad('C23:eq-hash-law',
                    'equal Tokens (kwargs-built vs parsed) hash differently')
            if len({A, B}) != 1:
                bad('C23:eq-hash-law', 'equal Tokens are distinct set members')
        D = A.duplicate()
        if D is A or not (D == A) or (D != A) or hash(D) != hash(A):
            bad('C23:eq-hash-law', 'duplicate() is not an equal distinct copy')
        before = dict(A)
        E = A.duplicate(task='zz9', task_sel=None)
        if dict(A) != before:
            bad('C23:eq-hash-law', 'duplicate(task=...) mutated the original')
        exp = dict(t)
        exp['task'] = 'zz9'
        exp.pop('task_sel', None)
        if tok_dict(E) != exp:
            bad('C23:eq-hash-law',
                f'duplicate(task="zz9", task_sel=None) gives {tok_dict(E)!r}')
        if (E == A) != (exp == t) or (E != A) == (E == A):
            bad('C23:eq-hash-law', '== / != inconsistent after duplicate(task=...)')
    except Exception as exc:  # valid tokens must never raise
        viol.append(Violation(
            'C23:exception-on-valid-tokens:' + exc_sig(exc),
            f'tokens={t!r}: {exc!r}'))
    return CaseResult(viol, nontrivial=nontrivial, classes=classes)


def _check_legacy(case) -> CaseResult:
    from cylc.flow.id import (
        legacy_tokenise, upgrade_legacy_ids, tokenise)
    from cylc.flow.id_cli import _parse_cli
    viol = []
    classes = ['kind:legacy']
    wf = case['workflow']
    old, new_abs, new_rel, want_tokens = [], [], [], []
    one_char_slash = False
    for ent in case['ids']:
        task, cycle, sel = ent['task'], ent['cycle'], ent.get('sel')
        classes.append('legacy-' + ent['form'])
        if len(cycle) == 1:
            classes.append('legacy-one-char-cycle')
            if ent['form'] == 'slash':
                one_char_slash = True
        if '.' in task:
            classes.append('legacy-task-with-dot')
        if sel:
            classes.append('legacy-selector')
        s = f'{task}.{cycle}' if ent['form'] == 'dot' else f'{cycle}/{task}'
        tail = f'{cycle}/{task}'
        if sel:
            s += f':{sel}'
            tail += f':{sel}'
        old.append(s)
        new_abs.append('//' + tail)
        new_rel.append(tail)
        tk = {'cycle': cycle, 'task': task}
        if sel:
            tk['task_sel'] = sel
        want_tokens.append(tk)

    def sig(base, got_unchanged):
        # the one recorded root cause: cycle/task with a ONE character cycle
        # does not match LEGACY_CYCLE_SLASH_TASK (\d[^...]+ needs two)
        if one_char_slash and got_unchanged:
            return 'C23:legacy-cycle-slash-task:one-char-cycle-not-upgraded'
        return base

    try:
        got = upgrade_legacy_ids(wf, *old)
        not_upgraded = got == [wf] + old
        if got != [wf] + new_abs:
            viol.append(Violation(
                sig('C23:legacy-upgrade-differs', not_upgraded),
                f'upgrade_legacy_ids({wf!r}, *{old!r}) = {got!r}, expected '
                f'{[wf] + new_abs!r}'))
        got = upgrade_legacy_ids(*old, relative=True)
        if got != new_rel:
            viol.append(Violation(
                sig('C23:legacy-upgrade-differs', got == old),
                f'upgrade_legacy_ids(*{old!r}, relative=True) = {got!r}, '
                f'expected {new_rel!r}'))
        for s, ent, tk in zip(old, case['ids'], want_tokens):
            try:
                lt = {k: v for k, v in legacy_tokenise(s).items()
                      if v is not None}
            except ValueError:
                lt = None
            if lt != tk:
                viol.append(Violation(
                    sig('C23:legacy-upgrade-differs',
                        lt is None and ent['form'] == 'slash'
                        and len(ent['cycle']) == 1),
                    f'legacy_tokenise({s!r}) = {lt!r}, expected {tk!r}'))
                break
        # the upgraded strings parse to the equivalent tokens
        for s, tk in zip(new_abs, want_tokens):
            got = tok_dict(tokenise(s))
            if got != tk:
                viol.append(Violation(
                    'C23:legacy-upgrade-differs',
                    f'tokenise({s!r}) = {got!r}, expected {tk!r}'))
                break
        # CLI path (id_cli._parse_cli): workflow + legacy ids
        if True:
            want = [dict(tk, workflow=wf) for tk in want_tokens]
            try:
                got = [tok_dict(x) for x in _parse_cli(wf, *old)]
            except Exception as exc:
                got = repr(exc)
            if got != want:
                # _parse_cli calls upgrade_legacy_ids(wf, *old) first: if
                # that left the ids unchanged this is the same root cause
                viol.append(Violation(
                    sig('C23:legacy-upgrade-differs', not_upgraded),
                    f'_parse_cli({wf!r}, *{old!r}) = {got!r}, expected {want!r}'))
    except Exception as exc:
        viol.append(Violation(
            'C23:exception-on-valid-legacy:' + exc_sig(exc),
            f'{wf!r} {old!r}: {exc!r}'))
    return CaseResult(viol, nontrivial=True, classes=classes)


def _check_garbage(case) -> CaseResult:
    from cylc.flow.id import tokenise, detokenise
    text = case['text']
    rel = case.get('relative', False)
    classes = ['kind:garbage']
    viol = []
    try:
        p = tokenise(text, relative=rel)
    except ValueError:
        return CaseResult([], nontrivial=False,
                          classes=classes + ['garbage-rejected'])
    except Exception as exc:
        return CaseResult([Violation(
            'C23:unexpected-exception:' + exc_sig(exc),
            f'tokenise({text!r}, relative={rel}): {exc!r}')],
            classes=classes)
    classes.append('garbage-accepted')
    n = {k: v for k, v in tok_dict(p).items() if v}
    if not _valid_tokens(n):
        # the parse produced values outside the valid-token reading (e.g. a
        # ":" inside the cycle, exposed by whitespace stripping): nothing is
        # required of them beyond the documented exception type
        classes.append('garbage-accepted-invalid-tokens')
        try:
            detokenise(p, selectors=True)
        except ValueError:
            pass
        except Exception as exc:
            viol.append(Violation(
                'C23:unexpected-exception:' + exc_sig(exc),
                f'detokenise(tokenise({text!r})): {exc!r}'))
        return CaseResult(viol, nontrivial=False, classes=classes)
    want = fill_gaps(n)
    try:
        if want is None:
            try:
                s2 = detokenise(p, selectors=True)
            except ValueError:
                return CaseResult([], nontrivial=True, classes=classes)
            viol.append(Violation(
                'C23:garbage-roundtrip',
                f'tokenise({text!r}) has no tokens yet detokenise gives {s2!r}'))
            return CaseResult(viol, nontrivial=True, classes=classes)
        job = want.get('job')
        if job is not None and job != 'NN':
            try:
                want['job'] = pad_job(job)
            except ValueError:
                # non-numeric job: detokenise is documented to raise ValueError
                try:
                    s2 = detokenise(p, selectors=True)
                except ValueError:
                    return CaseResult(
                        [], nontrivial=True,
                        classes=classes + ['garbage-nonnumeric-job'])
                viol.append(Violation(
                    'C23:garbage-roundtrip',
                    f'job {job!r} formatted as {s2!r}'))
                return CaseResult(viol, nontrivial=True, classes=classes)
        s2 = detokenise(p, selectors=True)
        back = {k: v for k, v in tok_dict(tokenise(s2)).items() if v}
        if back != want:
            viol.append(Violation(
                'C23:garbage-roundtrip',
                f'tokenise({text!r}, relative={rel}) = {n!r}; formatted '
                f'{s2!r}; re-parsed {back!r}; expected {want!r}'))
    except Exception as exc:
        viol.append(Violation(
            'C23:unexpected-exception:' + exc_sig(exc),
            f'after tokenise({text!r}) = {n!r}: {exc!r}'))
    return CaseResult(viol, nontrivial=True, classes=classes)


def run_shard(ctx: Ctx):
    import logging
    logging.getLogger('cylc').setLevel(logging.CRITICAL)
    hyp_run(ctx, cases(), check_case, ctx.share(BUDGET[ctx.tier]))
    if ctx.tier == 'thorough' and ctx.shard == 0:
        # second driver (same oracle); never decides the property by itself
        from vf.gen import idname_atheris
        idname_atheris.run(ctx, PROP_ID)
