"""C34 Parameter expansion yields exactly the Cartesian product.

Hypothesis draws 1-3 task parameters (integer lists with default or custom
templates, string lists, digit strings) and parameterised graph chains /
runtime headings that use any subset of them with loop variables, specific
values (<p=v>) and negative offsets (<p-1>, <p-2>).  A small model expands
every line explicitly (one instance per combination of the values of the
parameters used; an offset without a previous value removes that node).

  * GraphParser(parameters=...) on the parameterised text must equal
    GraphParser() on the model's explicit expansion (nodes, triggers,
    output optionality; truth tables if the expression text differs);
  * GraphExpander.expand(line) == the model's set of lines (offset-free lines);
  * NameExpander.expand(heading) == the model's (name, values) list as a
    multiset;
  * 1 case in 16 (by hash): the same through WorkflowConfig ([task parameters],
    parameterised [runtime] headings and graph) against a WorkflowConfig of the
    explicit expansion.
"""
from __future__ import annotations

import itertools
import json
import re
from collections import Counter

from hypothesis import strategies as st

from vf.core import CaseResult, Ctx, Violation, hyp_run, exc_sig, jhash
from vf.gen import graphast as G
from vf.props import c14 as B

PROP_ID = 'C34'
LEVEL = 'exploration'
BUDGET = {'quick': 3000, 'thorough': 32000}
RULE = (
    'Hypothesis draws 1-3 parameters from {m, n, run}: integer lists (ranges '
    'with step, 1-4 values, default zero-padded template or a custom one), '
    'string lists, digit-string lists with %s templates, or mixed digit/non-'
    'digit string lists (loop and offset use in lines; p=value on them is '
    'checked value by value); 1-3 graph chains '
    'of 1-3 nodes whose atoms are name<items>name with items = loop variable, '
    'p=value, p-1, p-2 (AND/OR lists, optional parentheses, qualifiers), and a '
    'runtime heading of 1-3 parameterised names.  Oracle = explicit Cartesian '
    'expansion by the model, compared through the real parser.  Non-trivial = '
    'some line uses >= 2 parameters, or an offset, or a specific value; '
    'distinct = by the case.')
ASSUMPTIONS = [
    'A line is instantiated once per combination of the values of every '
    'parameter that appears in it (as loop variable or under an offset); '
    'p=value items do not multiply instances (statement).',
    '"Dropping the offset node where no previous value exists": the node is '
    'removed from its &/| expression.  If it was the whole expression of a '
    'chain node, the statement does not say what happens to the rest of the '
    'chain: both "chain is cut there" (graph_parser.py comments and '
    'tests/unit/test_graph_parser.py::test_parameter_offset) and "rest of the '
    'chain kept" are accepted.',
    'Positive offsets <p+1> are not in the statement and are not generated.',
    'Offsets are by position in the value list (previous value), as in '
    'GraphExpander.expand docstring.',
    'NameExpander value dicts are compared by str() of the values.',
]
MANIFEST = {
    'engine': 'P',
    'technique': 'Hypothesis over parameter sets and parameterised lines; '
                 'metamorphic against explicit expansion through the real '
                 'GraphParser / WorkflowConfig',
}

PNAMES = ['m', 'n', 'run']
STRVALS = ['cat', 'dog', 'fish', 'a1', 'b_2', 'Z']
BASES = ['foo', 'bar', 'baz', 'qux', 'pre', 'post']


# ---------------------------------------------------------------- strategy
@st.composite
def _param(draw, name):
    kind = draw(st.sampled_from(['int', 'int', 'str', 'digits', 'intstep',
                                 'int', 'str', 'mixed']))
    if kind in ('int', 'intstep'):
        start = draw(st.integers(0, 12))
        k = draw(st.integers(1, 4))
        step = draw(st.integers(2, 5)) if kind == 'intstep' else 1
        vals = [start + i * step for i in range(k)]
        t = draw(st.integers(0, 5))
        if t < 3:
            tmpl = None       # default
        elif t == 3:
            tmpl = f'_{name}%({name})s'
        elif t == 4:
            tmpl = f'_{name}%({name})03d'
        else:
            tmpl = f'x%({name})dy'
        return {'vals': vals, 'tmpl': tmpl, 'kind': 'int'}
    if kind == 'str':
        k = draw(st.integers(1, 4))
        vals = draw(st.lists(st.sampled_from(STRVALS), min_size=k, max_size=k,
                             unique=True))
        tmpl = None if draw(st.integers(0, 2)) else f'_{name}_%({name})s'
        return {'vals': vals, 'tmpl': tmpl, 'kind': 'str'}
    if kind == 'mixed':
        # "072, a" is a list of strings (parsec validate docstring)
        vals = draw(st.lists(st.sampled_from(['07', '012', 'a', 'b2', '3']),
                             min_size=2, max_size=4, unique=True))
        if all(v.isdigit() for v in vals):
            vals.append('a')
        return {'vals': vals, 'tmpl': None, 'kind': 'mixed'}
    k = draw(st.integers(1, 4))
    start = draw(st.integers(0, 8))
    vals = [str(start + i) for i in range(k)]
    return {'vals': vals, 'tmpl': f'_{name}%({name})s', 'kind': 'digits'}


def default_tmpl(name, p):
    if p['kind'] == 'int':
        return f'_{name}%({name})0{len(str(max(p["vals"])))}d'
    return f'_%({name})s'


@st.composite
def _item(draw, name, p, allow_offset):
    w = draw(st.integers(0, 9))
    if p['kind'] == 'mixed' and 6 <= w < 8:
        w = 0          # p=value on mixed lists: checked separately below
    if w < 6 or (w >= 8 and not allow_offset):
        return [name, '', None]
    if w < 8:
        return [name, '=', p['vals'][draw(st.integers(0, len(p['vals']) - 1))]]
    return [name, '-', draw(st.sampled_from([1, 1, 1, 2]))]


@st.composite
def _patom(draw, params, allow_offset=True, plain_ok=True):
    names = sorted(params)
    base = draw(st.sampled_from(BASES))
    if plain_ok and draw(st.integers(0, 5)) == 4:
        return {'segs': [base], 'q': '', 'opt': False}
    k = draw(st.integers(1, len(names)))
    used = draw(st.lists(st.sampled_from(names), min_size=k, max_size=k,
                         unique=True))
    items = [draw(_item(n, params[n], allow_offset)) for n in used]
    shape = draw(st.integers(0, 5))
    if shape <= 2 or len(items) == 1:
        segs = [base, items]                     # foo<m,n>
        if shape == 2:
            segs.append('_t')                    # foo<m,n>_t
    elif shape == 3:
        segs = [base, items[:1], items[1:]]      # foo<m><n>
    elif shape == 4:
        segs = [base, items[:1], 'mid', items[1:]]   # foo<m>mid<n>
    else:
        segs = [items, base]                     # <m,n>foo
    return {'segs': segs, 'q': '', 'opt': False}


@st.composite
def cases(draw):
    np_ = draw(st.integers(1, 3))
    pnames = draw(st.lists(st.sampled_from(PNAMES), min_size=np_,
                           max_size=np_, unique=True))
    params = {n: draw(_param(n)) for n in pnames}
    chains = []
    for _ in range(draw(st.integers(1, 3))):
        ln = draw(st.integers(1, 3))
        nodes = []
        for gi in range(ln):
            k = draw(st.sampled_from([1, 1, 1, 2, 3]))
            atoms = [draw(_patom(params)) for _ in range(k)]
            if k == 1:
                node = atoms[0]
            elif gi == 0:
                op = draw(st.sampled_from('&|'))
                if k == 3 and draw(st.integers(0, 3)) == 2:
                    other = '|' if op == '&' else '&'
                    node = [op, [other, atoms[0], atoms[1]], atoms[2]]
                else:
                    node = [op] + atoms
                    if draw(st.integers(0, 5)) == 3:
                        node[0] = op + 'p'
            else:
                node = ['&'] + atoms
            nodes.append(node)
        if ln > 1 and draw(st.integers(0, 5)) == 2:
            for a in B._atoms(nodes[0])[:1]:
                a['q'] = draw(st.sampled_from(['start', 'started', 'succeed']))
        chains.append(nodes)
    heading = [draw(_patom(params, allow_offset=False))
               for _ in range(draw(st.integers(1, 3)))]
    return {'params': params, 'chains': chains, 'heading': heading}


# ------------------------------------------------------------------- model
def templates(params):
    return {n: (p['tmpl'] or default_tmpl(n, p)) for n, p in params.items()}


def atom_text(a):
    s = ''
    for seg in a['segs']:
        if isinstance(seg, str):
            s += seg
        else:
            parts = []
            for name, kind, arg in seg:
                if kind == '':
                    parts.append(name)
                elif kind == '=':
                    parts.append(f'{name}={arg}')
                else:
                    parts.append(f'{name}{kind}{arg}')
            s += '<' + ','.join(parts) + '>'
    if a.get('q'):
        s += ':' + a['q']
    if a.get('opt'):
        s += '?'
    return s


def node_text(node):
    if G.is_atom(node):
        return atom_text(node)
    op = G.op_of(node)
    inner = f' {op} '.join(
        atom_text(c) if G.is_atom(c) else '(' + node_text(c) + ')'
        for c in node[1:])
    return '(' + inner + ')' if node[0].endswith('p') else inner


def line_text(chain):
    return ' => '.join(node_text(n) for n in chain)


def variable_params(nodes):
    """Parameters a line loops over, in order of first appearance."""
    out = []
    for node in nodes:
        for a in B._atoms(node):
            for seg in a['segs']:
                if isinstance(seg, list):
                    for name, kind, _arg in seg:
                        if kind != '=' and name not in out:
                            out.append(name)
    return out


def instantiate_atom(a, params, tmpls, env):
    """-> concrete C14-style atom, or None if an offset falls off the list."""
    name = ''
    values = {}
    for seg in a['segs']:
        if isinstance(seg, str):
            name += seg
            continue
        for pname, kind, arg in seg:
            vals = params[pname]['vals']
            if kind == '':
                v = env[pname]
            elif kind == '=':
                v = arg
            else:
                i = vals.index(env[pname]) - arg
                if i < 0:
                    return None
                v = vals[i]
            if kind == '=' and params[pname]['kind'] == 'digits':
                v = int(v)        # what a user means by <i=1> on '0','1',..
            values[pname] = v
            name += tmpls[pname] % {pname: v}
    return {'n': name, 'o': '', 'q': a.get('q', ''), 'opt': a.get('opt', False),
            'values': values}


def instantiate_node(node, params, tmpls, env):
    if G.is_atom(node):
        return instantiate_atom(node, params, tmpls, env)
    kids = [instantiate_node(c, params, tmpls, env) for c in node[1:]]
    kids = [k for k in kids if k is not None]
    if not kids:
        return None
    return [node[0]] + kids


def expand_chain(chain, params, tmpls, keep_rest):
    """Explicit expansion of one chain -> list of concrete chains."""
    out = []
    vps = variable_params(chain)
    for combo in itertools.product(*[params[p]['vals'] for p in vps]):
        env = dict(zip(vps, combo))
        nodes = [instantiate_node(n, params, tmpls, env) for n in chain]
        cur = []
        for n in nodes:
            if n is None:
                if cur:
                    out.append(cur)
                cur = []
                if not keep_rest:
                    cur = None
                    break
            else:
                cur.append(n)
        if cur:
            out.append(cur)
    # de-duplicate
    seen, uniq = set(), []
    for ch in out:
        k = json.dumps(ch, sort_keys=True)
        if k not in seen:
            seen.add(k)
            uniq.append(ch)
    return uniq


def strip_values(chains):
    def strip(node):
        if G.is_atom(node):
            return {k: v for k, v in node.items() if k != 'values'}
        return [node[0]] + [strip(c) for c in node[1:]]
    return [[strip(n) for n in ch] for ch in chains]


def uses(case):
    offs = spec = False
    maxp = 0
    for ch in case['chains']:
        maxp = max(maxp, len(variable_params(ch)))
        for node in ch:
            for a in B._atoms(node):
                for seg in a['segs']:
                    if isinstance(seg, list):
                        for _n, kind, _a in seg:
                            offs |= kind == '-'
                            spec |= kind == '='
    return offs, spec, maxp


def cylc_params(params):
    return ({n: list(p['vals']) for n, p in params.items()}, templates(params))


# ------------------------------------------------------------------ checks
def _paren_adjacent_offset(chains):
    """An offset atom that is the first or last operand inside parentheses."""
    def walk(node, top):
        if G.is_atom(node):
            return False
        paren = (not top) or node[0].endswith('p')
        kids = node[1:]
        if paren:
            for k in (kids[0], kids[-1]):
                if G.is_atom(k) and any(
                        isinstance(s, list) and any(i[1] == '-' for i in s)
                        for s in k['segs']):
                    return True
        return any(walk(k, False) for k in kids)
    return any(walk(n, True) for ch in chains for n in ch)


def _zero_padded_specific(nodes, params):
    """A p=value item whose value is a zero-padded digit string."""
    for node in nodes:
        for a in B._atoms(node):
            for seg in a['segs']:
                if isinstance(seg, list):
                    for name, kind, arg in seg:
                        if (kind == '=' and isinstance(arg, str)
                                and arg.isdigit() and arg != str(int(arg))):
                            return True
    return False


def _leading_adjacent_dropped(chains, params):
    """Some instance of some node loses its first AND its second operand
    (in written order, at one nesting level) to out-of-range offsets."""
    tmpls = templates(params)

    def dropped(node, env):
        return instantiate_node(node, params, tmpls, env) is None

    def walk(node, env):
        if G.is_atom(node):
            return False
        kids = node[1:]
        if len(kids) >= 2 and dropped(kids[0], env) and dropped(kids[1], env):
            return True
        return any(walk(k, env) for k in kids)

    for ch in chains:
        vps = variable_params(ch)
        for combo in itertools.product(*[params[p]['vals'] for p in vps]):
            env = dict(zip(vps, combo))
            if any(walk(n, env) for n in ch):
                return True
    return False


def _semantic_equal(gp1, gp2):
    """Compare two parsers: nodes, optionality, truth tables per right side."""
    n1, n2 = B.normalise(gp1), B.normalise(gp2)
    if n1 == n2:
        return None
    if n1['nodes'] != n2['nodes']:
        return (f'nodes differ: only with parameters '
                f'{sorted(set(n1["nodes"]) - set(n2["nodes"]))}, only in the '
                f'explicit expansion '
                f'{sorted(set(n2["nodes"]) - set(n1["nodes"]))}')
    if n1['required'] != n2['required']:
        return f'optionality differs: {n1["required"]} != {n2["required"]}'
    for right in sorted(set(gp1.triggers) | set(gp2.triggers)):
        t1, p1 = G.lhs_truth(gp1, right)
        t2, p2 = G.lhs_truth(gp2, right)
        if p1 or p2:
            if n1['triggers'].get(right) != n2['triggers'].get(right):
                return (f'{right}: {n1["triggers"].get(right)} != '
                        f'{n2["triggers"].get(right)}')
            continue
        vs = set()
        for t in t1 + t2:
            vs.update(G.tree_vars(t))
        if len(vs) > 14:
            continue
        tt = G.TT(vs)
        a = b = tt.true
        for t in t1:
            a &= tt.of_tree(t)
        for t in t2:
            b &= tt.of_tree(t)
        if a != b:
            return (f'triggers of {right} differ: '
                    f'{n1["triggers"].get(right)} != '
                    f'{n2["triggers"].get(right)}')
    return None


def check_case(case, ctx: Ctx) -> CaseResult:
    from cylc.flow.graph_parser import GraphParser
    from cylc.flow.param_expand import GraphExpander, NameExpander
    from cylc.flow.exceptions import GraphParseError, ParamExpandError
    from vf.cylcutil import reset_globals
    reset_globals()
    params = case['params']
    chains = case['chains']
    tmpls = templates(params)
    cp = cylc_params(params)
    offs, spec, maxp = uses(case)
    classes = [f'params:{len(params)}', f'line-params:{maxp}']
    if offs:
        classes.append('offset')
    if spec:
        classes.append('specific-value')
    for p in params.values():
        classes.append('kind:' + p['kind'])
        classes.append('template:' + ('default' if p['tmpl'] is None
                                      else 'custom'))
    classes = sorted(set(classes))
    paren_adj = _paren_adjacent_offset(chains)
    if paren_adj:
        classes.append('offset-next-to-parenthesis')
    nontrivial = maxp >= 2 or offs or spec
    viol = []
    text = '\n'.join(line_text(ch) for ch in chains)
    ptxt = f'parameters {cp[0]} templates {cp[1]}\ngraph:\n{text}\n'

    # ---- through GraphParser
    cut = [c for ch in chains for c in expand_chain(ch, params, tmpls, False)]
    keep = [c for ch in chains for c in expand_chain(ch, params, tmpls, True)]
    def parse_model(model):
        mtext = B.render(strip_values(model), []) if model else ''
        gp2 = GraphParser()
        try:
            gp2.parse_graph(mtext)
        except GraphParseError as exc:
            return mtext, None, exc
        return mtext, gp2, None

    models = [('cut', cut)] + ([('keep', keep)] if keep != cut else [])
    if keep != cut:
        classes.append('whole-node-dropped')
    mres = [(name,) + parse_model(model) for name, model in models]
    gp = GraphParser(parameters=cp)
    parsed = False
    try:
        gp.parse_graph(text)
        parsed = True
    except (GraphParseError, ParamExpandError) as exc:
        if any(r[3] is not None for r in mres) and isinstance(
                exc, GraphParseError):
            # the explicit expansion is rejected as well (e.g. conflicting
            # optionality, self-suicide): consistent, out of domain
            ctx.col.rejected += 1
            classes.append('rejected-like-explicit-expansion')
        elif paren_adj and 'Mismatched parentheses' in str(exc):
            viol.append(Violation(
                'C34:offset-node-next-to-parenthesis:rejected',
                f'{type(exc).__name__}: {exc}\n{ptxt}'))
        else:
            viol.append(Violation(
                'C34:valid-parameterised-graph-rejected:'
                + (B.err_bucket(exc) if isinstance(exc, GraphParseError)
                   else 'ParamExpandError'),
                f'{type(exc).__name__}: {exc}\n{ptxt}'))
    except RecursionError:
        raise
    except Exception as exc:
        viol.append(Violation('C34:wrong-exception:' + exc_sig(exc),
                              f'{type(exc).__name__}: {exc}\n{ptxt}'))
    if parsed:
        why = None
        matched = False
        for name, mtext, gp2, err in mres:
            if gp2 is None:
                continue
            w = _semantic_equal(gp, gp2)
            if w is None:
                matched = True
                if name == 'keep':
                    classes.append('matched-keep-rest-reading')
                break
            if why is None:
                why = (w, mtext)
        if not matched and why is None:
            # every explicit expansion is rejected but the parameterised
            # form is accepted
            viol.append(Violation(
                'C34:accepted-but-explicit-expansion-rejected',
                f'{mres[0][3]}\n{ptxt}explicit expansion:\n{mres[0][1]}'))
        elif not matched:
            kind = 'offset' if offs else ('specific' if spec else 'product')
            sig = f'C34:graph-expansion-differs:{kind}'
            leaked = sorted(
                {n for n in gp.triggers if '-32768' in n}
                | {t for v in gp.triggers.values() for (ts, _) in v.values()
                   for t in ts if '-32768' in t})
            if leaked:
                # the out-of-range placeholder became a task / trigger
                sig = 'C34:out-of-range-placeholder-in-graph:' + (
                    'leading-adjacent-operands'
                    if _leading_adjacent_dropped(chains, params) else 'other')
            viol.append(Violation(
                sig,
                f'{why[0]}\n{ptxt}explicit expansion:\n{why[1]}\n'
                f'parsed with parameters: {gp.triggers}'))

    # ---- GraphExpander.expand directly (offset-free lines)
    ge = GraphExpander(cp)
    for ch in chains:
        if any(i[1] == '-' for n in ch for a in B._atoms(n)
               for s in a['segs'] if isinstance(s, list) for i in s):
            continue
        line = ''.join(line_text(ch).split())
        if '<' not in line:
            continue
        try:
            got = ge.expand(line)
        except RecursionError:
            raise
        except Exception as exc:
            viol.append(Violation(
                'C34:GraphExpander-raises:' + exc_sig(exc),
                f'{type(exc).__name__}: {exc}\nline {line!r}\n{ptxt}'))
            continue
        want = set()
        for c in expand_chain(ch, params, tmpls, False):
            want.add(''.join(
                B.render(strip_values([c]), []).split()))
        if got != want:
            viol.append(Violation(
                'C34:GraphExpander-set-differs',
                f'line {line!r}: missing {sorted(want - got)} unexpected '
                f'{sorted(got - want)}\n{ptxt}'))

    # ---- NameExpander
    heading = ', '.join(atom_text(a) for a in case['heading'])
    want = []
    for a in case['heading']:
        vps = variable_params([a])
        for combo in itertools.product(*[params[p]['vals'] for p in vps]):
            inst = instantiate_atom(a, params, tmpls, dict(zip(vps, combo)))
            want.append((inst['n'], tuple(sorted(
                (k, str(v)) for k, v in inst['values'].items()))))
    try:
        got = NameExpander(cp).expand(heading)
        gotn = [(n, tuple(sorted((k, str(v)) for k, v in d.items())))
                for n, d in got]
        if Counter(gotn) != Counter(want):
            cw, cg = Counter(want), Counter(gotn)
            viol.append(Violation(
                'C34:NameExpander-differs',
                f'heading {heading!r}: missing {sorted((cw - cg).elements())}'
                f' unexpected {sorted((cg - cw).elements())}\n{ptxt}'))
    except RecursionError:
        raise
    except Exception as exc:
        viol.append(Violation(
            'C34:NameExpander-raises:' + exc_sig(exc),
            f'{type(exc).__name__}: {exc}\nheading {heading!r}\n{ptxt}'))

    # ---- one expander, several headings (as WorkflowConfig uses it): the
    # same stem with the fixed value on different parameters
    pn = sorted(pp for pp in params if params[pp]['kind'] != 'mixed')
    shared = None
    for i, p1 in enumerate(pn):
        for p2 in pn[i + 1:]:
            common = [v for v in params[p1]['vals']
                      if str(v) in {str(w) for w in params[p2]['vals']}]
            if common and shared is None:
                shared = (p1, p2, common[0])
    if shared is not None:
        classes.append('one-expander-several-headings')
        p1, p2, v = shared
        v2 = next(w for w in params[p2]['vals'] if str(w) == str(v))
        atoms2 = [
            {'segs': ['foo', [[p1, '=', v], [p2, '', None]]]},
            {'segs': ['foo', [[p1, '', None], [p2, '=', v2]]]},
            {'segs': ['foo', [[p1, '=', v], [p2, '', None]]]},
        ]
        try:
            ne = NameExpander(cp)
            for a in atoms2:
                vps = variable_params([a])
                want2 = []
                for combo in itertools.product(
                        *[params[q]['vals'] for q in vps]):
                    inst = instantiate_atom(
                        a, params, tmpls, dict(zip(vps, combo)))
                    want2.append((inst['n'], tuple(sorted(
                        (k, str(x)) for k, x in inst['values'].items()))))
                got2 = [(n, tuple(sorted((k, str(x)) for k, x in d.items())))
                        for n, d in ne.expand(atom_text(a))]
                if Counter(got2) != Counter(want2):
                    viol.append(Violation(
                        'C34:NameExpander-differs:heading-after-other-'
                        'headings-on-one-expander',
                        f'{atom_text(a)!r} expanded after '
                        f'{[atom_text(b) for b in atoms2[:atoms2.index(a)]]} '
                        f'on the same NameExpander: got {sorted(got2)}, '
                        f'model {sorted(want2)}\n{ptxt}'))
                    break
        except RecursionError:
            raise
        except Exception as exc:
            viol.append(Violation(
                'C34:NameExpander-raises:' + exc_sig(exc),
                f'{type(exc).__name__}: {exc} (shared expander)\n{ptxt}'))

    # ---- p=value on a mixed list of digit and non-digit strings
    for pname, p in params.items():
        if p['kind'] != 'mixed':
            continue
        classes.append('mixed-list-specific-values')
        for v in p['vals']:
            want1 = {f'foo{tmpls[pname] % {pname: v}}'}
            for label, call in (
                ('GraphExpander', lambda: set(
                    GraphExpander(cp).expand(f'foo<{pname}={v}>'))),
                ('NameExpander', lambda: {n for n, _ in NameExpander(
                    cp).expand(f'foo<{pname}={v}>')}),
            ):
                try:
                    got1 = call()
                except ParamExpandError as exc:
                    viol.append(Violation(
                        'C34:specific-value-on-mixed-list:rejected',
                        f'{label} foo<{pname}={v}> with {pname} = '
                        f'{p["vals"]}: {exc}'))
                    continue
                except RecursionError:
                    raise
                except Exception as exc:
                    viol.append(Violation(
                        'C34:specific-value-on-mixed-list:raises-'
                        + type(exc).__name__,
                        f'{label} foo<{pname}={v}> with {pname} = '
                        f'{p["vals"]}: {type(exc).__name__}: {exc}'))
                    continue
                if got1 != want1:
                    zp = v.isdigit() and v != str(int(v))
                    viol.append(Violation(
                        'C34:specific-value-on-mixed-list:'
                        + ('zero-padded-value-renamed' if zp
                           else 'wrong-name'),
                        f'{label} foo<{pname}={v}> with {pname} = '
                        f'{p["vals"]} gives {sorted(got1)}, the value\'s own '
                        f'instance is {sorted(want1)}'))

    if int(jhash(case)[:8], 16) % 16 == 0 and parsed and not viol:
        classes.append('via-config')
        viol += _check_config(case, text, heading, cut, keep, want, ctx)
    seen, out = set(), []
    for v in viol:
        if v.sig not in seen:
            seen.add(v.sig)
            out.append(v)
    return CaseResult(out, nontrivial=bool(nontrivial), classes=classes)


# ------------------------------------------------------------ config level
def _param_cfg_lines(params):
    lines = ['[task parameters]']
    for n, p in params.items():
        lines.append(f'    {n} = ' + ', '.join(str(v) for v in p['vals']))
    custom = {n: p['tmpl'] for n, p in params.items()
              if p['tmpl'] is not None}
    if custom:
        lines.append('    [[templates]]')
        for n, t in custom.items():
            lines.append(f'        {n} = {t}')
    return lines


def _flow(param_lines, graph_text, headings):
    lines = ['[scheduler]', '    allow implicit tasks = True'] + param_lines
    lines += ['[scheduling]', '    [[graph]]', '        R1 = """']
    lines += ['            ' + ln for ln in graph_text.split('\n')]
    lines += ['        """', '[runtime]']
    for h in headings:
        lines += [f'    [[{h}]]', '        script = true']
    return '\n'.join(lines) + '\n'


def _observe(cfg):
    deps = {}
    for name, td in cfg.taskdefs.items():
        rows = []
        for _seq, dl in td.dependencies.items():
            for dep in dl:
                rows.append(repr(dep._exp))
        deps[name] = sorted(rows)
    edges = sorted(
        (str(e[0]), str(e[1])) for es in cfg.edges.values() for e in es
        if e[1] is not None)
    outs = {n: {o: v[1] for o, v in td.outputs.items() if v[1] is not None}
            for n, td in cfg.taskdefs.items()}
    return {'tasks': sorted(cfg.taskdefs), 'deps': deps, 'edges': edges,
            'outputs': outs}


def _check_config(case, text, heading, cut, keep, want_names, ctx):
    from cylc.flow.exceptions import CylcError
    from vf.cylcutil import load_config
    params = case['params']
    if any(p['kind'] == 'digits' for p in params.values()):
        return []

    if not cut or not keep:
        return []      # nothing left to compare (every instance dropped)      # a config file turns digit strings into integers
    flow1 = _flow(_param_cfg_lines(params), text, [heading])
    names0 = sorted({n for n, _ in want_names})
    try:
        cfg1 = load_config(flow1, ctx.scratch)
    except CylcError as exc:
        # e.g. self-edge / cycle: must be rejected in explicit form as well
        for model in (cut, keep):
            mtext = B.render(strip_values(model), []) if model else ''
            try:
                load_config(_flow([], mtext, names0), ctx.scratch)
            except CylcError as exc2:
                if type(exc2) is type(exc):
                    ctx.col.rejected += 1
                    return []
        return [Violation(
            'C34:config-rejected-but-explicit-expansion-accepted',
            f'{type(exc).__name__}: {exc}\n{flow1}')]
    except RecursionError:
        raise
    except Exception as exc:
        return [Violation('C34:config-wrong-exception:' + exc_sig(exc),
                          f'{type(exc).__name__}: {exc}\n{flow1}')]
    viol = []
    names = sorted({n for n, _ in want_names})
    # namespaces made from the heading
    have = set(cfg1.cfg['runtime'])
    missing = [n for n in names if n not in have]
    if missing:
        viol.append(Violation(
            'C34:config-runtime-namespaces-missing',
            f'{missing} not in [runtime] after expansion of [[{heading}]]\n'
            f'{flow1}'))
    by_name = {}
    for n, vals in want_names:
        by_name.setdefault(n, {}).update(dict(vals))
    for n, vals in by_name.items():
        got = {k: str(v) for k, v in cfg1.task_param_vars.get(n, {}).items()}
        if got != vals:
            viol.append(Violation(
                'C34:config-task-param-values-differ',
                f'{n}: task_param_vars {got} != {vals}\n{flow1}'))
            break
    ob1 = _observe(cfg1)
    first = None
    for model in (cut, keep):
        mtext = B.render(strip_values(model), []) if model else ''
        flow2 = _flow([], mtext, names)
        try:
            cfg2 = load_config(flow2, ctx.scratch)
        except CylcError as exc:
            return viol + [Violation(
                'C34:config-explicit-expansion-rejected',
                f'{type(exc).__name__}: {exc}\n{flow2}')]
        ob2 = _observe(cfg2)
        if ob1 == ob2:
            return viol
        if first is None:
            part = next(k for k in ob1 if ob1[k] != ob2[k])
            first = (part, ob1[part], ob2[part], flow2)
    viol.append(Violation(
        f'C34:config-differs-from-explicit-expansion:{first[0]}',
        f'{flow1}\ngives {first[0]} = {first[1]}\n{first[3]}\ngives '
        f'{first[2]}'))
    return viol


def run_shard(ctx: Ctx):
    hyp_run(ctx, cases(), check_case, ctx.share(BUDGET[ctx.tier]))
