"""C09 Task status transitions follow the lifecycle; outputs are monotone."""
from __future__ import annotations

from hypothesis import strategies as st

from vf.core import CaseResult, Ctx, Violation, hyp_run
from vf.gen.wfspec import wfspecs
from vf.sim.drive import SCase, outcome_maps, run_async, schedules

PROP_ID = 'C09'
LEVEL = 'exploration'
BUDGET = {'quick': 420, 'thorough': 10000}
MANIFEST = {
    'engine': 'S',
    'technique': 'PBT on the stepped scheduler: every monitored status change '
                 'and output set checked against the lifecycle order',
}
RULE = (
    'Generated workflow with retries (as C02), outcome sequences with '
    'failures and submit failures, and schedules of <=60 steps over loop / '
    'return / advance / deliver / deliver-newest-first / duplicate / '
    're-delivery of an already processed message / clock tick / user '
    'poll; execution retry delays PT0S or PT10M (so that started arrives before the submit callback, messages '
    'arrive out of order, twice, or after a retry), then a fair drain.  '
    'Oracle on every status change recorded by the TaskProxy.state_reset '
    'monitor: forward along waiting < preparing < submitted < running < '
    '{succeeded, failed}, never out of waiting on a job message; '
    'submit-failed only from preparing/submitted; '
    'expired only from waiting; back to waiting only from the retry path.  '
    'After every iteration each pooled proxy\'s completed outputs are a '
    'superset of what they were, and succeeded/failed complete implies '
    'submitted and started complete.  Non-trivial = a duplicate or '
    'out-of-order message was processed, or an implied output was filled in, '
    'or a retry returned a task to waiting; distinct by the whole case.')
ASSUMPTIONS = [
    'Schedule domain: a job\'s final message (succeeded/failed) is never '
    'delivered before the jobs-submit command that launched it has returned '
    '("started" may overtake the submit callback).',
    'No manual intervention except polls (polls are in the quantifier).',
    'Poll results are truthful for the instant the poll command was launched '
    'but may be delivered late.  A status change made while processing a '
    'poll result is tagged stale iff the job has emitted further messages '
    '(or was killed) since the poll looked at it; an illegal transition made '
    'on a stale poll result gets its own signature suffix '
    '":stale-poll-result" (known finding: late poll result believed), any '
    'other illegal transition keeps the plain signature.',
    'Like a final message, a poll does not report the end of a job before '
    'the jobs-submit command that launched it has returned (that command is '
    'returned first).',
]

RANK = {'waiting': 0, 'preparing': 1, 'submitted': 2, 'running': 3,
        'succeeded': 4, 'failed': 4}


@st.composite
def cases(draw):
    spec = draw(wfspecs({'retries': True, 'future': False, 'abs': False,
                         'max_tasks': 4, 'max_fcp': 3}))
    outcomes = draw(outcome_maps(spec, max_subs=3))
    # clock ticks must not trip the stall timeout abort
    spec['extra']['scheduler_events'] = {
        'stall timeout': 'P3000D', 'abort on stall timeout': 'False'}
    for t, r in spec['retries'].items():
        # half of the retrying tasks wait PT10M for the retry (messages of
        # the failed job can arrive while the task waits); the others PT0S
        if r.get('exec') and draw(st.booleans()):
            r['exec_delays'] = ['PT10M'] * r['exec']
    for t in spec['retries']:
        for p in range(spec['icp'], spec['fcp'] + 1):
            if draw(st.integers(0, 2)) == 0:
                outcomes[f'{p}/{t}'] = [
                    {'final': draw(st.sampled_from(
                        ['failed', 'submit-fail', None]))}
                    for _ in range(draw(st.integers(1, 3)))]
    sched = draw(schedules(60, ops=('loop', 'loop', 'ret', 'adv', 'adv',
                                    'del', 'delr', 'dup', 'poll', 'redel',
                                    'tick'),
                          min_len=20))
    delays = draw(st.lists(st.sampled_from([0, 0, 0, 1, 2, 3, 6, 12]),
                           min_size=1, max_size=12))
    ret_delays = draw(st.lists(st.sampled_from([0, 0, 1, 2, 5]),
                               min_size=1, max_size=6))
    poll_every = draw(st.sampled_from([0, 0, 2, 3, 5]))
    return {'spec': spec, 'outcomes': outcomes, 'schedule': sched,
            'delays': delays, 'ret_delays': ret_delays,
            'poll_every': poll_every}


def check_case(case, ctx: Ctx) -> CaseResult:
    return run_async(_check(case, ctx))


def transition_ok(ev):
    old, new = ev['before'][0], ev['after'][0]
    if old == new:
        return True, None
    if new == 'waiting':
        if '_retry_task' in ev['site']:
            return True, 'retry'
        return False, f'{old} -> waiting outside the retry path {ev["site"]}'
    if new == 'submit-failed':
        return (old in ('preparing', 'submitted'),
                f'{old} -> submit-failed')
    if new == 'expired':
        return old == 'waiting', f'{old} -> expired'
    if old == 'waiting' and 'process_message' in ev['site'] \
            and not ev.get('forced'):
        # a waiting task has no job that could report anything: a job
        # message that moves it on (other than by expiry) is a stale message
        # of the failed job of a task waiting for its retry
        return False, f'{old} -> {new} on a job message'
    if old in RANK and new in RANK:
        return RANK[new] > RANK[old], f'{old} -> {new}'
    return False, f'{old} -> {new}'


async def _check(case, ctx: Ctx) -> CaseResult:
    async with SCase(case, ctx) as sc:
        if sc.rejected:
            return CaseResult(sc.crash_violations('C09'), False,
                              ['rejected:' + sc.rejected])
        sim = sc.sim
        viol = []
        prev = {}      # id(itask) -> (identity, outputs)
        classes = set()

        def after(drv):
            schd = sim.schd
            cur = {}
            for itask in schd.pool.get_tasks():
                outs = set(itask.state.outputs.get_completed_outputs())
                key = id(itask)
                cur[key] = (itask.identity, outs, itask)
                if key in prev:
                    lost = prev[key][1] - outs
                    if lost:
                        viol.append(Violation(
                            'C09:output-uncompleted',
                            f'{itask.identity}: outputs {sorted(lost)} were '
                            f'complete and no longer are (iteration '
                            f'{sim.iteration})'))
                if outs & {'succeeded', 'failed'}:
                    miss = {'submitted', 'started'} - outs
                    if miss:
                        viol.append(Violation(
                            'C09:final-output-without-implied',
                            f'{itask.identity}: {sorted(outs)} lacks '
                            f'{sorted(miss)}'))
            prev.clear()
            prev.update(cur)

        sc.drv.after_loop.append(after)
        await sc.run_schedule()
        await sc.drain()
        viol = sc.crash_violations('C09') + viol
        for ev in sim.trace:
            if ev['k'] == 'state':
                ok, why = transition_ok(ev)
                if why == 'retry':
                    classes.add('retry-to-waiting')
                if not ok:
                    sig = 'C09:illegal-transition:' + '>'.join(
                        [ev['before'][0], ev['after'][0]])
                    note = ''
                    if ev.get('stale_poll'):
                        # root cause apart: the change was made while
                        # processing a poll result that describes the job
                        # as it was before it emitted further messages
                        classes.add('stale-poll-result-processed')
                        sig += ':stale-poll-result'
                        note = ('; made on a late poll result (the job has '
                                'emitted more since the poll looked at it)')
                    viol.append(Violation(
                        sig,
                        f'{ev["cycle"]}/{ev["name"]}: {why} at iteration '
                        f'{ev["it"]} (call path {ev["site"]}){note}'))
            elif ev['k'] == 'pm':
                if ev['before'] == ev['after'] and ev['flag'] == '(received)':
                    classes.add('message-changed-nothing')
                if ev['ret']:
                    classes.add('backward-message-polled')
                b, a = set(ev['before'][2]), set(ev['after'][2])
                new = a - b
                if len(new) > 1 and (new & {'submitted', 'started'}):
                    classes.add('implied-output-filled')
            elif ev['k'] == 'deliver' and ev.get('dup'):
                classes.add('duplicate-delivered')
        uniq = {}
        for v in viol:
            uniq.setdefault(v.sig, v)
        nontrivial = bool(classes & {
            'message-changed-nothing', 'implied-output-filled',
            'retry-to-waiting', 'backward-message-polled'})
        return CaseResult(list(uniq.values()), nontrivial, sorted(classes),
                          inconclusive=sc.inconclusive,
                          info={'flow': sc.drv.flow_text})


def run_shard(ctx: Ctx):
    hyp_run(ctx, cases(), check_case, ctx.share(BUDGET[ctx.tier]))
