"""C26 Task pool bookkeeping is internally consistent."""
from __future__ import annotations

import sqlite3

from hypothesis import strategies as st

from vf.core import CaseResult, Ctx, Violation, hyp_run
from vf.gen.wfspec import wfspecs
from vf.sim.drive import SCase, outcome_maps, run_async

PROP_ID = 'C26'
LEVEL = 'exploration'
BUDGET = {'quick': 400, 'thorough': 10000}
MANIFEST = {
    'engine': 'S',
    'technique': 'stateful PBT: invariant over pool internals and the '
                 'task_pool DB table after every main-loop iteration and command',
}
RULE = (
    'Generated workflow + outcomes (as C01) and a history of <=60 steps over '
    'loop / return / advance / deliver plus commands hold, release, trigger, '
    'remove, set, pause, resume on pooled or not-yet-spawned instances, then '
    'a fair drain.  After every main-loop iteration and every command: no two '
    'proxies share (cycle, name); no empty cycle bucket; get_tasks() equals '
    'the flattened bucket dict (as a set and in length); every proxy sits in '
    'the bucket of its own point under its own identity.  After every '
    'iteration (database flushed): the task_pool table read through a fresh '
    'connection equals {(cycle, name, flows, status, is_held)} of the pool.  '
    'Non-trivial = pool membership changed >= 5 times including >= 1 change '
    'caused by a command; distinct by the whole case.')
ASSUMPTIONS = [
    'The task_pool table is compared after the main-loop iteration has '
    'finished (after process_queued_ops), the granularity the statement names.',
]

CMD_OPS = ['hold', 'release', 'trigger', 'remove', 'set', 'pause', 'resume']


@st.composite
def cases(draw):
    spec = draw(wfspecs({'max_tasks': 5, 'max_fcp': 4}))
    outcomes = draw(outcome_maps(spec))
    ops = ['loop', 'loop', 'loop', 'ret', 'adv', 'del'] + CMD_OPS
    sched = draw(st.lists(
        st.tuples(st.sampled_from(ops), st.integers(0, 15)).map(list),
        max_size=60))
    return {'spec': spec, 'outcomes': outcomes, 'schedule': sched}


def check_case(case, ctx: Ctx) -> CaseResult:
    return run_async(_check(case, ctx))


def pool_invariants(pool):
    out = []
    seen = {}
    flat = []
    for point, bucket in pool.active_tasks.items():
        if not bucket:
            out.append(('C26:empty-cycle-bucket',
                        f'bucket for point {point} is empty'))
        for ident, itask in bucket.items():
            flat.append(itask)
            key = (str(itask.point), itask.tdef.name)
            if key in seen:
                out.append(('C26:duplicate-proxy',
                            f'two proxies for {key}'))
            seen[key] = itask
            if itask.point != point or itask.identity != ident:
                out.append(('C26:proxy-in-wrong-bucket',
                            f'{itask.identity} stored under {point}/{ident}'))
    cached = pool.get_tasks()
    if len(cached) != len(flat) or {id(t) for t in cached} != {
            id(t) for t in flat}:
        out.append((
            'C26:cached-task-list-differs',
            f'get_tasks() has {sorted(t.identity for t in cached)} but the '
            f'pool holds {sorted(t.identity for t in flat)}'))
    return out


def db_pool(path):
    con = sqlite3.connect(f'file:{path}?mode=ro', uri=True, timeout=5)
    try:
        rows = con.execute(
            'SELECT cycle, name, flow_nums, status, is_held FROM task_pool'
        ).fetchall()
    finally:
        con.close()
    return sorted((c, n, f, s, int(h)) for c, n, f, s, h in rows)


async def _check(case, ctx: Ctx) -> CaseResult:
    from cylc.flow.flow_mgr import stringify_flow_nums
    from cylc.flow.util import serialise_set
    async with SCase(case, ctx) as sc:
        if sc.rejected:
            return CaseResult(sc.crash_violations('C26'), False,
                              ['rejected:' + sc.rejected])
        viol = []
        sim = sc.sim
        stats = {'checks': 0, 'db_checks': 0}

        def after(drv, *_a, db=True):
            schd = sim.schd
            if schd is None or not hasattr(schd, 'pool'):
                return
            for sig, detail in pool_invariants(schd.pool):
                viol.append(Violation(sig, f'iteration {sim.iteration}: {detail}'))
            stats['checks'] += 1
            if db and sim.running:
                want = sorted(
                    (str(t.point), t.tdef.name, serialise_set(t.flow_nums),
                     t.state.status, int(t.state.is_held))
                    for t in schd.pool.get_tasks())
                got = db_pool(schd.workflow_db_mgr.pri_path)
                stats['db_checks'] += 1
                if got != want:
                    viol.append(Violation(
                        'C26:task-pool-table-differs',
                        f'after iteration {sim.iteration}: table has '
                        f'{[x for x in got if x not in want]} not in pool; '
                        f'pool has {[x for x in want if x not in got]} not '
                        f'in table'))

        sc.drv.after_loop.append(after)
        sc.drv.after_cmd.append(lambda drv, name: after(drv, db=False))
        await sc.run_schedule()
        await sc.drain()
        viol = sc.crash_violations('C26') + viol
        n_changes = sum(1 for e in sim.trace if e['k'] in ('add', 'remove'))
        cmd_change = False
        for e in sim.trace:
            if e['k'] == 'cmd' and e.get('err') is None:
                b = {(t['cycle'], t['name']) for t in e['before']}
                a = {(t['cycle'], t['name']) for t in e['after']}
                if a != b:
                    cmd_change = True
        classes = ['cmd:' + e['cmd'] for e in sim.trace if e['k'] == 'cmd']
        classes = sorted(set(classes))
        if cmd_change:
            classes.append('pool-changed-by-command')
        # de-duplicate violations by signature (keep first)
        uniq = {}
        for v in viol:
            uniq.setdefault(v.sig, v)
        return CaseResult(
            list(uniq.values()), n_changes >= 5 and cmd_change, classes,
            inconclusive=sc.inconclusive,
            info={'flow': sc.drv.flow_text, 'invariant_checks': stats['checks'],
                  'db_checks': stats['db_checks']})


def run_shard(ctx: Ctx):
    hyp_run(ctx, cases(), check_case, ctx.share(BUDGET[ctx.tier]))
