"""C11, scheduler-level half: a finished task leaves the pool exactly when it
is complete (used by vf/props/c11.py, part C).

Real Scheduler on the virtual cluster; the completion rule is evaluated by
the harness model (vf/sim/model.py: Model.complete, written from the C11
statement) over the outputs the scheduler recorded.
"""
from __future__ import annotations

from hypothesis import strategies as st

from vf.core import CaseResult, Ctx, Violation
from vf.gen.wfspec import wfspecs
from vf.sim.drive import SCase, outcome_maps, run_async, schedules

FINAL = ('succeeded', 'failed', 'submit-failed', 'expired')

S_RULE = (
    'Part C (engine S, budgeted): generated workflow (C01 domain: optional / '
    'required success, custom outputs required or optional, submit-fail '
    'optional or not) with outcome assignments that fail tasks, omit custom '
    'outputs or fail submission, message re-ordering, and manual triggers '
    'with --wait / --flow=new of pooled, finished or future instances; then a '
    'fair drain.  After every main-loop iteration: every pooled task in a '
    'final status must be incomplete by the model rule over its recorded '
    'outputs (otherwise it should have been removed); every task removed as '
    'completed must be complete by the model rule over the outputs it had. '
    'Non-trivial = some task finished incomplete and was retained, or a '
    'flow-wait task finished.')


@st.composite
def s_cases(draw):
    spec = draw(wfspecs({'max_tasks': 5, 'max_fcp': 4, 'abs': False,
                         'future': False}))
    outcomes = draw(outcome_maps(spec))
    ops = ['loop', 'loop', 'loop', 'ret', 'adv', 'del', 'del', 'delr']
    sched = draw(schedules(40, ops=ops))
    # manual triggers ahead of the flow, waiting for it (--wait) or not
    for _ in range(draw(st.integers(0, 2))):
        step = ['trigger', draw(st.integers(0, 23)),
                draw(st.sampled_from([[], [], ['new']])),
                draw(st.booleans())]
        sched.insert(draw(st.integers(0, len(sched))), step)
    return {'kind': 'S', 'spec': spec, 'outcomes': outcomes,
            'schedule': sched}


def check_s_case(case, ctx: Ctx) -> CaseResult:
    return run_async(_check(case, ctx))


async def _check(case, ctx: Ctx) -> CaseResult:
    async with SCase(case, ctx) as sc:
        if sc.rejected:
            return CaseResult(sc.crash_violations('C11'), False,
                              ['S', 'rejected:' + sc.rejected])
        sim, model = sc.sim, sc.model
        viol = []
        classes = {'S'}

        def after_loop(_drv):
            schd = sim.schd
            if schd is None or not hasattr(schd, 'pool'):
                return
            for itask in schd.pool.get_tasks():
                if not itask.state(*FINAL):
                    continue
                outs = set(itask.state.outputs.get_completed_outputs())
                name = itask.tdef.name
                if name not in model.valid:
                    continue
                if model.complete(name, outs):
                    flag = ':flow-wait' if itask.flow_wait else ''
                    viol.append(Violation(
                        'C11:finished-complete-task-retained' + flag,
                        f'{itask.identity} is {itask.state.status} with '
                        f'outputs {sorted(outs)} (complete by the rule) but '
                        f'is still in the pool after iteration '
                        f'{sim.iteration}'))
                else:
                    classes.add('finished-incomplete-retained')
                if itask.flow_wait:
                    classes.add('flow-wait-task-finished')

        sc.drv.after_loop.append(after_loop)
        await sc.run_schedule()
        await sc.drain()
        viol = sc.crash_violations('C11') + viol
        for ev in sim.trace:
            if ev['k'] == 'cmd' and ev['cmd'] == 'trigger' and not ev['err']:
                classes.add('manual-trigger')
            if ev['k'] != 'remove' or ev['reason'] is not None:
                continue
            if ev['status'] not in FINAL or ev['name'] not in model.valid:
                continue
            classes.add('removed-as-complete')
            if not model.complete(ev['name'], set(ev['outputs'])):
                viol.append(Violation(
                    'C11:incomplete-task-removed',
                    f'{ev["cycle"]}/{ev["name"]} ({ev["status"]}) was removed '
                    f'as completed with outputs {ev["outputs"]}, which the '
                    f'completion rule says are incomplete'))
        uniq = {}
        for v in viol:
            uniq.setdefault(v.sig, v)
        nontrivial = bool(classes & {'finished-incomplete-retained',
                                     'flow-wait-task-finished'})
        return CaseResult(list(uniq.values()), nontrivial, sorted(classes),
                          inconclusive=sc.inconclusive,
                          info={'flow': sc.drv.flow_text})
