"""C10 Stale, duplicate and out-of-order job messages cannot corrupt state."""
from __future__ import annotations

from hypothesis import strategies as st

from vf.core import CaseResult, Ctx, Violation, hyp_run
from vf.gen.wfspec import wfspecs
from vf.sim.drive import (
    SCase, job_outputs, outcome_for, outcome_maps, run_async, schedules)

PROP_ID = 'C10'
LEVEL = 'exploration'
BUDGET = {'quick': 420, 'thorough': 10000}
MANIFEST = {
    'engine': 'S',
    'technique': 'PBT over message/poll interleavings on the stepped '
                 'scheduler with a per-message before/after monitor',
}
RULE = (
    'Generated small workflow with 0-2 execution/submission retries per task '
    'and outcome sequences of 1-3 submissions; schedules of 20-70 steps over '
    'loop / return / advance / deliver / deliver-newest-first / duplicate / '
    're-deliver one of the last 6 delivered messages / user poll (messages are delayed, duplicated, re-ordered, and poll '
    'results are returned late; nothing is lost), then a fair drain.  A '
    'monitor around TaskEventsManager.process_message records (message, flag, '
    'message submit number, task state and outputs before/after, return '
    'value).  Oracle: a received message whose submit number differs from '
    'the task\'s current one leaves (status, outputs, submit number) '
    'unchanged; a received message that would move the status backwards '
    '(started when already beyond running, submitted when already submitted '
    'or later, failed/submit-failed when already beyond) changes no status, '
    'returns "poll" and a jobs-poll for that task is queued in the same '
    'iteration; after the drain each instance\'s final status and final '
    'output equal the scripted outcome of its latest job.  Non-trivial = a '
    'stale or backward message was processed; distinct by the whole case.')
ASSUMPTIONS = [
    'Schedule domain: a job\'s final message (succeeded/failed) is never '
    'delivered before the jobs-submit command that launched it has returned '
    '("started" may overtake the submit callback).',
    'Messages are never lost (loss is not in the statement); polls are '
    'truthful for their launch instant and may return late; like a final '
    'message, a poll does not report the end of a job before the '
    'jobs-submit command that launched it has returned.',
    'A final-state mismatch whose last status change was made on a stale '
    'poll result (the job emitted more after the poll looked at it) is '
    'reported under ":stale-poll-result-believed" (known finding); every '
    'other mismatch keeps the plain signature.',
    'No manual intervention except polls.',
]

ORDER = ['waiting', 'preparing', 'expired', 'submitted', 'submit-failed',
         'running', 'succeeded', 'failed']


@st.composite
def cases(draw):
    spec = draw(wfspecs({'retries': True, 'future': False, 'abs': False,
                         'max_tasks': 3, 'max_fcp': 3, 'custom': True}))
    outcomes = draw(outcome_maps(spec, max_subs=3))
    for t in spec['retries']:
        for p in range(spec['icp'], spec['fcp'] + 1):
            if draw(st.integers(0, 1)) == 0:
                outcomes[f'{p}/{t}'] = [
                    {'final': draw(st.sampled_from(
                        ['failed', 'failed', 'submit-fail', None]))}
                    for _ in range(draw(st.integers(1, 3)))]
    sched = draw(schedules(70, ops=('loop', 'loop', 'ret', 'adv', 'adv',
                                    'del', 'delr', 'delr', 'dup', 'redel',
                                    'redel', 'poll'),
                           min_len=20))
    delays = draw(st.lists(st.sampled_from([0, 0, 0, 1, 2, 3, 6, 12]),
                           min_size=1, max_size=12))
    ret_delays = draw(st.lists(st.sampled_from([0, 0, 1, 2, 5]),
                               min_size=1, max_size=6))
    poll_every = draw(st.sampled_from([0, 0, 2, 3, 5]))
    return {'spec': spec, 'outcomes': outcomes, 'schedule': sched,
            'delays': delays, 'ret_delays': ret_delays,
            'poll_every': poll_every}


def check_case(case, ctx: Ctx) -> CaseResult:
    return run_async(_check(case, ctx))


def backward(msg, status):
    """Would this received message move `status` backwards?"""
    from cylc.flow.task_state import TASK_STATUSES_ORDERED as O
    i = O.index(status)
    if msg == 'started':
        return i > O.index('running')
    if msg == 'submitted':
        return i >= O.index('submitted')
    if msg.startswith('failed'):
        return i > O.index('failed')
    if msg == 'submission failed':
        return i > O.index('submit-failed')
    return False


async def _check(case, ctx: Ctx) -> CaseResult:
    spec, outcomes = case['spec'], case['outcomes']
    async with SCase(case, ctx) as sc:
        if sc.rejected:
            return CaseResult(sc.crash_violations('C10'), False,
                              ['rejected:' + sc.rejected])
        sim, to_int = sc.sim, sc.drv.to_int
        await sc.run_schedule()
        await sc.drain()
        viol = sc.crash_violations('C10')
        classes = set()
        puts_by_iter = {}
        for ev in sim.trace:
            if ev['k'] == 'put' and ev['ckind'] == 'jobs-poll':
                puts_by_iter.setdefault((ev['inc'], ev['it']), []).extend(
                    ev['jobs'])
        for ev in sim.trace:
            if ev['k'] != 'pm' or ev['flag'] != '(received)':
                continue
            ident = f'{ev["cycle"]}/{ev["name"]}'
            status, cur_sn, outs = ev['before']
            if ev['msg_submit_num'] is not None and \
                    ev['msg_submit_num'] != cur_sn:
                classes.add('stale-message')
                if ev['before'] != ev['after']:
                    viol.append(Violation(
                        'C10:stale-message-changed-state',
                        f'{ident}: message "{ev["msg"]}" of job '
                        f'{ev["msg_submit_num"]:02d} (current {cur_sn:02d}) '
                        f'changed {ev["before"]} -> {ev["after"]}'))
                continue
            if backward(ev['msg'], status):
                classes.add('backward-message')
                if ev['after'][0] != status:
                    viol.append(Violation(
                        'C10:backward-message-changed-status',
                        f'{ident}: received "{ev["msg"]}" while {status} '
                        f'-> {ev["after"][0]}'))
                if not ev['ret']:
                    viol.append(Violation(
                        'C10:backward-message-no-poll-request',
                        f'{ident}: received "{ev["msg"]}" while {status}: '
                        f'process_message did not ask for a poll'))
                else:
                    polled = puts_by_iter.get((ev['inc'], ev['it']), [])
                    if not any(j.startswith(ident + '/') for j in polled):
                        viol.append(Violation(
                            'C10:backward-message-poll-not-queued',
                            f'{ident}: received "{ev["msg"]}" while '
                            f'{status}; no jobs-poll for it was queued in '
                            f'iteration {ev["it"]} (queued: {polled})'))
            elif ev['before'] == ev['after']:
                classes.add('duplicate-no-effect')
        # every message put on the scheduler's queue while its task was in
        # the pool (and stayed there through the next iteration, when the
        # queue is processed) must have been handed to process_message
        heard = set()
        removed_at = {}
        added_at = {}
        for ev in sim.trace:
            if ev['k'] == 'pm' and ev['flag'] == '(received)':
                heard.add((ev['cycle'], ev['name'], ev['msg'],
                           ev['msg_submit_num']))
            elif ev['k'] == 'remove':
                removed_at.setdefault((ev['cycle'], ev['name']), []).append(
                    (ev['inc'], ev['it']))
            elif ev['k'] == 'add':
                added_at.setdefault((ev['cycle'], ev['name']), []).append(
                    (ev['inc'], ev['it']))
        for ev in sim.trace:
            if ev['k'] != 'deliver':
                continue
            cyc, name, nn = ev['job'].split('/')
            if (cyc, name, ev['msg'], int(nn)) in heard:
                continue
            # only instances that were added once and never removed (before
            # the end of the run) are judged: no doubt about pool membership
            if removed_at.get((cyc, name)) or len(
                    added_at.get((cyc, name), [])) > 1:
                continue
            if sim.running:
                last_pool = sim.pool_snapshot()
            else:
                last_pool = next((e['pool'] for e in reversed(sim.trace)
                                  if e['k'] == 'shutdown'), [])
            if not any((t['cycle'], t['name']) == (cyc, name)
                       for t in last_pool):
                continue
            # a full main-loop iteration must have followed the delivery
            if not any(e['k'] == 'iter-end' and e['inc'] == ev['inc']
                       and e['it'] > ev['it'] + 1 for e in sim.trace):
                continue
            viol.append(Violation(
                'C10:delivered-message-never-processed',
                f'{ev["job"]}: message "{ev["msg"]}" was put on the message '
                f'queue at iteration {ev["it"]} while {cyc}/{name} was in '
                f'the pool, but process_message never saw it'))
        # final state == latest job's outcome
        if sc.shut or sc.quiescent:
            final = {}
            for ev in sim.trace:
                if ev['k'] == 'remove':
                    final[(ev['name'], ev['cycle'])] = (
                        ev['status'], set(ev['outputs']))
            if sim.running:
                for t in sim.pool_snapshot():
                    final[(t['name'], t['cycle'])] = (
                        t['status'], set(t['outputs']))
            else:
                for ev in reversed(sim.trace):
                    if ev['k'] == 'shutdown':
                        for t in ev['pool']:
                            final[(t['name'], t['cycle'])] = (
                                t['status'], set(t['outputs']))
                        break
            last_change = {}
            for ev in sim.trace:
                if ev['k'] == 'state' and ev['before'][0] != ev['after'][0]:
                    last_change[(ev['name'], ev['cycle'])] = ev
                    if ev.get('stale_poll'):
                        classes.add('stale-poll-result-changed-status')
            latest = {}
            for (cyc, name, sn) in sim.journal:
                latest[(name, cyc)] = max(latest.get((name, cyc), 0), sn)
            for (name, cyc), sn in latest.items():
                if (name, cyc) not in final:
                    continue
                job = sim.jobs[(cyc, name, sn)]
                want = ('submit-failed' if not job.submit_ok
                        else job.final)
                status, outs = final[(name, cyc)]
                if want is None:
                    continue
                if status != want or want not in outs:
                    sig = 'C10:final-state-differs-from-latest-job'
                    note = ''
                    last = last_change.get((name, cyc))
                    if last is not None and last.get('stale_poll'):
                        # root cause apart: the last status change was made
                        # on a poll result older than the job's last message
                        sig += ':stale-poll-result-believed'
                        note = (f'; last status change {last["before"][0]} '
                                f'-> {last["after"][0]} at iteration '
                                f'{last["it"]} was made on a late poll '
                                f'result')
                    viol.append(Violation(
                        sig,
                        f'{cyc}/{name}: latest job {sn:02d} ended {want}; '
                        f'task is {status} with outputs {sorted(outs)}'
                        f'{note}'))
        uniq = {}
        for v in viol:
            uniq.setdefault(v.sig, v)
        nontrivial = bool(classes & {'stale-message', 'backward-message'})
        return CaseResult(list(uniq.values()), nontrivial, sorted(classes),
                          inconclusive=sc.inconclusive,
                          info={'flow': sc.drv.flow_text})


def run_shard(ctx: Ctx):
    hyp_run(ctx, cases(), check_case, ctx.share(BUDGET[ctx.tier]))
