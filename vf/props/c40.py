"""C40 Workflow-state queries match exactly what was recorded.

A generated workflow DB (real CylcWorkflowDAO schema, rows inserted through
the DAO) is queried through CylcWorkflowDBChecker.workflow_state_query,
through the `cylc workflow-state` poller (WorkflowPoller) and through the
workflow_state xtrigger function.  Oracle: in-memory filter of the recorded
rows ('*' = any sequence, every other character literal and case-sensitive,
flow filter by membership, finished = succeeded|failed).
"""
from __future__ import annotations

import contextlib
import io
import itertools
import json
import os
import re
import shutil

from hypothesis import strategies as st

from vf.core import CaseResult, Ctx, Violation, hyp_run, exc_sig

PROP_ID = 'C40'
LEVEL = 'exploration'
BUDGET = {'quick': 2400, 'thorough': 60000}
RULE = (
    'Hypothesis draws a DB (3-10 task instances; names over the alphabet '
    '{a,b,A,B,_,%,-,1,é} built so that names differ only by case / by a '
    'character in the place of "_" or "%"; integer or datetime cycles; flow '
    'sets {1},{2},{1,2},{} ; final and transient statuses; outputs as '
    '{trigger: message} or legacy message list) written through the real '
    'CylcWorkflowDAO, and 1-6 queries (task / cycle patterns derived from '
    'recorded names by inserting "*", swapping case, substituting "_"/"%"; '
    'status / trigger / message selector incl. "finished"; flow_num), each '
    'run via workflow_state_query directly, via WorkflowPoller (ID string, '
    'real run-dir lookup) or via the workflow_state xtrigger (truth value). '
    'Oracle: in-memory glob filter over the generated rows. Non-trivial = '
    'some query has a pattern with "*" or a flow filter and the expected '
    'result is a non-empty strict subset of the rows; distinct by (rows, '
    'queries).')
ASSUMPTIONS = [
    'Result rows are compared as multisets of [name, cycle, status-or-'
    'str(outputs), flow-repr]; order is not part of the property.',
    'Flow representation "(flows=a,b)" / "(flows=none)" / omitted for {1} as '
    'documented in `cylc workflow-state --help` ("Flow numbers are only '
    'printed for flow numbers > 1").',
    'For legacy (pre-8.3.0) list-of-messages outputs a trigger query matches '
    'messages (documented fallback in dbstatecheck).',
    'Patterns are only drawn from characters legal in task names / cycle '
    'points plus "*"; status selectors only from the final statuses the '
    'command accepts.',
]
MANIFEST = {'engine': 'P', 'technique': 'generated SQLite DBs vs in-memory filter'}

ALPHA = ['a', 'b', 'A', 'B', '_', '%', '-', '1', 'é', '?', '[', ']']
LETTERS = ['a', 'b', 'A', 'B', '1', 'é']
FINAL = ['succeeded', 'failed', 'expired', 'submit-failed']
ALL_STATUS = FINAL + ['waiting', 'running', 'submitted', 'preparing']
INT_CYCLES = ['1', '2', '10', '11', '100', '21']
DT_CYCLES = ['20200101T0000Z', '20200101T0600Z', '20200102T0000Z',
             '20210101T0000Z', '20200111T0000Z']
MESSAGES = {'x': 'the quick brown', 'y': 'Data ready', 'X': 'other',
            'out_1': 'x'}
# (two-digit flow numbers whose text contains a smaller flow number)
FLOWSETS = [[1], [1], [1], [2], [1, 2], [], [3], [10], [12], [21], [3, 13]]


# ---------------------------------------------------------------- generator
@st.composite
def names(draw):
    """A family of confusable task names."""
    base = draw(st.lists(st.sampled_from(LETTERS), min_size=1, max_size=3))
    tail = draw(st.lists(st.sampled_from(LETTERS), min_size=0, max_size=2))
    out = []
    n = draw(st.integers(2, 6))
    for _ in range(n):
        kind = draw(st.integers(0, 6))
        sep = draw(st.sampled_from(['_', '%', '-', 'a', 'B', '', '__', 'ab']))
        b = list(base)
        t = list(tail)
        if kind == 0:
            b = [c.swapcase() for c in b]
        elif kind == 1:
            t = [c.swapcase() for c in t]
        elif kind == 2:
            t = t + [draw(st.sampled_from(ALPHA))]
        elif kind == 3 and len(b) > 1:
            b = b[:-1]
        name = ''.join(b) + sep + ''.join(t)
        if name[0] in '-%':   # names start with a word character
            name = 'a' + name
        out.append(name)
    # a few unrelated names
    for _ in range(draw(st.integers(0, 2))):
        nm = ''.join(draw(st.lists(st.sampled_from(ALPHA), min_size=1,
                                   max_size=4)))
        if nm[0] in '-%':
            nm = 'b' + nm
        out.append(nm)
    return sorted(set(out))


def _outputs(draw, status):
    outs = {}
    if status in ('submitted', 'running', 'succeeded', 'failed'):
        outs['submitted'] = 'submitted'
    if status in ('running', 'succeeded', 'failed'):
        outs['started'] = 'started'
    if status in ('succeeded', 'failed', 'expired', 'submit-failed'):
        outs[status] = status
    for trig in draw(st.lists(st.sampled_from(sorted(MESSAGES)), max_size=2,
                              unique=True)):
        outs[trig] = draw(st.sampled_from(
            [MESSAGES[trig], MESSAGES[trig], '(force-completed)']))
    return outs


@st.composite
def pattern_of(draw, pool, alphabet):
    """A pattern derived from one of the strings in `pool`."""
    s = list(draw(st.sampled_from(pool)))
    nops = draw(st.integers(0, 3))
    for _ in range(nops):
        op = draw(st.integers(0, 5))
        if not s:
            s = ['*']
            continue
        i = draw(st.integers(0, len(s) - 1))
        j = draw(st.integers(i, len(s)))
        if op <= 1:          # replace a slice by '*'
            s[i:j] = ['*']
        elif op == 2:        # insert '*'
            s.insert(i, '*')
        elif op == 3:        # swap case of a char
            s[i] = s[i].swapcase()
        elif op == 4:        # substitute a metacharacter / other char
            s[i] = draw(st.sampled_from(alphabet))
        else:                # append '*'
            s.append('*')
    return ''.join(s) or '*'


@st.composite
def cases(draw):
    dt = draw(st.integers(0, 3)) == 0
    cyc_pool = DT_CYCLES if dt else INT_CYCLES
    nms = draw(names())
    legacy = draw(st.integers(0, 7)) == 0
    rows = []
    seen = set()
    nrows = draw(st.integers(3, 10))
    for _ in range(nrows):
        n = draw(st.sampled_from(nms))
        c = draw(st.sampled_from(cyc_pool[:draw(st.integers(1, len(cyc_pool)))]))
        f = draw(st.sampled_from(FLOWSETS))
        key = (n, c, json.dumps(f))
        if key in seen:
            continue
        seen.add(key)
        status = draw(st.sampled_from(ALL_STATUS[:draw(st.integers(2, 8))]))
        outs = _outputs(draw, status)
        rows.append({
            'n': n, 'c': c, 'f': f, 's': status,
            'sn': draw(st.integers(1, 3)),
            'o': sorted(outs.values()) if legacy else outs,
        })
    queries = []
    for _ in range(draw(st.integers(1, 6))):
        q = {}
        tk = draw(st.integers(0, 9))
        q['task'] = (None if tk == 0 else draw(st.sampled_from(nms)) if tk == 1
                     else draw(pattern_of([r['n'] for r in rows], ALPHA)))
        ck = draw(st.integers(0, 9))
        q['cycle'] = (
            None if ck <= 2 else draw(st.sampled_from(cyc_pool)) if ck <= 5
            else '*' if ck == 6
            else draw(pattern_of([r['c'] for r in rows],
                                 ['0', '1', '2', 't', 'z', 'T', 'Z', '?', '[',
                                  ']', '_', '%'])))
        mode = draw(st.sampled_from(['s', 's', 's', 't', 't', 'm']))
        q['mode'] = mode
        if mode == 's':
            q['sel'] = draw(st.sampled_from([None] + FINAL[:2] + FINAL))
        elif mode == 't':
            q['sel'] = draw(st.sampled_from(
                [None, 'succeeded', 'failed', 'finished', 'finished',
                 'started', 'submitted', 'x', 'y', 'X', 'out_1', 'Y',
                 'expired']))
        else:
            q['sel'] = draw(st.sampled_from(
                [None, 'succeeded', 'the quick brown', 'Data ready',
                 'data ready', 'x', '(force-completed)', 'other',
                 'started']))
        q['flow'] = draw(st.sampled_from([None, None, None, 1, 2, 3, 4]))
        q['via'] = draw(st.sampled_from(
            ['direct', 'direct', 'direct', 'poller', 'xtrig']))
        queries.append(q)
    return {'dt': dt, 'rows': rows, 'queries': queries}


# ------------------------------------------------------------------- oracle
def glob_rx(pat, meta=False, nocase=False):
    """Translate a pattern to a regex.

    meta/nocase = False: the documented semantics ('*' only).
    meta: additionally SQL LIKE metacharacters ('_' one char, '%' any).
    nocase: ASCII case-insensitive (SQLite LIKE default).
    """
    out = []
    for ch in pat:
        if ch == '*' or (meta and ch == '%'):
            out.append('.*')
        elif meta and ch == '_':
            out.append('.')
        elif nocase and ch.isascii() and ch.isalpha():
            out.append('[' + ch.lower() + ch.upper() + ']')
        else:
            out.append(re.escape(ch))
    return re.compile(''.join(out), re.S)


def _match(pat, s, meta, nocase):
    if pat is None or pat == '':
        return True
    if '*' not in pat:
        return pat == s       # plain equality in every model
    return glob_rx(pat, meta, nocase).fullmatch(s) is not None


def flow_repr(flows):
    if flows == [1]:
        return ''
    return '(flows=%s)' % (','.join(str(i) for i in sorted(flows)) or 'none')


def expected(rows, q, meta=False, nocase=False):
    res = []
    for r in rows:
        if not _match(q['task'], r['n'], meta, nocase):
            continue
        if not _match(q['cycle'], r['c'], meta, nocase):
            continue
        if q['flow'] is not None and q['flow'] not in r['f']:
            continue
        sel = q['sel']
        if q['mode'] == 's':
            if sel is not None and r['s'] != sel:
                continue
            third = r['s']
        else:
            outs = r['o']
            if q['mode'] == 'm':
                msgs = list(outs.values()) if isinstance(outs, dict) else outs
                if sel is not None and sel not in msgs:
                    continue
            else:
                # trigger names = dict keys (legacy list: the messages)
                labels = list(outs)
                if sel is not None and not (
                    sel in labels or (
                        sel == 'finished'
                        and ('succeeded' in labels or 'failed' in labels))
                ):
                    continue
            third = str(outs)
        row = [r['n'], r['c'], third]
        fr = flow_repr(r['f'])
        if fr:
            row.append(fr)
        res.append(row)
    return sorted(res)


_template = {}


def build_db(case, path, scratch):
    from cylc.flow.rundb import CylcWorkflowDAO
    # the (empty) real schema is created once per process and copied
    tpl = _template.get(scratch)
    if tpl is None:
        tpl = os.path.join(scratch, 'c40-template.db')
        if os.path.exists(tpl):
            os.unlink(tpl)
        CylcWorkflowDAO(tpl, create_tables=True).close()
        _template[scratch] = tpl
    shutil.copyfile(tpl, path)
    dao = CylcWorkflowDAO(path)
    dao.connect().execute('PRAGMA synchronous=OFF')   # harness speed only
    try:
        if case['dt']:
            dao.add_insert_item(
                CylcWorkflowDAO.TABLE_WORKFLOW_PARAMS,
                {'key': 'cycle_point_format', 'value': 'CCYYMMDDThhmmZ'})
        dao.add_insert_item(
            CylcWorkflowDAO.TABLE_WORKFLOW_PARAMS,
            {'key': 'UTC_mode', 'value': '1'})
        for r in case['rows']:
            flows = json.dumps(sorted(r['f']))
            dao.add_insert_item(CylcWorkflowDAO.TABLE_TASK_STATES, {
                'name': r['n'], 'cycle': r['c'], 'flow_nums': flows,
                'time_created': '2020-01-01T00:00:00Z',
                'time_updated': '2020-01-01T00:00:00Z',
                'submit_num': r['sn'], 'status': r['s'], 'flow_wait': 0,
                'is_manual_submit': 0})
            dao.add_insert_item(CylcWorkflowDAO.TABLE_TASK_OUTPUTS, {
                'cycle': r['c'], 'name': r['n'], 'flow_nums': flows,
                'outputs': json.dumps(r['o'])})
        dao.execute_queued_items()
    finally:
        dao.close()


_n = itertools.count()


def _id_of(q):
    cyc = q['cycle'] or '*'
    id_ = f'w//{cyc}'
    if q['task']:
        id_ += f'/{q["task"]}'
    if q['sel'] is not None:
        id_ += f':{q["sel"]}'
    return id_


def run_query(q, rund, dbpath):
    """-> ('rows', sorted rows) | ('bool', satisfied)"""
    import asyncio
    from cylc.flow.dbstatecheck import CylcWorkflowDBChecker
    via = q['via']
    if via == 'direct':
        with CylcWorkflowDBChecker('unused', 'unused', db_path=dbpath) as chk:
            got = chk.workflow_state_query(
                q['task'], q['cycle'], q['sel'],
                is_trigger=q['mode'] == 't', is_message=q['mode'] == 'm',
                flow_num=q['flow'])
        return 'rows', sorted(list(r) for r in got)
    sink = io.StringIO()
    if via == 'poller':
        from cylc.flow.scripts.workflow_state import WorkflowPoller
        p = WorkflowPoller(
            _id_of(q), None, q['flow'], rund, None,
            q['mode'] == 't', q['mode'] == 'm',
            condition='c40', max_polls=1, interval=0, args=None)
        with contextlib.redirect_stdout(sink), contextlib.redirect_stderr(sink):
            asyncio.run(p.poll())
        if p._db_checker is not None:
            p._db_checker.conn.close()
        return 'rows', sorted(list(r) for r in (p.result or []))
    from cylc.flow.xtriggers.workflow_state import workflow_state
    with contextlib.redirect_stdout(sink), contextlib.redirect_stderr(sink):
        ok, _res = workflow_state(
            _id_of(q), flow_num=q['flow'], is_trigger=q['mode'] == 't',
            is_message=q['mode'] == 'm', alt_cylc_run_dir=rund)
    return 'bool', bool(ok)


def check_case(case, ctx: Ctx) -> CaseResult:
    import logging
    from cylc.flow import LOG
    rows, queries = case['rows'], case['queries']
    rund = os.path.join(ctx.scratch, 'c40', f'r{next(_n)}')
    logdir = os.path.join(rund, 'w', 'log')
    os.makedirs(logdir, exist_ok=True)
    dbpath = os.path.join(logdir, 'db')
    viol = []
    classes = set()
    nontrivial = False
    old_level = LOG.level
    LOG.setLevel(logging.CRITICAL)
    try:
        build_db(case, dbpath, ctx.scratch)
        for q in queries:
            q = dict(q)
            if q['via'] == 'xtrig' and q['sel'] is None:
                q['sel'] = 'succeeded'   # the xtrigger's default selector
            if q['via'] != 'direct':
                if q['task'] and not q['cycle']:
                    q['cycle'] = '*'
                if (case['dt'] and q['cycle'] and '*' not in q['cycle']
                        and q['cycle'] not in DT_CYCLES):
                    # the command parses and reformats literal datetime
                    # points: only exact DB-format points are in scope
                    q['cycle'] = '*'
            exp = expected(rows, q)
            classes.add('via-' + q['via'])
            classes.add('mode-' + q['mode'])
            star = any('*' in (q[k] or '') for k in ('task', 'cycle'))
            if star:
                classes.add('pattern-star')
                if any(ch in (q['task'] or '') for ch in '_%'):
                    classes.add('pattern-star+sql-meta')
            if q['flow'] is not None:
                classes.add('flow-filter')
            if exp:
                classes.add('expect-nonempty')
            if 0 < len(exp) < len(rows) and (star or q['flow'] is not None):
                nontrivial = True
                classes.add('nontrivial-query')
            try:
                kind, got = run_query(q, rund, dbpath)
            except Exception as exc:   # valid query on a valid DB
                viol.append(Violation(
                    'C40:query-raised:' + exc_sig(exc),
                    f'{q} raised {exc!r}'))
                continue
            models = {
                (m, c): expected(rows, q, m, c)
                for m in (False, True) for c in (False, True)}
            if kind == 'bool':
                def conv(x):
                    return bool(x)
            else:
                def conv(x):
                    return x
            if any(conv(v) != conv(exp) for v in models.values()):
                classes.add('glob-vs-sql-like-differ')
            if got == conv(exp):
                continue
            where = 'xtrigger' if kind == 'bool' else 'query'
            detail = (
                f'{q} on rows '
                f'{[(r["n"], r["c"], r["f"], r["s"]) for r in rows]}: '
                f'got {got}, expected {conv(exp)}')
            if got == conv(models[(True, False)]):
                sigs = ['C40:sql-like-metachars-in-pattern']
            elif got == conv(models[(False, True)]):
                sigs = ['C40:sql-like-case-insensitive']
            elif got == conv(models[(True, True)]):
                sigs = ['C40:sql-like-metachars-in-pattern',
                        'C40:sql-like-case-insensitive']
            else:
                sigs = [f'C40:{where}-result-differs']
            for s in sigs:
                viol.append(Violation(s, detail))
    finally:
        LOG.setLevel(old_level)
        shutil.rmtree(rund, ignore_errors=True)
    return CaseResult(viol, nontrivial=nontrivial, classes=sorted(classes))


def run_shard(ctx: Ctx):
    hyp_run(ctx, cases(), check_case, ctx.share(BUDGET[ctx.tier]))
