"""C39 Workflow names cannot escape the cylc-run directory.

Oracle: whenever validate_workflow_name(name[, check_reserved_names]) returns,
normpath(join(root, name)) lies strictly under root (for a fixed root and for
cylc's own get_workflow_run_dir / get_cylc_run_dir), and with the flag no
path component of the resolved relative path is a reserved name or run<N>.
"""
from __future__ import annotations

import os
import re

from hypothesis import strategies as st

from vf.core import CaseResult, Ctx, Violation, hyp_run, exc_sig

PROP_ID = 'C39'
LEVEL = 'exploration'
BUDGET = {'quick': 12000, 'thorough': 480000}
RULE = (
    'Hypothesis draws a name either (50%) as 1-7 path components joined by '
    '"/" -- components from: plain words, unicode words, ".", "..", "", the '
    'reserved names (log share work runN .service _cylc-install flow.cylc '
    'suite.rc), run<digits> (ASCII and unicode digits), near-misses (run1x, '
    'Log, log.), words with + - @ . inside, "~", " " -- with optional '
    'leading "/", trailing "/" or trailing newline, or (30%) as a "walk" '
    '(valid first word then words / ".." / "." / "" so that acceptance '
    'is decided by normalisation), or (20%) as free text '
    'over [A-Za-z0-9_ . / ~ - + @ space newline tab \\0 e-acute u-umlaut '
    'fullwidth-4 $ \\\\], length <= 260 (long names by repetition); each is '
    'validated with and without check_reserved_names. Non-trivial = the name '
    'PASSES validation (only then does the property say anything) and has at '
    'least two components or a "."/".." component; distinct by the name.')
ASSUMPTIONS = [
    '"Resolves to" = os.path.normpath(join(cylc-run, name)), which is what '
    'cylc uses (pathutil.expand_path); symlinks on disk are not considered.',
    'Reserved names are WorkflowFiles.RESERVED_NAMES as literally listed in '
    'the source plus run<ASCII digits>; compared exactly against the '
    'components of the normalised name.',
    'Names that validation rejects (WorkflowFilesError) are out of scope; any '
    'other exception type from validation is reported separately.',
    'Sensitivity (tools/mut.sh, quick): detected: startswith(os.curdir) test '
    'dropped, isabs test dropped, normpath dropped (validate before '
    'normalising), reserved names compared with the whole name instead of '
    'its parts, run<N> pattern dropped.',
]
MANIFEST = {'engine': 'P', 'technique': 'Hypothesis containment oracle on normpath'}

ROOT = '/R/home/cylc-run'
RESERVED = ['log', 'share', 'work', 'runN', '.service', '_cylc-install',
            'flow.cylc', 'suite.rc']

_WORD = st.text(alphabet='abcXYZ_019', min_size=1, max_size=5)
_UWORD = st.text(alphabet='aZ_1éü４日', min_size=1, max_size=4)
_PWORD = st.text(alphabet='ab1_+-@.', min_size=1, max_size=5)
_RUNNUM = st.one_of(
    st.integers(0, 9999).map(lambda i: f'run{i}'),
    st.sampled_from(['run１', 'run٣', 'run01', 'run', 'run1x', 'xrun1', 'Run1',
                     'run1.', 'run-1', 'run+1', 'run_1']))
_COMPONENT = st.one_of(
    _WORD, _WORD, _WORD, _UWORD, _PWORD,
    st.sampled_from(['.', '..', '..', '..', '', '...', '~', ' ', '.a', 'a.',
                     '-a', '1a', '..a', 'a..']),
    st.sampled_from(RESERVED),
    st.sampled_from(['Log', 'log.', 'log1', 'xlog', '.services', 'flow.cylc.x',
                     'share1', 'WORK']),
    _RUNNUM,
)
_WALK = st.one_of(
    _WORD, _WORD, _WORD, st.just('..'), st.just('..'), st.just('..'),
    st.sampled_from(['.', '', 'log', 'run1', '...', 'a.b', '_cylc-install']))
_FREE_ALPHA = 'abzAZ019_./~-+@ \n\t\x00éü４$\\'


@st.composite
def names(draw):
    mode = draw(st.integers(0, 9))
    if mode >= 7:
        # walk: regex-valid first word, then words / .. / . / empty, so that
        # acceptance is decided by the normalisation, not by the characters
        comps = [draw(_WORD)] + draw(st.lists(_WALK, min_size=1, max_size=9))
        name = '/'.join(comps)
    elif mode <= 4:
        comps = draw(st.lists(_COMPONENT, min_size=1, max_size=7))
        name = '/'.join(comps)
        extra = draw(st.integers(0, 11))
        if extra == 0:
            name = '/' + name
        elif extra == 1:
            name = name + '/'
        elif extra == 2:
            name = name + '\n'
        elif extra == 3:
            name = '//' + name
    elif mode == 5:
        name = draw(st.text(alphabet=_FREE_ALPHA, min_size=0, max_size=12))
    else:
        # long names around the 254 limit
        unit = draw(st.sampled_from(['a', 'ab/', 'x/../', 'é', './a', 'a/']))
        n = draw(st.integers(240, 262))
        name = (unit * 300)[:n]
        if draw(st.booleans()):
            name = name + draw(st.sampled_from(['/..', '/../..', '/log', 'b']))
    return {'name': name}


def _under(root, path):
    return path != root and path.startswith(root.rstrip('/') + '/')


def check_case(case, ctx: Ctx) -> CaseResult:
    from cylc.flow.workflow_files import validate_workflow_name
    from cylc.flow.exceptions import WorkflowFilesError
    from cylc.flow.pathutil import get_workflow_run_dir, get_cylc_run_dir
    name = case['name']
    viol = []
    classes = []
    comps = name.split('/')
    if '..' in comps:
        classes.append('has-dotdot')
    if '.' in comps or '' in comps[1:-1]:
        classes.append('has-dot-or-empty-component')
    if name.startswith('/'):
        classes.append('leading-slash')
    if any(c in RESERVED or re.fullmatch(r'run[0-9]+', c) for c in comps):
        classes.append('has-reserved-component')
    if re.search(r'[^\x00-\x7f]', name):
        classes.append('non-ascii')
    if len(name) > 200:
        classes.append('long')

    accepted = {}
    for flag in (False, True):
        try:
            ret = validate_workflow_name(name, check_reserved_names=flag)
        except WorkflowFilesError:
            accepted[flag] = False
            continue
        except Exception as exc:
            accepted[flag] = False
            classes.append('other-exception')
            viol.append(Violation(
                'C39:unexpected-exception:' + exc_sig(exc),
                f'validate_workflow_name({name!r}, {flag}) raised {exc!r} '
                '(docstring: raises WorkflowFilesError if not valid)'))
            continue
        accepted[flag] = True
        if ret is not None:
            viol.append(Violation(
                'C39:return-value', f'returned {ret!r} for {name!r}'))
        # --- containment
        resolved = os.path.normpath(os.path.join(ROOT, name))
        if not _under(ROOT, resolved):
            viol.append(Violation(
                'C39:escapes-cylc-run',
                f'validate_workflow_name({name!r}, check_reserved_names='
                f'{flag}) passed but join({ROOT!r}, name) resolves to '
                f'{resolved!r}'))
        else:
            real_root = get_cylc_run_dir()
            real = os.path.normpath(get_workflow_run_dir(name))
            if not _under(real_root, real):
                viol.append(Violation(
                    'C39:escapes-cylc-run',
                    f'{name!r} passed but get_workflow_run_dir gives {real!r} '
                    f'(cylc-run = {real_root!r})'))
        # --- reserved names
        if flag and _under(ROOT, resolved):
            rel = resolved[len(ROOT) + 1:]
            for comp in rel.split('/'):
                if comp in RESERVED or re.fullmatch(r'run[0-9]+', comp):
                    viol.append(Violation(
                        'C39:reserved-name-accepted',
                        f'validate_workflow_name({name!r}, True) passed but '
                        f'resolved path {rel!r} contains reserved {comp!r}'))
                    break
    if accepted.get(True) and not accepted.get(False):
        viol.append(Violation(
            'C39:flag-monotonic',
            f'{name!r} passes with check_reserved_names but not without'))
    if accepted[False]:
        classes.append('accepted')
        if 'has-dotdot' in classes:
            classes.append('accepted-with-dotdot')
        if accepted[True]:
            classes.append('accepted-with-reserved-check')
        elif 'has-reserved-component' in classes:
            classes.append('rejected-only-by-reserved-check')
    else:
        classes.append('rejected')
    nontrivial = accepted[False] and (
        len(comps) >= 2 or 'has-dotdot' in classes)
    return CaseResult(viol, nontrivial=nontrivial, classes=classes,
                      distinct_key=name)


def run_shard(ctx: Ctx):
    hyp_run(ctx, names(), check_case, ctx.share(BUDGET[ctx.tier]))
    if ctx.tier == 'thorough' and ctx.shard == 0:
        # second driver (same oracle); never decides the property by itself
        from vf.gen import idname_atheris
        idname_atheris.run(ctx, PROP_ID)
