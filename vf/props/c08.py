"""C08 Flow numbers propagate, merge and are never reused."""
from __future__ import annotations

from hypothesis import strategies as st

from vf.core import CaseResult, Ctx, Violation, exc_sig, hyp_run
from vf.gen.wfspec import wfspecs
from vf.sim.c08_util import (
    FINAL, FlowMonitor, basic_steps, children_of, db_flow_numbers,
    flow_commands, output_name, run_step, settle_steps)
from vf.sim.drive import SCase, outcome_maps, run_async

PROP_ID = 'C08'
LEVEL = 'exploration'
BUDGET = {'quick': 360, 'thorough': 9000}
MANIFEST = {
    'engine': 'S',
    'technique': 'stateful PBT on the stepped scheduler: monitors on '
                 'spawn_on_output / spawn_task / merge_flows / remove / '
                 'FlowMgr.get_flow, flow-command histories with restarts, '
                 'oracle over the trace from the harness graph model',
}
RULE = (
    'Generated workflow (AND/OR joins, inter-cycle offsets, optional and '
    'custom outputs, runahead P0-P3; no absolute/future triggers) + outcomes '
    'and a history of <= 45 steps over loop / return / advance / deliver / '
    'settle (k fair rounds) plus `trigger` and `set` (outputs or --pre=all) '
    'of pooled, finished or not-yet-spawned instances with --flow=new | none '
    '| N | N,M | default and --wait, and real stop/restart steps (stop --now '
    'or clean, jobs optionally carrying on while down; one main-loop '
    'iteration follows every restart before the next command); half of the '
    'cases end with "settle, restart, trigger --flow=new", a quarter with '
    '"settle, trigger X --flow=new, settle, trigger X --flow=1, settle" for '
    'one model instance X; then a fair '
    'drain.  '
    'Oracle (trace only, expectations from the harness AST): (a) after every '
    'spawn_on_output call of a parent with flows P (not flow-waiting): each '
    'model child of that output that is in the pool afterwards has flows '
    'superset of P if it was new, and exactly old|P if it was already pooled; '
    '(b) no job launch of an instance whose flows at launch are all flows in '
    'which it had already finished complete (removed from the pool in a '
    'final state with complete outputs) since the last trigger/set/remove '
    'command naming it; (c) every number returned for a *new* flow is in no '
    'task proxy, launch, spawn, merge, earlier allocation, --flow=N request '
    'or workflow_flows row seen earlier in this run directory\'s history '
    '(all incarnations).  Non-trivial = at least two flow numbers were in '
    'the pool at once and (a merge changed some proxy\'s flows or a restart '
    'happened); distinct by the case.')
ASSUMPTIONS = [
    'Reading of "not re-run when that flow reaches it again": a launch is a '
    'violation only if EVERY flow of the launched proxy is one in which the '
    'instance had already finished complete; a proxy that also belongs to a '
    'flow in which it has not run (e.g. a waiting proxy of flow 2 absorbed '
    'flow 1 by a merge) may run (counted as class '
    'rerun-with-an-unfinished-flow).',
    'A trigger / set / remove command naming the instance resets its '
    '"finished in" record (those commands are documented to allow or cause a '
    're-run).',
    'Reading of "never used before": the new number must differ from every '
    'number seen before (not necessarily exceed them): `--flow=5` followed by '
    '`--flow=new` -> 2 is accepted.',
    'Children reached through absolute triggers are outside the generated '
    'domain (only the first child of an absolute output is merged by design; '
    'the statement does not say which instances count as its children).',
    'Parentless successors (next-cycle instance of a parentless task) are '
    'not graph children; no flow claim is checked for them.',
    'A flow-waiting parent (--wait) spawns no children until merged; nothing '
    'is demanded of its spawn_on_output calls.',
]


# default / --flow=1 re-runs of finished upstream tasks make the same flow
# reach finished instances again; new / N / N,M make flows meet
C08_FLOWS = [[], [], [], ['new'], ['new'], ['new'], ['none'], ['1'], ['1'],
             ['2'], ['3'], ['1', '2'], ['2', '3']]


@st.composite
def cases(draw):
    spec = draw(wfspecs({'max_tasks': 5, 'max_fcp': 5, 'abs': False,
                         'future': False}))
    if draw(st.integers(0, 2)):
        spec['extra']['runahead'] = 'P%d' % draw(st.integers(0, 3))
    outcomes = draw(outcome_maps(spec))
    step = st.one_of(
        basic_steps(), basic_steps(), basic_steps(), settle_steps(1, 4),
        flow_commands(flows=C08_FLOWS), flow_commands(flows=C08_FLOWS),
        st.integers(0, 5).map(lambda n: ['restart', n]))
    sched = [['settle', draw(st.integers(0, 5))]]
    sched += draw(st.lists(step, max_size=36))
    if draw(st.booleans()):
        # let side flows die out, restart, start another new flow
        sched += [['settle', draw(st.integers(2, 8))],
                  ['restart', draw(st.integers(0, 5))],
                  ['trigger', draw(st.integers(0, 23)), ['new'], False],
                  ['settle', draw(st.integers(1, 4))]]
    elif draw(st.booleans()):
        # a finished instance is re-run in a new (unmerged) flow, then its
        # original flow is sent through the same place again
        x = 2 * draw(st.integers(0, 11)) + 1      # odd: a model instance
        sched += [['settle', draw(st.integers(2, 8))],
                  ['trigger', x, ['new'], False],
                  ['settle', draw(st.integers(2, 8))],
                  ['trigger', x, ['1'], False],
                  ['settle', draw(st.integers(2, 8))]]
    return {'spec': spec, 'outcomes': outcomes, 'schedule': sched}


def check_case(case, ctx: Ctx) -> CaseResult:
    return run_async(_check(case, ctx))


def _ids(flows_by_id):
    out = set()
    for fl in flows_by_id.values():
        out.update(fl)
    return out


def flows_in(ev) -> set:
    """Every flow number an event shows as in use."""
    k = ev['k']
    out = set()
    if k in ('add', 'state', 'x-remove'):
        out.update(ev.get('flows') or ())
    elif k == 'launch':
        out.update(ev.get('flows') or ())
    elif k == 'x-soo':
        out.update(ev['pflows'])
        out |= _ids(ev['before']) | _ids(ev['after'])
        for s in ev['spawns']:
            out.update(s['arg'])
            out.update(s['res'] or ())
        for m in ev['merges']:
            out.update(m['before'] + m['arg'] + m['after'])
    elif k == 'x-spawn':
        out.update(ev['arg'])
        out.update(ev['res'] or ())
    elif k == 'x-merge':
        out.update(ev['before'] + ev['arg'] + ev['after'])
    elif k == 'x-flow':
        out.add(ev['res'])
        out.update(ev['known'])
    elif k == 'x-dbflows':
        out.update(ev['nums'])
    elif k in ('cmd',):
        for t in ev['before'] + ev['after']:
            out.update(t['flows'])
    elif k in ('restarted', 'shutdown', 'set-stop', 'stalled'):
        for t in ev.get('pool') or ():
            out.update(t['flows'])
    return out


async def _check(case, ctx: Ctx) -> CaseResult:
    spec = case['spec']
    async with SCase(case, ctx) as sc:
        if sc.rejected:
            return CaseResult(sc.crash_violations('C08'), False,
                              ['rejected:' + sc.rejected])
        sim, to_int, to_str, model = (
            sc.sim, sc.drv.to_int, sc.drv.to_str, sc.model)
        mon = FlowMonitor(sc)
        stats = {'max_alive': 0}

        def sample(_drv, *_a):
            if sim.schd is not None and hasattr(sim.schd, 'pool'):
                alive = set()
                for fl in mon.pool_flows().values():
                    alive.update(fl)
                stats['max_alive'] = max(stats['max_alive'], len(alive))

        sc.drv.after_loop.append(sample)
        sc.drv.after_cmd.append(sample)

        cmd_crash = None
        for step in case['schedule']:
            if not sim.running:
                break
            if step[0] in ('trigger', 'set') and sim.schd is not None:
                sim.ev('x-dbflows', nums=db_flow_numbers(
                    sim.schd.workflow_db_mgr.pri_path))
            try:
                await run_step(sc, step)
            except Exception as exc:
                sig = exc_sig(exc)
                if sig.endswith('@?') or isinstance(exc, AssertionError):
                    raise               # not raised inside cylc: harness
                cmd_crash = Violation(
                    'C08:command-crashed:' + sig,
                    f'step {step} raised {exc!r}')
                break
            if step[0] == 'restart' and sim.running:
                # a command is never processed before the first main-loop
                # iteration of an incarnation
                await sc.drv.loop()
        if cmd_crash is None:
            await sc.drain()

        viol = sc.crash_violations('C08')
        if cmd_crash is not None:
            viol.append(cmd_crash)
        classes = set()
        used = set()
        fin = {}                 # id -> flows it finished complete in
        n_restart = 0
        merged = False
        for ev in sim.trace:
            k = ev['k']
            if k == 'x-flow':
                if ev['req'] is None:
                    n = ev['res']
                    if used:
                        classes.add('flow-new')
                        if n_restart:
                            classes.add('new-flow-after-restart')
                    if n in used:
                        viol.append(Violation(
                            'C08:new-flow-number-reused',
                            f'--flow=new was given number {n} at iteration '
                            f'{ev["it"]} (incarnation {ev["inc"]}) but '
                            f'{sorted(used)} had all been used before in '
                            f'this workflow\'s history (FlowMgr knew '
                            f'{ev["known"]}, counter now {ev["counter"]})'))
                else:
                    classes.add('flow-number-given')
                    if ev['req'] not in used:
                        classes.add('flow-number-given-unused')
            elif k == 'restarted':
                n_restart += 1
                classes.add('restart')
                alive = set()
                for t in ev['pool']:
                    alive.update(t['flows'])
                if used - alive - {None}:
                    classes.add('restart-after-a-flow-ended')
            elif k == 'x-remove':
                if ev['status'] in FINAL and ev['complete']:
                    fin.setdefault(
                        f'{ev["cycle"]}/{ev["name"]}', set()).update(
                            ev['flows'])
            elif k == 'cmd' and ev['cmd'] in ('trigger', 'set', 'remove'):
                fin.pop(ev.get('task'), None)
                fl = ev.get('flow') or []
                if fl == ['none']:
                    classes.add('flow-none')
                if ev.get('err'):
                    classes.add('command-rejected')
            elif k == 'launch' and ev.get('in_pool'):
                ident = f'{ev["cycle"]}/{ev["name"]}'
                fl = set(ev.get('flows') or ())
                g = fin.get(ident) or set()
                if fl and fl <= g:
                    viol.append(Violation(
                        'C08:finished-complete-instance-rerun-in-same-flow',
                        f'{ident} launched again (submit {ev["submit_num"]},'
                        f' flows {sorted(fl)}, iteration {ev["it"]}) although'
                        f' it had already finished with complete outputs in '
                        f'flows {sorted(g)} and no trigger/set/remove command'
                        f' named it since'))
                elif fl & g:
                    classes.add('rerun-with-an-unfinished-flow')
            elif k in ('x-soo', 'x-merge'):
                merges = ev['merges'] if k == 'x-soo' else [ev]
                for m in merges:
                    if set(m['after']) != set(m['before']):
                        merged = True
                        classes.add('merge-changed-flows')
                if k == 'x-soo':
                    _check_soo(ev, spec, model, to_int, to_str, fin, viol,
                               classes)
            used |= flows_in(ev)
        if any((s[0] == 'trigger' and len(s) > 3 and s[3])
               or (s[0] == 'set' and len(s) > 5 and s[5])
               for s in case['schedule']):
            classes.add('flow-wait-requested')
        if stats['max_alive'] >= 2:
            classes.add('two-flows-alive')
        if n_restart >= 2:
            classes.add('restart-twice')
        uniq = {}
        for v in viol:
            uniq.setdefault(v.sig, v)
        nontrivial = stats['max_alive'] >= 2 and (merged or n_restart > 0)
        return CaseResult(list(uniq.values()), nontrivial, sorted(classes),
                          inconclusive=sc.inconclusive,
                          info={'flow': sc.drv.flow_text,
                                'flow_numbers': sorted(
                                    x for x in used if x is not None)})


def _check_soo(ev, spec, model, to_int, to_str, fin, viol, classes):
    p = to_int.get(ev['cycle'])
    t = ev['name']
    pid = f'{ev["cycle"]}/{t}'
    pflows = set(ev['pflows'])
    # flow reached an instance that had finished in it: spawn refused
    for s in ev['spawns']:
        sid = f'{s["cycle"]}/{s["name"]}'
        if s['res'] is None and set(s['arg']) & (fin.get(sid) or set()):
            classes.add('flow-reached-finished-instance-again')
    if p is None or not pflows or ev['flow_wait']:
        if ev['flow_wait']:
            classes.add('flow-waiting-parent-output')
        return
    out = output_name(spec, t, ev['output'])
    for (c, q) in children_of(model, t, p, out):
        cid = f'{to_str[q]}/{c}'
        if cid == pid:
            continue
        after = ev['after'].get(cid)
        if after is None:
            continue
        before = ev['before'].get(cid)
        if before is None:
            classes.add('child-spawned')
            if len(pflows) >= 2:
                classes.add('child-spawned-by-multi-flow-parent')
            if not pflows <= set(after):
                viol.append(Violation(
                    'C08:spawned-child-lacks-parent-flows',
                    f'{cid} spawned by {pid}:{out} (flows {sorted(pflows)})'
                    f' at iteration {ev["it"]} has flows {after}'))
        else:
            if set(before) != pflows:
                classes.add('join-of-different-flows')
            if set(after) != set(before) | pflows:
                viol.append(Violation(
                    'C08:merged-child-flows-not-the-union',
                    f'{cid} (flows {before}) was reached by {pid}:{out} '
                    f'(flows {sorted(pflows)}) at iteration {ev["it"]}; '
                    f'afterwards its flows are {after}, expected '
                    f'{sorted(set(before) | pflows)}'))


def run_shard(ctx: Ctx):
    hyp_run(ctx, cases(), check_case, ctx.share(BUDGET[ctx.tier]))
