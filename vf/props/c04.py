"""C04 Runahead limit is respected and never deadlocks a completable run."""
from __future__ import annotations

from hypothesis import strategies as st

from vf.core import CaseResult, Ctx, Violation, hyp_run
from vf.gen.wfspec import atoms_of, rec_points, wfspecs
from vf.sim.drive import (
    SCase, heard_result_of, outcome_maps, run_async, schedules)

PROP_ID = 'C04'
LEVEL = 'exploration'
BUDGET = {'quick': 450, 'thorough': 12000}
MANIFEST = {
    'engine': 'S',
    'technique': 'PBT on the stepped scheduler: every runahead release '
                 'checked against a from-scratch model of the limit',
}
RULE = (
    'Generated workflow with 1-3 recurrences of different steps/offsets/'
    'exclusions, runahead limit P0-P4 (or a P<n>D duration in datetime '
    'mode), optional future triggers, optional stop-after point (also set '
    'mid-run by a stop --after-cycle-point command step), outcome delays via '
    'schedules and delayed delivery.  A monitor around '
    'TaskPool.release_runahead_tasks records every released task with the '
    'pool it was released from.  Oracle: for each released, not manually '
    'triggered task: point <= model limit, where base = earliest pooled '
    'point, candidates = union of the point sets of all graph sections >= '
    'base, Pn -> (n+1)-th earliest candidate, duration -> latest candidate '
    '<= base+duration, plus the largest future-trigger offset among pooled '
    'tasks, capped at the stop point in effect.  In all-complete runs the '
    'scheduler must still finish by itself with the full model closure.  '
    'Non-trivial = >=2 recurrences and the limit was binding at some '
    'release (a pooled task stayed runahead-limited); distinct by the case.')
ASSUMPTIONS = [
    'Absolute triggers are outside this profile (their contribution to the '
    'future-offset extension is not pinned down by the statement).',
    'The future-offset extension is modelled per pooled task as the largest '
    'positive offset among its triggers in any section (an upper bound of '
    'what the scheduler may apply), so the check never demands a tighter '
    'limit than the statement.',
    'The stop point in effect is read from the scheduler (it is an input: '
    'configuration or command).',
    'The reference run of the "finishes" clause counts a custom output only '
    'if its message was processed while the task was in the pool: a message '
    'that the schedule delivers after "succeeded" has completed and removed '
    'the task is undeliverable by design (class '
    'output-message-after-task-left-pool).',
]


@st.composite
def cases(draw):
    spec = draw(wfspecs({'max_tasks': 5, 'max_fcp': 6, 'abs': False,
                         'multi_sections': True, 'future_odds': 2}))
    n = draw(st.integers(0, 4))
    if spec['mode'] == 'datetime' and draw(st.booleans()):
        spec['extra']['runahead'] = f'P{n}D'
    else:
        spec['extra']['runahead'] = f'P{n}'
    if draw(st.integers(0, 3)) == 0:
        spec['extra']['stop_after'] = draw(
            st.integers(spec['icp'], spec['fcp']))
    outcomes = draw(outcome_maps(spec))
    sched = draw(st.lists(st.tuples(
        st.sampled_from(['loop', 'loop', 'ret', 'adv', 'del', 'del',
                         'stop-point']),
        st.integers(0, 7)).map(list), max_size=40))
    # at most one stop-point command
    seen = False
    out = []
    for s in sched:
        if s[0] == 'stop-point':
            if seen or draw(st.integers(0, 2)):
                continue
            seen = True
        out.append(s)
    delays = draw(st.lists(st.sampled_from([0, 0, 1, 2, 4, 8]),
                           min_size=1, max_size=8))
    return {'spec': spec, 'outcomes': outcomes, 'schedule': out,
            'delays': delays}


def check_case(case, ctx: Ctx) -> CaseResult:
    return run_async(_check(case, ctx))


def max_future(spec, t):
    best = 0
    for sec in spec['sections']:
        for ln in sec['lines']:
            if t in ln['rhs']:
                for a in atoms_of(ln['lhs']):
                    if (a.get('off') or 0) > 0:
                        best = max(best, a['off'])
    return best


def model_limit(spec, pool_pts, pooled_tasks, stop_pt):
    icp, fcp = spec['icp'], spec['fcp']
    base = min(pool_pts)
    cands = set()
    for sec in spec['sections']:
        cands.update(p for p in rec_points(sec['rec'], icp, fcp) if p >= base)
    cands = sorted(cands)
    ra = spec['extra']['runahead']
    n = int(ra.strip('PD'))
    if not cands:
        limit = base
    elif ra.endswith('D'):
        ok = [p for p in cands if p <= base + n]
        limit = max(ok) if ok else base
    else:
        limit = cands[:n + 1][-1]
    limit += max([max_future(spec, t) for t in pooled_tasks] or [0])
    if stop_pt is not None:
        limit = min(limit, stop_pt)
    return limit, base


async def _check(case, ctx: Ctx) -> CaseResult:
    spec, outcomes = case['spec'], case['outcomes']
    async with SCase(case, ctx) as sc:
        if sc.rejected:
            return CaseResult(sc.crash_violations('C04'), False,
                              ['rejected:' + sc.rejected])
        sim, to_int, model = sc.sim, sc.drv.to_int, sc.model
        await sc.run_schedule()
        await sc.drain()
        viol = sc.crash_violations('C04')
        classes = set()
        binding = False
        for ev in sim.trace:
            if ev['k'] != 'rh-release':
                continue
            pool_pts = [to_int[c] for (c, _n, _r, _m) in ev['pool']
                        if c in to_int]
            if not pool_pts:
                continue
            stop_pt = to_int.get(ev['stop'])
            limit, base = model_limit(
                spec, pool_pts, {n for (_c, n, _r, _m) in ev['pool']},
                stop_pt)
            released = {(c, n) for (c, n, _m) in ev['released']}
            for (c, n, manual) in ev['released']:
                p = to_int.get(c)
                if manual or p is None:
                    continue
                if p > limit:
                    viol.append(Violation(
                        'C04:released-beyond-runahead-limit',
                        f'{c}/{n} (point {p}) released from the runahead '
                        f'pool; model limit {limit} (base {base}, runahead '
                        f'{spec["extra"]["runahead"]}, stop {stop_pt}, '
                        f'scheduler limit {ev["limit"]}); pool points '
                        f'{sorted(set(pool_pts))}'))
            if any(r and (c, n) not in released
                   for (c, n, r, _m) in ev['pool']):
                binding = True
        if binding:
            classes.add('limit-binding')
        if len(spec['sections']) >= 2:
            classes.add('multi-recurrence')
        if any(e['k'] == 'cmd' and e['cmd'] == 'stop-point'
               for e in sim.trace):
            classes.add('stop-point-command')
        if spec['extra'].get('stop_after') is not None:
            classes.add('stop-point-config')
        if spec['extra']['runahead'].endswith('D'):
            classes.add('duration-limit')
        classes.add('runahead-' + spec['extra']['runahead'].rstrip('D'))
        # never deadlocks a completable run
        stop_in_effect = (
            spec['extra'].get('stop_after') is not None
            or 'stop-point-command' in classes)
        if not stop_in_effect and not sc.inconclusive:
            result_of, unheard = heard_result_of(
                sim, spec, outcomes, sc.drv.to_str)
            if unheard:
                classes.add('output-message-after-task-left-pool')
            ran, done, ambiguous = model.closure(result_of)
            all_complete = all(model.complete(t, done[i]) for i in ran
                               for t in [i[0]])
            waiters = [
                (t, p) for (t, p) in model.instances()
                if (t, p) not in ran and not model.prereq(t, p, done) and (
                    model.parentless(t, p) or any(
                        o in done.get((u, q), ())
                        for (u, q, o) in model.real_atoms(t, p)))]
            launched = {(n, to_int.get(c)) for (c, n, _s) in sim.journal}
            chain_defect = any(
                model.parentless(t, p) and any(
                    q < p and (t, q) not in launched
                    and not model.parentless(t, q) for q in model.valid[t])
                for (t, p) in ran - launched)
            if all_complete and not ambiguous and not waiters \
                    and not chain_defect:
                classes.add('completable')
                if not sc.shut:
                    viol.append(Violation(
                        'C04:completable-run-did-not-finish',
                        f'every task completes, yet the scheduler did not '
                        f'shut down by itself with runahead '
                        f'{spec["extra"]["runahead"]}; never launched: '
                        f'{sorted(ran - launched)}'))
                elif ran - launched:
                    viol.append(Violation(
                        'C04:completable-run-missing-instances',
                        f'shut down without running {sorted(ran - launched)}'))
        uniq = {}
        for v in viol:
            uniq.setdefault(v.sig, v)
        nontrivial = binding and len(spec['sections']) >= 2
        return CaseResult(list(uniq.values()), nontrivial, sorted(classes),
                          inconclusive=sc.inconclusive,
                          info={'flow': sc.drv.flow_text})


def run_shard(ctx: Ctx):
    hyp_run(ctx, cases(), check_case, ctx.share(BUDGET[ctx.tier]))
