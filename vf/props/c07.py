"""C07 Task instances stay within cycle bounds and on their sequences."""
from __future__ import annotations

from hypothesis import strategies as st

from vf.core import CaseResult, Ctx, Violation, hyp_run
from vf.gen.wfspec import wfspecs
from vf.sim.drive import SCase, outcome_maps, run_async

PROP_ID = 'C07'
LEVEL = 'exploration'
BUDGET = {'quick': 450, 'thorough': 12000}
MANIFEST = {
    'engine': 'S',
    'technique': 'PBT on the stepped scheduler: every add_to_pool and every '
                 'launch checked against the model point sets and stop point',
}
RULE = (
    'Generated workflow with 1-3 recurrences (different steps, offsets, '
    'exclusions, R1 forms), negative / future / absolute trigger offsets '
    '(so that children are computed beyond the final point and off '
    'sequence), optional stop-after point (config or command at a random '
    'step), manual triggers of arbitrary instances (also beyond the stop '
    'point), random outcomes and schedules.  Oracle: every task proxy added '
    'to the pool has ICP <= point <= FCP and lies on one of its task\'s model '
    'point sets; once a stop point is in effect (config, or from the '
    'iteration of an accepted stop command on) no instance beyond '
    'it enters job preparation unless that instance was manually triggered.  '
    'Non-trivial = a spawn attempt was refused at a boundary (monitor on '
    'can_be_spawned) or a stop point was in effect; distinct by the case.')
ASSUMPTIONS = [
    'Manually triggered = the proxy carries is_manual_submit at launch, or a '
    'trigger command named the instance earlier in the history.',
]


@st.composite
def cases(draw):
    spec = draw(wfspecs({'max_tasks': 5, 'max_fcp': 6, 'future_odds': 2}))
    if draw(st.integers(0, 2)) == 0:
        spec['extra']['stop_after'] = draw(
            st.integers(spec['icp'], spec['fcp']))
    if draw(st.booleans()):
        spec['extra']['runahead'] = 'P%d' % draw(st.integers(0, 4))
    outcomes = draw(outcome_maps(spec))
    sched = draw(st.lists(st.tuples(
        st.sampled_from(['loop', 'loop', 'loop', 'ret', 'adv', 'del', 'del',
                         'stop-point', 'trigger']),
        st.integers(0, 15)).map(list), max_size=50))
    return {'spec': spec, 'outcomes': outcomes, 'schedule': sched}


def check_case(case, ctx: Ctx) -> CaseResult:
    return run_async(_check(case, ctx))


async def _check(case, ctx: Ctx) -> CaseResult:
    spec = case['spec']
    async with SCase(case, ctx) as sc:
        if sc.rejected:
            return CaseResult(sc.crash_violations('C07'), False,
                              ['rejected:' + sc.rejected])
        sim, to_int, model = sc.sim, sc.drv.to_int, sc.model
        await sc.run_schedule()
        await sc.drain()
        viol = sc.crash_violations('C07')
        classes = set()
        stop_pt = spec['extra'].get('stop_after')
        if stop_pt is not None:
            classes.add('stop-point-config')
        triggered = set()
        for ev in sim.trace:
            k = ev['k']
            if k == 'add':
                p = to_int.get(ev['cycle'])
                ident = f'{ev["cycle"]}/{ev["name"]}'
                if p is None or p < spec['icp'] or p > spec['fcp']:
                    viol.append(Violation(
                        'C07:added-outside-cycle-bounds',
                        f'{ident} added to the pool; bounds '
                        f'[{spec["icp"]}, {spec["fcp"]}] (point {p})'))
                elif not model.is_valid(ev['name'], p):
                    viol.append(Violation(
                        'C07:added-off-sequence',
                        f'{ident} added to the pool but point {p} is on '
                        f'none of its recurrences '
                        f'{sorted(model.valid[ev["name"]])}'))
            elif k == 'spawn-refused':
                classes.add('spawn-refused')
            elif k == 'cmd' and ev['cmd'] == 'stop-point' and not ev['err']:
                # accepted iff the scheduler's stop point moved to it
                classes.add('stop-point-command')
                stop_pt = ev['point'] if ev.get('accepted') else stop_pt
            elif k == 'cmd' and ev['cmd'] == 'trigger' and not ev['err']:
                triggered.add(ev['task'])
                classes.add('manual-trigger')
            elif k == 'state' and ev['after'][0] == 'preparing' and \
                    ev['before'][0] != 'preparing':
                # entering job preparation = being submitted (tasks already
                # preparing when a stop point is set are in the pipeline)
                p = to_int.get(ev['cycle'])
                ident = f'{ev["cycle"]}/{ev["name"]}'
                if (stop_pt is not None and p is not None and p > stop_pt
                        and not ev.get('manual') and ident not in triggered):
                    viol.append(Violation(
                        'C07:submitted-beyond-stop-point',
                        f'{ident} (point {p}) entered job preparation at '
                        f'iteration {ev["it"]} although the stop point '
                        f'{stop_pt} is in effect and it was not manually '
                        f'triggered'))
        uniq = {}
        for v in viol:
            uniq.setdefault(v.sig, v)
        nontrivial = bool(classes & {
            'spawn-refused', 'stop-point-config', 'stop-point-command'})
        return CaseResult(list(uniq.values()), nontrivial, sorted(classes),
                          inconclusive=sc.inconclusive,
                          info={'flow': sc.drv.flow_text})


def run_shard(ctx: Ctx):
    hyp_run(ctx, cases(), check_case, ctx.share(BUDGET[ctx.tier]))
