"""C11 (pure half) Completion: TaskOutputs.is_complete() agrees with the
documented completion rule / the user completion expression.

Real path: flow.cylc text -> WorkflowConfig (graph parser sets output
optionality, config derives/validates the completion expression) ->
TaskDef -> TaskOutputs(tdef) -> set_message_complete(...) -> is_complete().

Oracle: `vf.gen.cexpr.DefaultRule` (a case analysis on *sets*, written from
the statement and the docstring of get_completion_expression; it never
builds or parses an expression) or, for a user expression, the harness's own
evaluation of the expression *tree* the text was rendered from.

The scheduler-level half (pool membership after a task finishes) lives in a
separate module; nothing here needs a scheduler.
"""
from __future__ import annotations

import keyword
from itertools import product

from hypothesis import strategies as st

from vf.core import CaseResult, Ctx, Violation, hyp_run, exc_sig
from vf.gen import cexpr
from vf.gen.cexpr import STD_OUTPUTS, compvar

PROP_ID = 'C11'
LEVEL = 'exploration'
# budget of the Hypothesis part (user expressions / odd names); the
# exhaustive default-rule part is not budgeted
BUDGET = {'quick': 1200, 'thorough': 40000}
S_BUDGET = {'quick': 240, 'thorough': 6000}
# (part A alone is exhaustive over its stated bound: see the evidence key
# part_A_exhaustive; parts B and C are sampled)
EXHAUSTIVE = {'quick': False, 'thorough': False}
MANIFEST = {
    'engine': 'P',
    'technique': 'exhaustive enumeration of bounded task definitions x all '
                 'subsets of completed outputs + Hypothesis for user '
                 'completion expressions + PBT on the stepped scheduler for '
                 'pool retention',
}
RULE = (
    'Part A (exhaustive, not budgeted): every task definition with '
    'succeeded/failed/submitted/started in {required, optional, unused}, '
    'submit-failed/expired in {optional, unused} (the combinations the graph '
    'parser admits: 180) x 0..K custom outputs each in {required, optional, '
    'defined-but-unused} (K=2 quick, K=3 thorough) x 2 naming schemes (plain '
    'names; hyphen/underscore names with punctuated messages), no user '
    'completion expression; each loaded through a real WorkflowConfig and '
    'is_complete() compared with the documented default rule on ALL 2^(6+k) '
    'subsets of completed outputs. Part B (Hypothesis, budgeted): 0-3 custom '
    'outputs, random user completion expression tree (<= 7 leaves, and/or, 3 '
    'renderings) over all outputs with a graph declaration mostly chosen '
    'consistent with it, or no expression with odd output names (names '
    'differing only by -/_; names that are not Python identifiers); all '
    'subsets again. evaluations = task definitions; subset_evaluations in '
    'the evidence = is_complete() calls compared. Non-trivial: default rule: '
    '>=1 optional declared output and >=1 required declared output other '
    'than implicit success; user expression: mixes and/or. Distinct by the '
    'definition.  ' + __import__('vf.props.c11_s', fromlist=['S_RULE']).S_RULE)
ASSUMPTIONS = [
    'Default rule asserted: tolerated outcome present (failed when succeeded '
    'or failed is optional; submit-failed when submitted or submit-failed is '
    'optional, per the docstring "if submission is optional"; expired when '
    'optional) => complete; else a missing required output => incomplete; '
    'else succeeded/failed present => complete; else (only un-tolerated '
    'submit-failed/expired) => incomplete.',
    'Subsets containing no final output (succeeded, failed, submit-failed, '
    'expired) with every required output present are NOT asserted: the '
    'statement speaks of finished tasks only.',
    'All subsets are enumerated, including physically unreachable ones '
    '(quantifier: all subsets of completed outputs).',
    'A definition rejected by WorkflowConfig (WorkflowConfigError) is out of '
    'domain (counted in rejected_by_validation), except in part A where the '
    'generator only builds documented-valid graphs.',
]

SCHEMES = [
    [['x', 'x'], ['y', 'y'], ['z', 'z']],
    [['x-1', 'the x-1 msg'], ['y_2', 'y_2 (done), ok.'], ['Z3', 'z|3 & more']],
]
NAME_POOL = ['x', 'y', 'z', 'x-1', 'y_2', 'Z3', 'out', 'a-b', 'a_b', 'a-b-c',
             'a_b-c', 'q']
ODD_NAMES = ['1', '2nd', 'in', 'not', 'True', 'None', 'if', '0-a']
MSG_POOL = ['{n}', 'msg {n}', '{n} is (done), ok.', '{n}|& ready']

# (succeeded, failed) and (submitted, submit-failed): None = unused
_PAIR_SF = [(None, None), (True, None), (False, None), (None, True),
            (None, False), (False, False)]
_PAIR_SUB = [(None, None), (True, None), (False, None), (None, False),
             (False, False)]
_TRI = [None, True, False]


def enum_definitions(kmax):
    """Part A domain, as JSON cases."""
    for scheme in range(len(SCHEMES)):
        for k in range(kmax + 1):
            if k == 0 and scheme > 0:
                continue
            for (su, fa), (sb, sf), stt, exp in product(
                    _PAIR_SF, _PAIR_SUB, _TRI, [None, False]):
                for cust in product(_TRI, repeat=k):
                    decl = {}
                    for name, val in (
                        ('succeeded', su), ('failed', fa), ('submitted', sb),
                        ('submit-failed', sf), ('started', stt),
                        ('expired', exp),
                    ):
                        if val is not None:
                            decl[name] = val
                    customs = SCHEMES[scheme][:k]
                    for (name, _), val in zip(customs, cust):
                        if val is not None:
                            decl[name] = val
                    yield {'customs': customs, 'decl': decl, 'expr': None,
                           'style': 0, 'part': 'A'}


def count_definitions(kmax):
    n = 0
    for scheme in range(len(SCHEMES)):
        for k in range(kmax + 1):
            if k == 0 and scheme > 0:
                continue
            n += 180 * 3 ** k
    return n


# -- Hypothesis part ---------------------------------------------------------

def _trees(variables, max_leaves=7):
    leaf = st.sampled_from(variables)
    return st.recursive(
        leaf,
        lambda ch: st.builds(
            lambda op, kids: [op] + kids,
            st.sampled_from(['and', 'or']),
            st.lists(ch, min_size=2, max_size=3)),
        max_leaves=max_leaves)


@st.composite
def definitions(draw):
    kind = draw(st.sampled_from(
        ['user', 'user', 'user', 'user', 'collide', 'odd', 'default']))
    if kind == 'collide':
        names = draw(st.sampled_from(
            [['a-b', 'a_b'], ['a_b', 'a-b'], ['a-b-c', 'a_b-c', 'x'],
             ['x', 'a_b', 'a-b']]))
    elif kind == 'odd':
        names = draw(st.lists(st.sampled_from(ODD_NAMES + ['x']), min_size=1,
                              max_size=2, unique=True))
    else:
        pool = [n for n in NAME_POOL if n not in ('a_b', 'a_b-c')]
        names = draw(st.lists(st.sampled_from(pool), min_size=0, max_size=3,
                              unique=True))
    customs = []
    for n in names:
        customs.append(
            [n, draw(st.sampled_from(MSG_POOL)).format(n=n)])
    outputs = list(STD_OUTPUTS) + names
    expr = None
    style = 0
    decl = {}
    if kind in ('user', 'collide') and (kind == 'user' or draw(st.booleans())):
        variables = sorted({compvar(o) for o in outputs})
        weighted = variables + [
            v for v in variables
            if v not in ('expired', 'submit_failed', 'submitted', 'started')
        ] * 2
        expr = draw(_trees(weighted))
        style = draw(st.integers(0, 2))
        cls = cexpr.classify(expr, variables)
        mostly_consistent = draw(st.integers(0, 9)) > 0
        for o in outputs:
            e = cls[compvar(o)]
            if mostly_consistent:
                if e is False and o in ('submit-failed', 'expired'):
                    choice = None
                elif e is False:
                    choice = draw(st.sampled_from([True, None]))
                elif e is True:
                    choice = draw(st.sampled_from([False, None]))
                elif o in ('submit-failed', 'expired'):
                    choice = None
                else:
                    choice = draw(st.sampled_from([None, None, False]))
            else:
                choice = draw(st.sampled_from([True, False, None]))
            if choice is not None:
                decl[o] = choice
        if mostly_consistent:
            # cylc presumes success required when neither succeeded nor
            # failed is declared: make the declaration explicit then
            if 'succeeded' not in decl and 'failed' not in decl:
                if cls['succeeded'] is True:
                    decl['succeeded'] = False
                elif cls['succeeded'] is None:
                    decl['failed'] = cls['failed'] is False
            if decl.get('succeeded') is False and cls['failed'] is False:
                # failed is implicitly optional when succeeded is optional
                del decl['succeeded']
                decl['failed'] = True
    else:
        for o in outputs:
            choice = draw(st.sampled_from([True, False, None]))
            if choice is not None:
                decl[o] = choice
    # repair into a declaration the graph parser admits
    for o in ('submit-failed', 'expired'):
        if decl.get(o) is True:
            decl[o] = False
    for a, b in (('succeeded', 'failed'), ('submitted', 'submit-failed')):
        if a in decl and b in decl and (decl[a] or decl[b]):
            if draw(st.booleans()):
                decl[a] = decl[b] = False
            else:
                del decl[draw(st.sampled_from([a, b]))]
    assert cexpr.valid_decl(decl), decl
    return {'customs': customs, 'decl': decl, 'expr': expr, 'style': style,
            'part': 'B'}


# -- the check ---------------------------------------------------------------

def _flow_parts(case, tname, extra_runtime=()):
    graph = []
    if not case['decl']:
        graph.append(tname)   # success required (the default)
    graph += cexpr.graph_lines(tname, case['decl'], sink=f'd_{tname}_')
    rt = [f'    [[{tname}]]']
    if case.get('expr') is not None:
        rt.append('        completion = '
                  + cexpr.render(case['expr'], case.get('style', 0)))
    rt += ['        ' + ln for ln in extra_runtime]
    if case['customs']:
        rt.append('        [[[outputs]]]')
        for name, msg in case['customs']:
            rt.append(f'            {name} = "{msg}"')
    return graph, rt


def flow_text_multi(cases, extra_runtime=()):
    """One workflow with task t<i> per case (a single case: task `t`)."""
    lines = ['[scheduler]', '    allow implicit tasks = True',
             '[scheduling]', '    [[graph]]', '        R1 = """']
    runtime = []
    for i, case in enumerate(cases):
        tname = 't' if len(cases) == 1 else f't{i}'
        graph, rt = _flow_parts(case, tname, extra_runtime)
        lines += ['            ' + ln for ln in graph]
        runtime += rt
    lines += ['        """', '[runtime]'] + runtime
    return '\n'.join(lines) + '\n'


def flow_text(case, extra_runtime=()):
    return flow_text_multi([case], extra_runtime)


def _is_identifier(cv):
    return cv.isidentifier() and not keyword.iskeyword(cv)


def _last_wins(done, outputs):
    """`done` as seen when each completion variable takes the state of the
    last-defined output mapping to it (the collision root cause)."""
    state = {}
    for o in outputs:
        state[compvar(o)] = o in done
    return {o for o in outputs if state[compvar(o)]}


def check_case(case, ctx: Ctx, tdef=None) -> CaseResult:
    if isinstance(case, dict) and case.get('kind') == 'S':
        from vf.props.c11_s import check_s_case
        return check_s_case(case, ctx)
    from cylc.flow.exceptions import CylcError
    from cylc.flow.parsec.exceptions import ParsecError
    from vf.cylcutil import load_config

    customs = [list(c) for c in case['customs']]
    decl = dict(case['decl'])
    tree = case.get('expr')
    names = [n for n, _ in customs]
    outputs = list(STD_OUTPUTS) + names
    cvs = [compvar(o) for o in outputs]
    collide = len(set(cvs)) < len(cvs)
    odd = any(not _is_identifier(compvar(n)) for n in names)

    classes = ['user-expression' if tree is not None else 'default-rule',
               f'customs={len(customs)}']
    if collide:
        classes.append('compvar-collision')
    if odd:
        classes.append('non-identifier-output-name')
    n_opt = sum(1 for v in decl.values() if v is False)
    n_req = sum(1 for v in decl.values() if v is True)
    if tree is None:
        nontrivial = n_opt >= 1 and n_req >= 1
    else:
        nontrivial = len(set(cexpr.ops(tree))) == 2
    for o in ('succeeded', 'failed', 'submitted', 'submit-failed', 'expired'):
        if decl.get(o) is False:
            classes.append(f'{o}-optional')
    if decl.get('failed') is True:
        classes.append('failed-required')
    if any(decl.get(n) is False for n in names):
        classes.append('custom-optional')
    if any(decl.get(n) is True for n in names):
        classes.append('custom-required')

    viol = []
    if tdef is not None:
        return _evaluate(case, ctx, tdef, classes, nontrivial)
    try:
        cfg = load_config(flow_text(case), ctx.scratch)
    except (CylcError, ParsecError) as exc:
        ctx.col.rejected += 1
        classes.append('rejected-by-validation')
        if case.get('part') == 'A':
            viol.append(Violation(
                'C11:valid-default-definition-rejected',
                f'WorkflowConfigError for a documented-valid graph: {exc}'))
        return CaseResult(viol, nontrivial=False, classes=classes)
    except Exception as exc:  # noqa
        # not a documented configuration error: crash on loading
        return CaseResult(
            [Violation('C11:config-load-raises:' + exc_sig(exc),
                       f'{type(exc).__name__}: {exc} while loading\n'
                       + flow_text(case))],
            nontrivial=False, classes=classes)
    return _evaluate(case, ctx, cfg.taskdefs['t'], classes, nontrivial)


def _evaluate(case, ctx, tdef, classes, nontrivial):
    from cylc.flow.task_outputs import TaskOutputs
    customs = [list(c) for c in case['customs']]
    decl = dict(case['decl'])
    tree = case.get('expr')
    names = [n for n, _ in customs]
    outputs = list(STD_OUTPUTS) + names
    msg_of = {o: o for o in STD_OUTPUTS}
    msg_of.update({n: m for n, m in customs})
    collide = 'compvar-collision' in classes
    viol = []

    # guard: the graph parser applied the declaration we think it did
    eff = dict(decl)
    if 'succeeded' not in eff and 'failed' not in eff:
        eff['succeeded'] = True
    for o in outputs:
        if tdef.outputs[o][1] != eff.get(o):
            classes.append('declaration-not-applied')
            return CaseResult(
                [], nontrivial=False, classes=classes, inconclusive=True,
                info=f'{o}: taskdef {tdef.outputs[o][1]} != declared '
                     f'{eff.get(o)}')
        if tdef.outputs[o][0] != msg_of[o]:
            classes.append('message-not-applied')
            return CaseResult([], nontrivial=False, classes=classes,
                              inconclusive=True)

    rule = cexpr.DefaultRule(decl) if tree is None else None
    n_sub = n_unasserted = 0
    for done in cexpr.all_subsets(outputs):
        n_sub += 1
        outs = TaskOutputs(tdef)
        for o in done:
            outs.set_message_complete(msg_of[o])
        try:
            got = outs.is_complete()
        except Exception as exc:  # noqa
            if (
                tree is None
                and type(exc).__name__ == 'InvalidCompletionExpression'
                and any(decl.get(n) is True
                        and not _is_identifier(compvar(n)) for n in names)
            ):
                # root cause: a required output whose name is not a Python
                # identifier is spliced into the default expression
                sig = ('C11:default-expression-not-evaluable:'
                       'non-identifier-output-name')
            else:
                sig = 'C11:is_complete-raises:' + exc_sig(exc)
            viol.append(Violation(
                sig,
                f'is_complete() raised {type(exc).__name__}: '
                f'{str(exc)[:200]!r}; completion expression '
                f'{tdef.rtconfig["completion"]!r}; outputs {tdef.outputs}'))
            break
        if got not in (True, False):
            viol.append(Violation(
                'C11:is_complete-not-bool', f'returned {got!r}'))
            break
        if rule is not None:
            want, why = rule.explain(done)
        else:
            if collide:
                # a shared variable: true if any / all of the colliding
                # outputs are complete -- only assert when they agree
                vals = {}
                amb = False
                for o in outputs:
                    cv = compvar(o)
                    b = o in done
                    if cv in vals and vals[cv] != b:
                        amb = True
                    vals[cv] = b
                want = None if amb else cexpr.ev(tree, vals)
            else:
                want = cexpr.ev(tree, {compvar(o): (o in done) for o in outputs})
            why = 'user-expression'
        if want is None:
            n_unasserted += 1
            continue
        if got != want:
            if (
                collide and rule is not None
                and rule.explain(_last_wins(done, outputs))[0] == got
            ):
                # explained by: only the last-defined output of a group
                # sharing a completion variable is seen by is_complete()
                sig = 'C11:compvar-collision:required-output-ignored'
            elif rule is not None:
                sig = f'C11:default-rule:{why}:is_complete={got}'
            else:
                sig = 'C11:user-expression:is_complete-differs'
            viol.append(Violation(
                sig,
                f'completed outputs {sorted(done)}: is_complete()={got}, '
                f'expected {want} ({why}); declaration {decl}; completion '
                f'expression {tdef.rtconfig["completion"]!r}; customs '
                f'{customs}'))
            break
    ex = ctx.col.extra
    ex['subset_evaluations'] = ex.get('subset_evaluations', 0) + n_sub
    ex['subsets_unasserted'] = ex.get('subsets_unasserted', 0) + n_unasserted
    return CaseResult(viol, nontrivial=nontrivial, classes=classes)


BATCH = 12


def run_shard(ctx: Ctx):
    from vf.cylcutil import load_config
    # Part A: exhaustive; several definitions share one workflow (task t<i>
    # each) to amortise the load; a replay uses a workflow of its own
    kmax = 2 if ctx.quick else 3
    mine = [case for i, case in enumerate(enum_definitions(kmax))
            if i % ctx.nshards == ctx.shard]
    for pos in range(0, len(mine), BATCH):
        batch = mine[pos:pos + BATCH]
        try:
            cfg = load_config(flow_text_multi(batch), ctx.scratch)
            tdefs = [cfg.taskdefs['t' if len(batch) == 1 else f't{i}']
                     for i in range(len(batch))]
        except Exception:  # noqa  -> decide per definition
            tdefs = [None] * len(batch)
        for case, tdef in zip(batch, tdefs):
            res = check_case(case, ctx, tdef)
            ctx.col.record(case, res)
            for v in ctx.col.filter_known(res.violations):
                ctx.col.add_violation(v, case)
    ctx.col.extra['exhaustive_definitions'] = len(mine)
    ctx.col.extra['part_A_exhaustive'] = True
    # Part B: Hypothesis
    hyp_run(ctx, definitions(), check_case, ctx.share(BUDGET[ctx.tier]))
    # Part C: scheduler level (retained exactly when incomplete)
    from vf.props.c11_s import s_cases
    hyp_run(ctx, s_cases(), check_case, ctx.share(S_BUDGET[ctx.tier]))
