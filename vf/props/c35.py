"""C35 Runtime inheritance follows C3 linearization.

Oracle: Python's own MRO for the equivalent class hierarchy (root = object).
"""
from __future__ import annotations

from hypothesis import strategies as st

from vf.core import CaseResult, Ctx, Violation, hyp_run, exc_sig

PROP_ID = 'C35'
LEVEL = 'exploration'
BUDGET = {'quick': 6000, 'thorough': 150000}
RULE = (
    'Hypothesis draws an inheritance DAG: 1-8 namespaces n0..n7 each with 0-3 '
    'parents from earlier namespaces and optionally an explicit root at any '
    'position; checked (a) through C3.mro directly and (b) for 1 in 6 cases '
    'through a real WorkflowConfig load (linearized ancestors + effect of '
    'inheritance on an overridden environment variable). Oracle = type(name, '
    'bases, {}).__mro__ with root=object; TypeError <=> cylc rejects. '
    'Non-trivial = some namespace has >=2 parents (multiple inheritance); '
    'distinct by the DAG.')
ASSUMPTIONS = [
    'Python\'s builtin MRO is the reference C3 implementation (property statement).',
    'Namespaces are declared in topological order in the config-level half '
    '(cylc requires parents to be defined, not to precede).',
]


@st.composite
def dags(draw):
    n = draw(st.integers(1, 8))
    spec = []
    for i in range(n):
        if i == 0:
            k = 0
        else:
            k = draw(st.integers(0, min(3, i)))
        parents = draw(st.lists(st.integers(0, i - 1), min_size=k, max_size=k,
                                unique=True)) if k else []
        parents = [f'n{p}' for p in parents]
        # explicit root at a random position (incl. first => conflict)
        if parents and draw(st.integers(0, 5)) == 0:
            pos = draw(st.integers(0, len(parents)))
            parents.insert(pos, 'root')
        defines_v = draw(st.booleans())
        spec.append([f'n{i}', parents, defines_v])
    via_config = draw(st.integers(0, 5)) == 0
    return {'dag': spec, 'via_config': via_config}


def py_mro(dag):
    """name -> list of names, or TypeError name."""
    classes = {'root': object}
    out = {'root': ['root']}
    for name, parents, _ in dag:
        bases = tuple(classes[p] for p in parents) or (object,)
        try:
            cls = type(name, bases, {})
        except TypeError:
            return None, name
        classes[name] = cls
        out[name] = [
            'root' if c is object else c.__name__ for c in cls.__mro__]
    return out, None


def check_case(case, ctx: Ctx) -> CaseResult:
    from cylc.flow.c3mro import C3
    dag = case['dag']
    viol = []
    expect, bad = py_mro(dag)
    tree = {'root': []}
    for name, parents, _ in dag:
        tree[name] = list(parents) or ['root']
    multi = any(len(p) >= 2 for _, p, _ in dag)
    classes = ['multi-inherit'] if multi else []
    if expect is None:
        classes.append('inconsistent')
    # (a) direct
    c3 = C3(tree)
    got = {}
    rejected = None
    for name in tree:
        try:
            got[name] = c3.mro(name)
        except RecursionError:
            raise
        except Exception as exc:
            if 'bad runtime namespace inheritance' not in str(exc):
                viol.append(Violation(
                    'C35:unexpected-exception:' + exc_sig(exc), repr(exc)))
            rejected = name
            break
    if expect is None:
        if rejected is None:
            viol.append(Violation(
                'C35:inconsistent-hierarchy-accepted',
                f'Python rejects class {bad} (no consistent MRO) but C3.mro '
                f'linearised every namespace: {got}'))
    else:
        if rejected is not None:
            viol.append(Violation(
                'C35:consistent-hierarchy-rejected',
                f'C3.mro rejected {rejected}; Python MRO exists: {expect}'))
        else:
            for name in tree:
                if got[name] != expect[name]:
                    viol.append(Violation(
                        'C35:mro-differs',
                        f'{name}: cylc {got[name]} != python {expect[name]}'))
                    break
        if tree != {k: (list(p) or ['root']) if k != 'root' else []
                    for k, p in [('root', [])] + [(n, p) for n, p, _ in dag]}:
            viol.append(Violation('C35:tree-mutated', 'C3.mro mutated its input tree'))
    # (b) through WorkflowConfig
    if case.get('via_config'):
        classes.append('via-config')
        viol += _check_config(dag, expect, ctx)
    return CaseResult(viol, nontrivial=multi, classes=classes,
                      distinct_key=dag)


def _check_config(dag, expect, ctx):
    from cylc.flow.exceptions import WorkflowConfigError
    from vf.cylcutil import load_config
    lines = ['[scheduler]', '    allow implicit tasks = True',
             '[scheduling]', '    [[graph]]',
             '        R1 = ' + ' & '.join(n for n, _, _ in dag),
             '[runtime]', '    [[root]]', '        [[[environment]]]',
             '            V = root']
    for name, parents, defines in dag:
        lines.append(f'    [[{name}]]')
        if parents:
            lines.append('        inherit = ' + ', '.join(parents))
        if defines:
            lines += ['        [[[environment]]]', f'            V = {name}']
    text = '\n'.join(lines) + '\n'
    viol = []
    try:
        cfg = load_config(text, ctx.scratch)
    except WorkflowConfigError as exc:
        if expect is not None:
            viol.append(Violation(
                'C35:config-rejects-consistent',
                f'WorkflowConfigError {exc} but Python MRO exists'))
        return viol
    if expect is None:
        viol.append(Violation(
            'C35:config-accepts-inconsistent',
            'WorkflowConfig accepted a hierarchy with no consistent MRO'))
        return viol
    defines = {n: d for n, _, d in dag}
    defines['root'] = True
    for name, _, _ in dag:
        anc = cfg.runtime['linearized ancestors'][name]
        if anc != expect[name]:
            viol.append(Violation(
                'C35:config-mro-differs',
                f'{name}: {anc} != python {expect[name]}'))
            break
        want = next(a for a in expect[name] if defines[a])
        gotv = cfg.cfg['runtime'][name]['environment'].get('V')
        if gotv != want:
            viol.append(Violation(
                'C35:inherited-value-differs',
                f'{name}: V={gotv!r}, expected from {want} (mro {expect[name]})'))
            break
    return viol


def run_shard(ctx: Ctx):
    hyp_run(ctx, dags(), check_case, ctx.share(BUDGET[ctx.tier]))
