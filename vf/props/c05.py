"""C05 Internal queue limits are never exceeded."""
from __future__ import annotations

from hypothesis import strategies as st

from vf.core import CaseResult, Ctx, Violation, hyp_run
from vf.gen.wfspec import wfspecs
from vf.sim.drive import SCase, outcome_maps, run_async

PROP_ID = 'C05'
LEVEL = 'exploration'
BUDGET = {'quick': 450, 'thorough': 12000}
MANIFEST = {
    'engine': 'S',
    'technique': 'PBT on the stepped scheduler: queue membership vs model and '
                 'every queue release checked for limit and FIFO order',
}
RULE = (
    'Generated workflow (parentless-heavy so that many tasks are ready at '
    'once) with 1-3 [[queues]] of limit 0-3 whose members are task names and '
    'family names (two generated families, overlapping memberships, a task '
    'listed in several queues, an explicit default section before/after the '
    'others), schedules of <=60 steps over loop / return / advance / deliver '
    '/ hold / release / trigger with delayed command returns so that jobs '
    'stay preparing/submitted across iterations.  Oracle: the queue '
    'manager\'s member sets partition the task names and equal the model '
    '(last queue listing the task or a family containing it, else default); '
    'at every release_queued_tasks call, for each limited queue, active '
    'members before + members released <= limit whenever something is '
    'released; the released members are the longest-queued non-held members '
    '(FIFO by monitored queue order).  Non-trivial = a limited queue was at '
    'its limit with another member queued; distinct by the case.')
ASSUMPTIONS = [
    'Manually triggered tasks bypass the queues (exempt by the statement).',
    'FIFO order is the order of the monitored is_queued False->True '
    'transitions of the task proxies.',
]


@st.composite
def cases(draw):
    spec = draw(wfspecs({'max_tasks': 6, 'min_tasks': 3, 'max_fcp': 4,
                         'abs': False, 'future': False, 'optional': False,
                         'custom': False}))
    tasks = spec['tasks']
    fams = {}
    for f in ('FAM1', 'FAM2'):
        if draw(st.booleans()):
            k = draw(st.integers(1, len(tasks)))
            fams[f] = draw(st.lists(st.sampled_from(tasks), min_size=k,
                                    max_size=k, unique=True))
    spec['extra']['families'] = fams
    nq = draw(st.integers(1, 3))
    queues = []
    for i in range(nq):
        pool = tasks + list(fams)
        k = draw(st.integers(1, min(4, len(pool))))
        mem = draw(st.lists(st.sampled_from(pool), min_size=k, max_size=k,
                            unique=True))
        queues.append({'name': f'q{i + 1}', 'limit': draw(st.integers(0, 3)),
                       'members': mem})
    if draw(st.integers(0, 2)) == 0:
        pos = draw(st.integers(0, len(queues)))
        queues.insert(pos, {'name': 'default',
                            'limit': draw(st.integers(0, 3)),
                            'members': None})
    spec['extra']['queues'] = queues
    spec['extra']['runahead'] = 'P4'
    outcomes = {}
    sched = draw(st.lists(st.tuples(
        st.sampled_from(['loop', 'loop', 'loop', 'ret', 'adv', 'del',
                         'hold', 'release', 'trigger']),
        st.integers(0, 15)).map(list), max_size=60))
    ret_delays = draw(st.lists(st.sampled_from([0, 1, 2, 3, 5]),
                               min_size=1, max_size=6))
    delays = draw(st.lists(st.sampled_from([0, 1, 2, 4]),
                           min_size=1, max_size=6))
    return {'spec': spec, 'outcomes': outcomes, 'schedule': sched,
            'ret_delays': ret_delays, 'delays': delays}


def check_case(case, ctx: Ctx) -> CaseResult:
    return run_async(_check(case, ctx))


def model_queues(spec):
    """queue name -> (limit, member task names); model of the statement."""
    fams = spec['extra'].get('families') or {}
    tasks = spec['tasks']
    qof = {t: 'default' for t in tasks}
    limits = {'default': 100}   # documented default-queue limit
    for q in spec['extra']['queues']:
        limits[q['name']] = q['limit']
        if q['name'] == 'default':
            continue
        for m in q['members']:
            for t in (fams[m] if m in fams else [m]):
                qof[t] = q['name']
    members = {name: {t for t in tasks if qof[t] == name} for name in limits}
    return limits, members, qof


async def _check(case, ctx: Ctx) -> CaseResult:
    spec = case['spec']
    async with SCase(case, ctx) as sc:
        if sc.rejected:
            return CaseResult(sc.crash_violations('C05'), False,
                              ['rejected:' + sc.rejected])
        sim = sc.sim
        viol = []
        classes = set()
        limits, members, qof = model_queues(spec)
        # membership (P-level)
        mgr = sim.schd.pool.task_queue_mgr
        got = {name: set(q.members) for name, q in mgr.queues.items()}
        allnames = {t for t in spec['tasks'] if sc.model.valid[t]}
        seen = {}
        for name, mem in got.items():
            for t in mem & allnames:
                if t in seen:
                    viol.append(Violation(
                        'C05:task-in-two-queues',
                        f'task {t} is a member of queues {seen[t]} and '
                        f'{name} (config order '
                        f'{[q["name"] for q in spec["extra"]["queues"]]})'))
                seen[t] = name
        for t in allnames:
            if t not in seen:
                viol.append(Violation('C05:task-in-no-queue',
                                      f'task {t} is in no queue'))
            elif seen[t] != qof[t] and not any(
                    v.sig == 'C05:task-in-two-queues' for v in viol):
                viol.append(Violation(
                    'C05:task-in-wrong-queue',
                    f'task {t}: manager says {seen[t]}, model (last queue '
                    f'listing it, else default) says {qof[t]}'))
        for name, q in mgr.queues.items():
            if q.limit != limits.get(name, 0):
                viol.append(Violation(
                    'C05:queue-limit-differs',
                    f'queue {name} limit {q.limit} != configured '
                    f'{limits.get(name)}'))
        membership_bad = bool(viol)
        await sc.run_schedule()
        await sc.drain()
        viol = sc.crash_violations('C05') + viol
        fifo = {name: [] for name in limits}
        for ev in sim.trace:
            if ev['k'] == 'state':
                b, a = ev['before'], ev['after']
                key = (ev['cycle'], ev['name'])
                q = qof.get(ev['name'])
                if q is None:
                    continue
                if not b[2] and a[2]:
                    if key not in fifo[q]:
                        fifo[q].append(key)
                elif b[2] and not a[2]:
                    # un-queued (released, triggered or removed)
                    pass
            elif ev['k'] == 'remove':
                key = (ev['cycle'], ev['name'])
                q = qof.get(ev['name'])
                if q and key in fifo[q]:
                    fifo[q].remove(key)
            elif ev['k'] == 'q-release' and not membership_bad:
                held = {(c, n) for (c, n, h) in ev['queued'] if h}
                queued_now = {(c, n) for (c, n, _h) in ev['queued']}
                for name, L in limits.items():
                    mem = members[name]
                    act = [(c, n) for (c, n, _s, _w, _m) in ev['active']
                           if n in mem]
                    rel = [(c, n) for (c, n) in ev['released'] if n in mem]
                    qd = [k for k in fifo[name] if k in queued_now]
                    if L and len(act) >= L and any(
                            k not in rel for k in qd):
                        classes.add('limit-binding')
                    if L and rel and len(act) + len(rel) > L:
                        viol.append(Violation(
                            'C05:queue-limit-exceeded',
                            f'queue {name} (limit {L}, members '
                            f'{sorted(mem)}): {len(act)} active {act} and '
                            f'{len(rel)} more released {rel} at iteration '
                            f'{ev["it"]}'))
                    if rel:
                        want = [k for k in qd if k not in held][:len(rel)]
                        if sorted(want) != sorted(rel) and set(rel) <= set(qd):
                            viol.append(Violation(
                                'C05:not-fifo',
                                f'queue {name}: released {rel} but the '
                                f'longest-queued unheld members are {want} '
                                f'(queue order {qd}, held {sorted(held)})'))
                        if any(k in held for k in rel):
                            viol.append(Violation(
                                'C05:held-task-released',
                                f'queue {name}: released held task(s) '
                                f'{[k for k in rel if k in held]}'))
                    for k in rel:
                        if k in fifo[name]:
                            fifo[name].remove(k)
            elif ev['k'] == 'cmd' and ev['cmd'] == 'trigger' and not ev['err']:
                classes.add('manual-trigger')
                # triggered tasks leave the queue
                for name in fifo:
                    fifo[name] = [
                        k for k in fifo[name]
                        if f'{k[0]}/{k[1]}' != ev.get('task')]
        if any(q['name'] == 'default' for q in spec['extra']['queues']):
            classes.add('explicit-default')
        if spec['extra'].get('families'):
            classes.add('families')
        uniq = {}
        for v in viol:
            uniq.setdefault(v.sig, v)
        return CaseResult(list(uniq.values()), 'limit-binding' in classes,
                          sorted(classes), inconclusive=sc.inconclusive,
                          info={'flow': sc.drv.flow_text})


def run_shard(ctx: Ctx):
    hyp_run(ctx, cases(), check_case, ctx.share(BUDGET[ctx.tier]))
