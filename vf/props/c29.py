"""C29 Manually set outputs behave like naturally completed outputs."""
from __future__ import annotations

import json
import sqlite3
from typing import Dict, List, Optional, Set, Tuple

from hypothesis import strategies as st

from vf.core import CaseResult, Ctx, Violation, hyp_run
from vf.gen.wfspec import atoms_of, wfspecs
from vf.sim.drive import (
    SCase, job_outputs, outcome_for, outcome_maps, run_async)
from vf.sim.model import Model, atom_target, expand_out

PROP_ID = 'C29'
LEVEL = 'exploration'
BUDGET = {'quick': 352, 'thorough': 10000}
MANIFEST = {
    'engine': 'S',
    'technique': 'stateful PBT on the stepped scheduler: generated `cylc '
                 'set` commands checked on pool + DB before/after against a '
                 'model from the workflow AST, plus a differential twin run '
                 '(set --out=X vs. the job emitting X)',
}
RULE = (
    'Generated workflow (2-5 tasks, 2-3 cycles, and/or prerequisites, '
    'inter-cycle offsets, custom / optional outputs, sometimes an explicit '
    'completion expression "x and (succeeded or failed)"; in a third of '
    'the "set" cases most tasks have 1-2 execution retry delays), random job '
    'outcomes, a history over loop / return / advance / deliver / fair-round '
    '/ hold / pause / resume, then one of two case kinds.  Kind "set" (70 %): '
    '1-2 `cylc set` commands (commands.set_prereqs_and_outputs) on a pooled '
    'task or any model instance (waiting, live, finished, not yet spawned) '
    'with: no options; --out=<1-3 names from the task\'s standard and custom '
    'outputs, sometimes an unknown name>; --pre=all; --pre=<1-3 prerequisites, '
    'own ones and foreign / unknown ones>, in half of these one command '
    'addressed to 2-3 tasks with the union of their selections (each target '
    'is checked against its own share); --out=failed,.. directed at a task '
    'with a live job (with retries lined up, if any) when the workflow has '
    'retry delays; flow option default/new/1/2/none; '
    'more steps; fair drain.  Oracle on the pool snapshots and the '
    'task_outputs table read through a fresh connection before/after each '
    'command: (O1) completed outputs afterwards include the selection and its '
    'implied earlier outputs and nothing else became complete; (O2) every '
    'model child of a newly completed output is in the pool with that '
    'prerequisite satisfied, nothing that is neither such a child nor '
    'parentless was added, and no prerequisite on an uncompleted output of '
    'the target became satisfied; (O3) the target did not move into '
    'submitted/running; (O4) with no options the completed outputs include '
    'the required outputs from the AST plus submitted, started, succeeded; '
    '(P1) --pre satisfies exactly the requested prerequisites the target has '
    '(AST), adds nothing but the target, and is a no-op when none of the '
    'requested prerequisites belongs to the target; (P2) after the last '
    'command, a waiting target whose prerequisite expression is true is '
    'launched by the end of the drain unless held / queued / '
    'runahead-limited / workflow paused.  Kind "diff" (30 %): the workflow '
    'is paused, then run A does `set --out=<outputs of the target\'s scripted '
    'job>` on a target that has not run yet while twin run B triggers the '
    'target and lets only its job run to the end; the model children of the '
    'target are compared between A and B (presence, flows, satisfied '
    'prerequisites).  Non-trivial = an accepted command that completed an '
    'output with a model child, or satisfied a valid prerequisite, or a diff '
    'pair with >= 1 child compared; distinct by the whole case.')
ASSUMPTIONS = [
    'Implied outputs as in `cylc set --help`: started -> submitted; succeeded '
    'and failed -> submitted, started; custom outputs, submit-failed: none.',
    '"Required outputs" of a task are computed from the harness AST (outputs '
    'used in the graph without "?"; succeeded unless marked optional) or '
    'from the completion expression the harness itself wrote; tasks whose '
    'required final output is "failed" are outside the profile.',
    'A child is not required to be in the pool when the command was given '
    '--flow=none or the target carries no flow (no-flow tasks do not flow '
    'on), or when the child has been in the pool before (already run in this '
    'flow).  --wait and --out=skip are not generated.',
    '"Exactly the children": tasks added by the command must be model '
    'children of the newly completed outputs; parentless instances are '
    'allowed in addition (auto-spawned when the runahead window moves).',
    '"Then runs" is decided at quiescence / shutdown of the fair drain, for '
    'the last command only; iteration cap => inconclusive.',
    'Outputs missing after `cylc set` are reported per root cause, each '
    'group under its own signature: (a) ":not-recorded-in-db" only for '
    'outputs that were observed complete on the transient proxy of an '
    'inactive target AND for which the UPDATE of task_outputs was observed '
    'queued for a flow set that no task_outputs row of the task has (only '
    'overlapping rows: e.g. row [1,2], --flow=2); (b) ":submit-failed" only '
    'for a selected submit-failed that was never completed on the proxy '
    'either; (c) everything else under the plain selected / implied / '
    'default signatures.  Setting failed on a task that succeeded earlier '
    '(or vice versa) is inside the statement ("marks those outputs '
    'complete", any state); cylc does complete it on the proxy.',
    'Execution retry delays are configured only in "set" cases: in the '
    'differential twin a failing job with retries left would (rightly) not '
    'complete failed, unlike `set --out=failed`.',
    'Differential clause: compared modulo job records, the target itself, '
    'and how a prerequisite was satisfied (forced / naturally); only the '
    'model children of the target are compared, in a paused workflow, so '
    'that nothing but the two operations under comparison happens.',
]

STD = ['submitted', 'started', 'succeeded', 'failed', 'submit-failed']
LIVE = ('preparing', 'submitted', 'running')
FLOWS = [[], [], [], [], ['new'], ['1'], ['2'], ['none']]
PRE_OPS = ['loop', 'loop', 'loop', 'ret', 'ret', 'adv', 'adv', 'del', 'del',
           'round', 'round', 'round', 'hold', 'pause', 'resume']
MID_OPS = ['loop', 'loop', 'ret', 'adv', 'del', 'round', 'resume']
FAILED_IX = STD.index('failed')     # payload value that selects "failed"


def implied(outs: Set[str]) -> Set[str]:
    r = set(outs)
    if r & {'succeeded', 'failed'}:
        r |= {'submitted', 'started'}
    if 'started' in r:
        r.add('submitted')
    return r


# ---------------------------------------------------------------------------
# generator

def _steps(ops, max_size):
    return st.lists(st.tuples(st.sampled_from(ops), st.integers(0, 15))
                    .map(list), max_size=max_size)


def _with_children(model: Model, insts):
    """Instances some other instance depends on / that have prerequisites."""
    parents, kids = set(), set()
    valid = set(insts)
    for (c, q) in insts:
        for (u, tp, _o) in model.real_atoms(c, q):
            if (u, tp) in valid:
                parents.add((u, tp))
                kids.add((c, q))
    return sorted(parents), sorted(kids)


@st.composite
def set_steps(draw, parents, kids, retry_tasks=()):
    mode = draw(st.sampled_from(
        ['default', 'default', 'out', 'out', 'out', 'out', 'pre-all',
         'pre-all', 'pre', 'pre', 'pre']))
    n = draw(st.integers(0, 23))
    # bias the target towards instances the command can have an effect on
    pool = kids if mode.startswith('pre') else parents
    if pool and draw(st.integers(0, 3)) != 0:
        n = list(draw(st.sampled_from(pool)))
    payload = draw(st.lists(st.integers(0, 60), min_size=1, max_size=3))
    if mode == 'pre' and draw(st.integers(0, 2)) == 0:
        # only prerequisites of other tasks / unknown ones
        payload = [3 * (k // 3) for k in payload]
    step = ['xset', n, mode, payload, draw(st.sampled_from(FLOWS))]
    if mode == 'out' and retry_tasks and draw(st.booleans()):
        # a task with a live job (and execution retries lined up, if there
        # is one) is given "failed" by hand
        step[1] = ['live', draw(st.integers(0, 7))]
        step[3] = [FAILED_IX] + payload[1:]
    if mode == 'pre' and len(kids) > 1 and draw(st.booleans()):
        # one command addressed to several tasks (their prerequisites
        # differ in general; each one's share is drawn with the same payload)
        more = draw(st.lists(st.sampled_from(kids), min_size=1, max_size=2,
                             unique=True))
        step.append([list(x) for x in more])
    return step


@st.composite
def cases(draw):
    spec = draw(wfspecs({'max_tasks': 5, 'max_fcp': 3, 'abs': False,
                         'future': False}))
    ex = spec['extra']
    if draw(st.integers(0, 2)) == 0:
        ex['runahead'] = 'P%d' % draw(st.sampled_from([0, 1, 2]))
    # explicit completion: required custom outputs and optional success
    # (the task is made success-optional: rendering takes "?" from `opt`)
    comp = {}
    cands = [t for t in spec['tasks']
             if any('-' not in x for x in spec['custom'].get(t, {}))
             and all('-' not in x for x in spec['custom'].get(t, {}))]
    if cands and draw(st.integers(0, 2)) == 0:
        t = draw(st.sampled_from(cands))
        o = spec['opt'][t]
        o['succ'] = True
        req = sorted(spec['custom'][t])
        for x in req:
            o['custom'][x] = False
        comp[t] = ' and '.join(req) + ' and (succeeded or failed)'
    if comp:
        ex['completion'] = comp
    outcomes = draw(outcome_maps(spec))
    model = Model(spec)
    parents, kids = _with_children(model, model.instances())
    kind = draw(st.sampled_from(['set', 'set', 'set', 'set', 'set', 'set',
                                 'set', 'diff', 'diff', 'diff']))
    case = {'spec': spec, 'outcomes': outcomes, 'kind': kind}
    if kind == 'set':
        retry_tasks = []
        if draw(st.integers(0, 2)) == 0:
            # execution retry delays (PT0S): a failed job is followed by
            # another one; `cylc set --out=failed` must not be
            for t in spec['tasks']:
                if draw(st.integers(0, 3)) != 0:
                    spec['retries'][t] = {'exec': draw(st.integers(1, 2))}
                    retry_tasks.append(t)
        sched = draw(_steps(PRE_OPS, 24))
        sched.append(draw(set_steps(parents, kids, retry_tasks)))
        if draw(st.integers(0, 2)) == 0:
            sched += draw(_steps(MID_OPS, 8))
            sched.append(draw(set_steps(parents, kids, retry_tasks)))
        sched += draw(_steps(MID_OPS, 5))
        if draw(st.booleans()):
            sched.append(['resume', 0])
    else:
        sched = draw(_steps(PRE_OPS, 7))
        case['target'] = (list(draw(st.sampled_from(parents))) if parents
                          else draw(st.integers(0, 23)))
    case['schedule'] = sched
    return case


def _used_customs(spec) -> Dict[str, Set[str]]:
    used: Dict[str, Set[str]] = {}
    for sec in spec['sections']:
        for ln in sec['lines']:
            for a in atoms_of(ln['lhs']):
                if a['out'] in spec.get('custom', {}).get(a['t'], {}):
                    used.setdefault(a['t'], set()).add(a['out'])
    return used


# ---------------------------------------------------------------------------
# model helpers (AST only)

class Ast:
    def __init__(self, spec, model: Model, to_str):
        self.spec = spec
        self.model = model
        self.to_str = to_str
        # (task, point, output) -> children [(task, point)]
        self.children: Dict[Tuple[str, int, str], Set[Tuple[str, int]]] = {}
        for (c, q) in model.instances():
            for tr in model.trees_at(c, q):
                for a in atoms_of(tr):
                    tp = atom_target(a, q)
                    if tp < model.start or not model.is_valid(a['t'], tp):
                        continue
                    for o in expand_out(a['out']):
                        self.children.setdefault(
                            (a['t'], tp, o), set()).add((c, q))

    def msg(self, t: str, out: str) -> str:
        return self.spec.get('custom', {}).get(t, {}).get(out, out)

    def key(self, t: str, p: int, out: str) -> str:
        return f'{self.to_str[p]}/{t}:{self.msg(t, out)}'

    def outputs_of(self, t: str) -> List[str]:
        return STD + sorted(self.spec.get('custom', {}).get(t, {}))

    def own_prereqs(self, t: str, p: int) -> List[Tuple[str, int, str]]:
        """(upstream task, point, output) atoms of the instance, including
        pre-initial ones (they exist, already satisfied)."""
        out = []
        for tr in self.model.trees_at(t, p):
            for a in atoms_of(tr):
                q = atom_target(a, p)
                for o in expand_out(a['out']):
                    if (a['t'], q, o) not in out and q in self.to_str:
                        out.append((a['t'], q, o))
        return out

    def required(self, t: str) -> Set[str]:
        comp = (self.spec['extra'].get('completion') or {}).get(t)
        if comp:
            return {x for x in comp.split(' and (')[0].split(' and ')}
        used = self.model.used_outputs(t)
        req = {o for o, opt in used.items() if not opt}
        if 'succeeded' not in used and 'failed' not in used:
            req.add('succeeded')
        return req

    def success_optional(self, t: str) -> bool:
        return bool(self.spec['opt'].get(t, {}).get('succ'))

    def expr_true(self, t: str, p: int, truthy: Set[str]) -> bool:
        def ev(tree):
            if 'op' in tree:
                vals = [ev(a) for a in tree['args']]
                return all(vals) if tree['op'] == '&' else any(vals)
            q = atom_target(tree, p)
            if q < self.model.start:
                return True
            return any(self.key(tree['t'], q, o) in truthy
                       for o in expand_out(tree['out']))
        return all(ev(tr) for tr in self.model.trees_at(t, p))


def db_rows(sim, cycle: str, name: str) -> List[Tuple[List[int], List[str]]]:
    """task_outputs rows of the instance as (flow numbers, completed
    outputs), read through a fresh connection."""
    res: List[Tuple[List[int], List[str]]] = []
    try:
        path = sim.schd.workflow_db_mgr.pri_path
        con = sqlite3.connect(f'file:{path}?mode=ro', uri=True, timeout=5)
    except Exception:
        return res
    try:
        rows = con.execute(
            'SELECT flow_nums, outputs FROM task_outputs WHERE cycle=? AND '
            'name=?', (cycle, name)).fetchall()
    except sqlite3.Error:
        rows = []
    finally:
        con.close()
    for (fl, txt) in rows:
        try:
            val = json.loads(txt)
            fns = sorted(json.loads(fl))
        except (ValueError, TypeError):
            continue
        res.append((fns, sorted(val.keys()) if isinstance(val, dict) else []))
    return sorted(res)


def db_outputs(sim, cycle: str, name: str) -> Set[str]:
    """Completed outputs recorded for the instance (all flows), read through
    a fresh connection."""
    out: Set[str] = set()
    for (_fl, outs) in db_rows(sim, cycle, name):
        out.update(outs)
    return out


def outputs_now(sim, cycle: str, name: str) -> Tuple[bool, Set[str]]:
    itask = sim.schd.pool._get_task_by_id(f'{cycle}/{name}')
    if itask is not None:
        return True, set(itask.state.outputs.get_completed_outputs())
    return False, db_outputs(sim, cycle, name)


# ---------------------------------------------------------------------------
# driver steps

async def _rounds(sc: SCase, n: int, only: Optional[Tuple[str, str]] = None):
    """n fair rounds (optionally restricted to the jobs of one instance)."""
    sim = sc.sim
    for _ in range(n):
        if not sim.running:
            return
        for it in sim.pending_cmds():
            if only is None or any(
                    (j[0], j[1]) == only for j in it.get('jobs', ())):
                sim.mark_returned(it)
        for job in sorted(sim.live_jobs(), key=lambda j: j.key):
            if only is None or (job.cycle, job.name) == only:
                sim.advance(job)
        for msg in list(sim.inflight):
            if only is None or tuple(msg['job'][:2]) == only:
                sim.deliver(msg)
        await sc.drv.loop()


async def run_prefix(sc: SCase, schedule, ast: Ast):
    sim = sc.sim
    for step in schedule:
        if not sim.running:
            break
        if step[0] == 'xset':
            await _xset(sc, step, ast)
        elif step[0] == 'round':
            await _rounds(sc, 1 + step[1] % 3)
        else:
            await sc.drv.step(*step)


def _resolve(ast: Ast, sc: SCase, t: str, p: int, mode: str, payload):
    """(outputs, prereqs) arguments for the command, from abstract payload."""
    drv = sc.drv
    if mode == 'default':
        return (None if payload[0] % 2 else ['required']), None
    if mode == 'out':
        names = ast.outputs_of(t) + ['nope']
        outs = []
        for k in payload:
            nm = names[k % len(names)]
            if nm not in outs:
                outs.append(nm)
        return outs, None
    if mode == 'pre-all':
        return None, ['all']
    own = ast.own_prereqs(t, p)
    insts = ast.model.instances()
    pres = []
    for k in payload:
        if k % 3 and own:
            u, q, o = own[(k // 3) % len(own)]
        else:
            u, q = insts[(k // 3) % len(insts)]
            outs = ast.outputs_of(u) + ['nope']
            o = outs[k % len(outs)]
        s = f'{drv.to_str[q]}/{u}' + ('' if o == 'succeeded' and k % 2
                                      else f':{o}')
        if s not in pres:
            pres.append(s)
    return None, pres


def _target(drv, n) -> Optional[str]:
    """int: Driver.pick (even = pooled task, odd = any model instance);
    [task, point]: that model instance; ['live', k]: the k-th pooled task
    with a live job (those with execution retries configured first), any
    pooled task / model instance if there is none."""
    if isinstance(n, list) and n[0] == 'live':
        if not drv.sim.running:
            return None
        retr = drv.spec.get('retries') or {}
        live = sorted(
            (t for t in drv.sim.schd.pool.get_tasks()
             if t.state(*LIVE)),
            key=lambda t: (not (retr.get(t.tdef.name) or {}).get('exec'),
                           t.identity))
        if live:
            k = n[1]
            first = [t for t in live
                     if (retr.get(t.tdef.name) or {}).get('exec')] or live
            return first[k % len(first)].identity
        return drv.pick(n[1])
    if isinstance(n, list):
        return f'{drv.to_str[n[1]]}/{n[0]}'
    return drv.pick(n)


async def _xset(sc: SCase, step, ast: Ast):
    from cylc.flow import commands
    _op, n, mode, payload, flow = step[:5]
    sim, drv = sc.sim, sc.drv
    if not sim.running:
        return
    id_ = _target(drv, n)
    if not id_:
        return
    cyc, name = id_.split('/', 1)
    p = drv.to_int[cyc]
    outputs, prereqs = _resolve(ast, sc, name, p, mode, payload)
    # further targets of the same command (--pre only): the prerequisites
    # requested are the union of what the payload selects for each target
    targets = [id_]
    if len(step) > 5 and mode == 'pre':
        for n2 in step[5]:
            id2 = _target(drv, n2)
            if not id2 or id2 in targets:
                continue
            targets.append(id2)
            c2, t2 = id2.split('/', 1)
            for s in _resolve(ast, sc, t2, drv.to_int[c2], mode, payload)[1]:
                if s not in prereqs:
                    prereqs.append(s)
    in_pool, outs_before = outputs_now(sim, cyc, name)
    info = {'target': id_, 'targets': targets, 'mode': mode,
            'outputs': outputs,
            'prereqs': prereqs, 'flow': list(flow), 'n0': len(sim.trace),
            'paused': bool(sim.schd.is_paused), 'in_pool': in_pool,
            'outs_before': sorted(outs_before)}
    await drv._run('xset', commands.set_prereqs_and_outputs(
        sim.schd, list(targets), list(flow), outputs=outputs,
        prerequisites=prereqs, flow_wait=False), **info)
    if sim.running:
        sim.trace[-1]['outs_after'] = sorted(outputs_now(sim, cyc, name)[1])
        sim.trace[-1]['rows_after'] = db_rows(sim, cyc, name)
    else:
        sim.trace[-1]['outs_after'] = None


# ---------------------------------------------------------------------------

def check_case(case, ctx: Ctx) -> CaseResult:
    if case.get('kind') == 'diff':
        return run_async(_check_diff(case, ctx))
    return run_async(_check_set(case, ctx))


def _final_pool(sim):
    if sim.running:
        return sim.pool_snapshot(), bool(sim.schd.is_paused)
    for ev in reversed(sim.trace):
        if ev['k'] == 'shutdown':
            return ev['pool'], False
    return [], False


async def _check_set(case, ctx: Ctx) -> CaseResult:
    spec = case['spec']
    async with SCase(case, ctx) as sc:
        if sc.rejected:
            return CaseResult(sc.crash_violations(PROP_ID), False,
                              ['rejected:' + sc.rejected])
        sim = sc.sim
        watch_outputs(sim, spec)
        ast = Ast(spec, sc.model, sc.drv.to_str)
        await run_prefix(sc, case['schedule'], ast)
        await sc.drain()
        final_pool, paused_end = _final_pool(sim)
        viol = sc.crash_violations(PROP_ID)
        classes: Set[str] = {'kind:set'}
        if spec['extra'].get('completion'):
            classes.add('explicit-completion-expression')
        nontrivial = _oracle_set(sc, ast, final_pool, paused_end,
                                 bool(viol), viol, classes)
        uniq = {}
        for v in viol:
            uniq.setdefault(v.sig, v)
        return CaseResult(list(uniq.values()), nontrivial, sorted(classes),
                          inconclusive=sc.inconclusive,
                          info={'flow': sc.drv.flow_text})


def _truthy(t: dict) -> Set[str]:
    return {k for k, v in t['sat'].items() if v}


def _oracle_set(sc: SCase, ast: Ast, final_pool, paused_end, crashed, viol,
                classes) -> bool:
    sim, model = sc.sim, sc.model
    to_int, to_str = sc.drv.to_int, sc.drv.to_str
    trace = sim.trace
    spec = ast.spec
    cmds = [(i, ev) for i, ev in enumerate(trace)
            if ev['k'] == 'cmd' and ev['cmd'] == 'xset']
    nontrivial = False
    # one pass per (command, target): only --pre commands have several
    per_target = [(ci, idx, ev, tid) for ci, (idx, ev) in enumerate(cmds)
                  for tid in (ev.get('targets') or [ev['target']])]
    for (ci, idx, ev, tid) in per_target:
        last = ci == len(cmds) - 1
        mode, fl = ev['mode'], ev['flow']
        all_targets = ev.get('targets') or [ev['target']]
        if len(all_targets) > 1:
            classes.add('pre:several-targets')
        cyc, name = tid.split('/', 1)
        p = to_int[cyc]
        classes.add('mode:' + mode)
        classes.add('flow:' + (fl[0] if fl else 'default'))
        if ev['err'] is not None:
            classes.add('command-rejected')
            continue
        if ev.get('outs_after') is None:
            continue
        before = {f'{t["cycle"]}/{t["name"]}': t for t in ev['before']}
        after = {f'{t["cycle"]}/{t["name"]}': t for t in ev['after']}
        b, a = before.get(tid), after.get(tid)
        # has been in the pool before, or was given outputs by an earlier
        # `cylc set` while inactive (history in the DB)
        ran_before = any(
            (e['k'] in ('add', 'launch') and e['cycle'] == cyc
             and e['name'] == name)
            or (e['k'] == 'cmd' and (
                e.get('target') == tid or tid in (e.get('targets') or ())))
            for e in trace[:ev['n0']])
        if b is not None:
            classes.add('target:' + b['status'])
        else:
            classes.add('target:inactive-' + (
                'seen-before' if ran_before else 'never-spawned'))
        # documented no-op: --flow=none on an active task that has flows
        if fl == ['none'] and b is not None and b['flows']:
            classes.add('ignored:flow-none-on-active-task')
            continue
        outs_b, outs_a = set(ev['outs_before']), set(ev['outs_after'])
        # outputs the command completed on the (possibly transient) proxy:
        # flow-specific, unlike the before/after union over all flows
        new = {e['out'] for e in trace[ev['n0']:idx]
               if e['k'] == 'out' and e['cycle'] == cyc and e['name'] == name}
        new |= outs_a - outs_b
        added = sorted(set(after) - set(before))
        has_flow = bool(fl != ['none'] and (b is None or b['flows']))

        # (O3) never into submitted / running
        for e in trace[ev['n0']:idx]:
            if (e['k'] == 'state' and e['cycle'] == cyc and e['name'] == name
                    and e['after'][0] in ('submitted', 'running')
                    and e['before'][0] != e['after'][0]):
                viol.append(Violation(
                    'C29:set-moved-task-into-active-state',
                    f'cylc set ({mode} outputs={ev["outputs"]} prereqs='
                    f'{ev["prereqs"]}) on {tid}: status {e["before"][0]} -> '
                    f'{e["after"][0]}'))

        if mode in ('default', 'out'):
            if mode == 'out':
                asked = {o for o in ev['outputs'] if o != 'nope'}
                if 'nope' in ev['outputs']:
                    classes.add('out:unknown-name-mixed-in')
                want = implied(asked)
                if want - asked - outs_b:
                    classes.add('out:implied-output-needed')
            else:
                req = ast.required(name)
                want = implied(req | {'submitted', 'started', 'succeeded'})
                asked = want
                if ast.success_optional(name):
                    classes.add('default:success-optional')
                    if req - {'succeeded', 'failed'}:
                        classes.add('default:success-optional+required-output')
            # (O1)/(O4) outputs complete afterwards
            missing = want - outs_a
            # The missing outputs are reported per root cause, each group
            # under its own signature, so that a recorded finding never
            # absorbs an output that is missing for another reason.
            groups: List[Tuple[str, Set[str], str]] = []
            rest = set(missing)
            # (a) completed on the transient proxy of an inactive target
            # (`out` events) and the UPDATE of task_outputs was queued for
            # the proxy's flow set, but the table has no row with exactly
            # that flow set (only overlapping ones): recorded nowhere.
            # Observed, not assumed: `dbout` event + rows after the command.
            if rest and b is None:
                puts = [e for e in trace[ev['n0']:idx]
                        if e['k'] == 'dbout' and e['cycle'] == cyc
                        and e['name'] == name]
                rows = ev.get('rows_after') or []
                lost = {o for o in rest & new if any(
                    o in e['outs'] and rows and all(
                        list(r[0]) != e['flows'] for r in rows)
                    for e in puts)}
                if lost:
                    groups.append((
                        ('C29:selected-output-not-completed'
                         if lost & asked else
                         'C29:implied-output-not-completed')
                        + ':not-recorded-in-db', lost,
                        f'completed on the transient proxy, UPDATE queued '
                        f'for flows {[e["flows"] for e in puts]}, '
                        f'task_outputs rows {rows}'))
                    rest -= lost
            # (b) --out=submit-failed: the forced message is not handled at
            # all (no completion on the proxy either)
            if (mode == 'out' and 'submit-failed' in rest & asked
                    and 'submit-failed' not in new):
                groups.append((
                    'C29:selected-output-not-completed:submit-failed',
                    {'submit-failed'}, 'never completed on the proxy'))
                rest.discard('submit-failed')
            # (c) anything else
            if rest:
                if mode == 'default':
                    sig = 'C29:default-selection-incomplete'
                    # root cause apart: explicit completion expression
                    # "<outputs> and (succeeded or failed)"; only the
                    # success pathway is missing
                    if (name in (spec['extra'].get('completion') or {})
                            and rest <= {'submitted', 'started',
                                         'succeeded'}
                            and not (rest & new)):
                        sig += ':required-output-and-optional-success'
                    groups.append((sig, rest, ''))
                else:
                    sel, imp = rest & asked, rest - asked
                    if sel:
                        groups.append((
                            'C29:selected-output-not-completed', sel, ''))
                    if imp:
                        groups.append((
                            'C29:implied-output-not-completed', imp, ''))
            if missing and mode == 'out':
                classes.add('out:selected-missing')
            for sig, outs_m, why in groups:
                classes.add('missing:' + sig[4:])
                viol.append(Violation(
                    sig,
                    f'cylc set {"(no options)" if mode == "default" else ev["outputs"]} '
                    f'--flow={fl} on {tid} ({b["status"] if b else "not in pool"}'
                    f'): outputs complete before {sorted(outs_b)}, after '
                    f'{sorted(outs_a)}; expected also {sorted(outs_m)}'
                    f'{" (" + why + ")" if why else ""} '
                    f'(required per AST: {sorted(ast.required(name))}; '
                    f'all missing: {sorted(missing)})'))
            extra = new - want
            if extra and mode == 'out':
                viol.append(Violation(
                    'C29:unselected-output-completed',
                    f'cylc set --out={ev["outputs"]} on {tid}: outputs '
                    f'{sorted(extra)} became complete as well (before '
                    f'{sorted(outs_b)}, after {sorted(outs_a)})'))
            # (O2) children of the newly completed outputs
            kids_new: Set[Tuple[str, int]] = set()
            if not has_flow:
                classes.add('children-not-checked:no-flow')
            for o in sorted(new if has_flow else ()):
                for (c, q) in sorted(ast.children.get((name, p, o), ())):
                    kids_new.add((c, q))
                    cid = f'{to_str[q]}/{c}'
                    key = ast.key(name, p, o)
                    if cid == tid:
                        continue
                    ca = after.get(cid)
                    if ca is not None:
                        nontrivial = True
                        classes.add('child-in-pool')
                        if not ca['sat'].get(key):
                            viol.append(Violation(
                                'C29:child-prerequisite-not-satisfied',
                                f'cylc set on {tid} completed {o}; child '
                                f'{cid} is in the pool but {key} is '
                                f'{ca["sat"].get(key)!r} (sat {ca["sat"]})'))
                        continue
                    # has been in the pool, or was completed by an earlier
                    # `cylc set` as an inactive task (history in the DB)
                    seen = any(
                        (e['k'] in ('add', 'launch')
                         and e['cycle'] == to_str[q] and e['name'] == c)
                        or (e['k'] == 'cmd' and (
                            e.get('target') == cid
                            or cid in (e.get('targets') or ())))
                        for e in trace[:idx])
                    if seen:
                        classes.add('child-not-spawned:seen-before')
                    else:
                        viol.append(Violation(
                            'C29:child-of-set-output-not-spawned',
                            f'cylc set {ev["outputs"]} --flow={fl} on {tid} '
                            f'({b["status"] if b else "not in pool"}) '
                            f'completed {o}; child {cid} (never in the pool '
                            f'before) is not in the pool afterwards'))
            for cid in added:
                c2, n2 = cid.split('/', 1)
                inst = (n2, to_int[c2])
                if inst in kids_new or cid == tid:
                    continue
                if model.parentless(*inst):
                    classes.add('added:parentless-extra')
                    continue
                viol.append(Violation(
                    'C29:spawned-task-is-not-a-child-of-set-outputs',
                    f'cylc set {ev["outputs"]} on {tid} newly completed '
                    f'{sorted(new)}; {cid} was added to the pool but is not '
                    f'a child of those outputs'))
            for cid, ca in after.items():
                gained = _truthy(ca) - (
                    _truthy(before[cid]) if cid in before else set())
                for o in ast.outputs_of(name):
                    # (an output completed by this command on the proxy is
                    # complete for this purpose even if the DB lost it: that
                    # loss is reported under (O1))
                    if (ast.key(name, p, o) in gained and o not in outs_a
                            and o not in new):
                        viol.append(Violation(
                            'C29:prerequisite-on-uncompleted-output-satisfied',
                            f'cylc set {ev["outputs"]} on {tid}: {cid} now '
                            f'has {ast.key(name, p, o)} satisfied but that '
                            f'output is not complete ({sorted(outs_a)})'))
        else:
            # (P1) prerequisites
            own = {ast.key(u, q, o) for (u, q, o) in ast.own_prereqs(name, p)}
            if mode == 'pre-all':
                req_keys = set(own)
            else:
                req_keys = set()
                for s in ev['prereqs']:
                    tok, _, o = s.partition(':')
                    c3, u3 = tok.split('/', 1)
                    o = o or 'succeeded'
                    if u3 in spec['tasks'] and c3 in to_int:
                        req_keys.add(ast.key(u3, to_int[c3], o))
                    else:
                        req_keys.add(s)
            valid = req_keys & own
            if req_keys - own:
                classes.add('pre:foreign-or-unknown-given')
            tb = _truthy(b) if b is not None else set()
            ta = _truthy(a) if a is not None else set()
            others_changed = [
                cid for cid in set(before) | set(after)
                if cid not in all_targets and (
                    cid not in before or cid not in after
                    or _truthy(before[cid]) != _truthy(after[cid]))]
            if others_changed:
                viol.append(Violation(
                    'C29:set-prerequisites-changed-other-tasks',
                    f'cylc set --pre={ev["prereqs"]} on {tid}: other tasks '
                    f'changed: {sorted(others_changed)}'))
            if not valid and mode != 'pre-all':
                classes.add('pre:nothing-valid')
                if (a is None) != (b is None) or ta != tb:
                    viol.append(Violation(
                        'C29:foreign-prerequisite-had-an-effect',
                        f'cylc set --pre={ev["prereqs"]} on {tid}: none of '
                        f'these is a prerequisite of the task ({sorted(own)}) '
                        f'but the task changed: in pool {b is not None} -> '
                        f'{a is not None}, satisfied {sorted(tb)} -> '
                        f'{sorted(ta)}'))
                continue
            if a is None:
                if b is None and ran_before:
                    classes.add('pre:target-not-respawned:seen-before')
                elif b is None and mode == 'pre-all' and not own:
                    # parentless: promoted to the active window
                    viol.append(Violation(
                        'C29:set-pre-all-did-not-spawn-target',
                        f'cylc set --pre=all on {tid} (not in pool, never '
                        f'seen): not in the pool afterwards'))
                elif b is None:
                    viol.append(Violation(
                        'C29:set-prerequisite-did-not-spawn-target',
                        f'cylc set --pre={ev["prereqs"]} --flow={fl} on {tid} '
                        f'(not in pool, never seen): valid {sorted(valid)} '
                        f'but the task is not in the pool afterwards'))
                continue
            gained = ta - tb
            if valid - ta:
                viol.append(Violation(
                    'C29:requested-prerequisite-not-satisfied',
                    f'cylc set --pre={ev["prereqs"]} on {tid}: '
                    f'{sorted(valid - ta)} still unsatisfied ({a["sat"]})'))
            elif valid - tb:
                nontrivial = True
                classes.add('pre:valid-prerequisite-newly-satisfied')
            if b is not None and gained - valid:
                viol.append(Violation(
                    'C29:unrequested-prerequisite-satisfied',
                    f'cylc set --pre={ev["prereqs"]} on {tid}: '
                    f'{sorted(gained - valid)} became satisfied too'))
            if b is None:
                pre_initial = {
                    ast.key(u, q, o) for (u, q, o) in ast.own_prereqs(name, p)
                    if q < model.start}
                if ta - valid - pre_initial:
                    viol.append(Violation(
                        'C29:unrequested-prerequisite-satisfied',
                        f'cylc set --pre={ev["prereqs"]} on {tid} (spawned by '
                        f'the command): satisfied {sorted(ta)}, requested '
                        f'and valid {sorted(valid)}'))
            # (P2) then runs
            if (last and not crashed and not sc.inconclusive
                    and a['status'] == 'waiting'
                    and ast.expr_true(name, p, ta)):
                launched = any(
                    e['k'] == 'launch' and e['cycle'] == cyc
                    and e['name'] == name for e in trace[idx:])
                fin = None
                for t2 in final_pool or ():
                    if f'{t2["cycle"]}/{t2["name"]}' == tid:
                        fin = t2
                if launched:
                    classes.add('pre:target-ran')
                elif paused_end:
                    classes.add('pre:target-blocked:paused')
                elif fin is not None and fin['status'] == 'waiting' and (
                        fin['held'] or fin['queued'] or fin['runahead']):
                    classes.add('pre:target-blocked:held-queued-runahead')
                else:
                    where = ('not in the pool' if fin is None else
                             f'{fin["status"]} sat={fin["sat"]} '
                             f'xtriggers={fin["xtriggers"]}')
                    viol.append(Violation(
                        'C29:satisfied-task-did-not-run',
                        f'cylc set --pre={ev["prereqs"]} on {tid}: all its '
                        f'prerequisites are satisfied ({sorted(ta)}), the '
                        f'workflow is not paused, but it was not launched '
                        f'by the end of the drain; it is {where}'))
    return nontrivial


# ---------------------------------------------------------------------------
# differential: set --out=X  vs.  the job emitting X

async def _diff_side(case, ctx, side: str, target_id: Optional[str]):
    """Run one twin.  Returns (info dict) or None if not applicable."""
    from cylc.flow import commands
    spec, outcomes = case['spec'], case['outcomes']
    async with SCase(case, ctx) as sc:
        if sc.rejected:
            return {'rejected': sc.rejected,
                    'crash': sc.crash_violations(PROP_ID)}
        sim, drv = sc.sim, sc.drv
        watch_outputs(sim, spec)
        ast = Ast(spec, sc.model, drv.to_str)
        await run_prefix(sc, case['schedule'], ast)
        if not sim.running:
            return {'skip': 'stopped', 'crash': sc.crash_violations(PROP_ID)}
        await commands.run_cmd(commands.pause(sim.schd))
        id_ = target_id or _target(drv, case['target'])
        if not id_:
            return {'skip': 'no-target', 'crash': []}
        cyc, name = id_.split('/', 1)
        p = drv.to_int[cyc]
        itask = sim.schd.pool._get_task_by_id(id_)
        seen = any(e['k'] in ('add', 'launch') and e['cycle'] == cyc
                   and e['name'] == name for e in sim.trace)
        if itask is not None:
            if (itask.state.status != 'waiting' or itask.submit_num
                    or itask.state.outputs.get_completed_outputs()
                    or not itask.flow_nums):
                return {'skip': 'target-has-run', 'crash': []}
        elif seen or db_outputs(sim, cyc, name):
            return {'skip': 'target-has-run', 'crash': []}
        outs = job_outputs(spec, name, outcome_for(outcomes, name, p, 1))
        n0 = len(sim.trace)
        if side == 'A':
            await drv._run('xset', commands.set_prereqs_and_outputs(
                sim.schd, [id_], [], outputs=sorted(outs),
                prerequisites=None, flow_wait=False), target=id_)
            err = sim.trace[-1]['err']
            await _rounds(sc, 2, only=('-', '-'))
            done = err is None
        else:
            await drv._run('trigger', commands.force_trigger_tasks(
                sim.schd, [id_], [], flow_wait=False), target=id_)
            err = sim.trace[-1]['err']
            done = False
            for _ in range(14):
                await _rounds(sc, 1, only=(cyc, name))
                job = sim.jobs.get((cyc, name, 1))
                if job is None:
                    continue
                busy = any(tuple(m['job'][:2]) == (cyc, name)
                           for m in sim.inflight) or any(
                    (cyc, name, 1) in it.get('jobs', ())
                    for it in sim.pending_cmds())
                if not job.has_next() and not busy:
                    await _rounds(sc, 1, only=('-', '-'))
                    done = True
                    break
        heard = set()
        for e in sim.trace[n0:]:
            if e['k'] == 'out' and e['cycle'] == cyc and e['name'] == name:
                heard.add(e['out'])
        return {'id': id_, 'name': name, 'p': p, 'outs': sorted(outs),
                'done': done and err is None, 'err': err,
                'pool': sim.pool_snapshot() if sim.running else None,
                'heard': sorted(heard),
                'in_pool_before': itask is not None,
                'crash': sc.crash_violations(PROP_ID),
                'children': sorted(
                    {f'{drv.to_str[q]}/{c}'
                     for o in ast.outputs_of(name)
                     for (c, q) in ast.children.get((name, p, o), ())}),
                'flow_text': drv.flow_text}


def watch_outputs(sim, spec):
    """`out` trace events: outputs completed while a task message is
    processed (the engine's `pm` monitor skips messages after which the
    proxy has left the pool)."""
    tem = sim.schd.task_events_mgr
    inner = tem.process_message
    inv = {t: {m: nm for nm, m in d.items()}
           for t, d in spec.get('custom', {}).items()}

    def process_message(itask, severity, message, *a, **k):
        r = inner(itask, severity, message, *a, **k)
        msg = str(message)
        o = ('failed' if msg.startswith('failed') else
             'submit-failed' if msg == 'submission failed' else
             inv.get(itask.tdef.name, {}).get(msg, msg))
        if o in itask.state.outputs.get_completed_outputs():
            sim.ev('out', cycle=str(itask.point), name=itask.tdef.name,
                   out=o)
        return r

    tem.process_message = process_message

    # `dbout` trace events: an UPDATE of the task_outputs row of the proxy's
    # exact flow set was queued (WorkflowDatabaseManager keys it on
    # cycle, name, flow_nums)
    dbm = sim.schd.workflow_db_mgr
    inner_put = dbm.put_update_task_outputs

    def put_update_task_outputs(itask, *a, **k):
        sim.ev('dbout', cycle=str(itask.point), name=itask.tdef.name,
               flows=sorted(itask.flow_nums),
               outs=sorted(itask.state.outputs.get_completed_outputs()))
        return inner_put(itask, *a, **k)

    dbm.put_update_task_outputs = put_update_task_outputs


async def _check_diff(case, ctx: Ctx) -> CaseResult:
    classes: Set[str] = {'kind:diff'}
    A = await _diff_side(case, ctx, 'A', None)
    viol = list(A.get('crash') or [])
    if 'rejected' in A:
        return CaseResult(viol, False, ['rejected:' + A['rejected']])
    if 'skip' in A:
        return CaseResult(viol, False, ['kind:diff', 'diff-skip:' + A['skip']])
    B = await _diff_side(case, ctx, 'B', A['id'])
    viol += list(B.get('crash') or [])
    if 'skip' in B or 'rejected' in B or A['pool'] is None \
            or B['pool'] is None:
        return CaseResult(viol, False, ['kind:diff', 'diff-skip:twin'])
    if not A['done'] or not B['done']:
        classes.add('diff-skip:job-did-not-finish'
                    if A['done'] else 'diff-skip:set-rejected')
        return CaseResult(viol, False, sorted(classes))
    tid = A['id']
    classes.add('diff-target:' + (
        'waiting-in-pool' if A['in_pool_before'] else 'not-spawned'))
    pa = {f'{t["cycle"]}/{t["name"]}': t for t in A['pool']}
    pb = {f'{t["cycle"]}/{t["name"]}': t for t in B['pool']}
    compared = 0
    for cid in A['children']:
        if cid == tid:
            continue
        ca, cb = pa.get(cid), pb.get(cid)
        if ca is None and cb is None:
            continue
        compared += 1
        if (ca is None) != (cb is None):
            viol.append(Violation(
                'C29:set-differs-from-natural-completion:child-presence',
                f'target {tid}, outputs {A["outs"]}: child {cid} is '
                f'{"absent" if ca is None else "in the pool"} after `cylc '
                f'set --out` but {"absent" if cb is None else "in the pool"} '
                f'after the job produced the same outputs'))
            continue
        if _truthy(ca) != _truthy(cb):
            viol.append(Violation(
                'C29:set-differs-from-natural-completion:child-prerequisites',
                f'target {tid}, outputs {A["outs"]}: child {cid} has '
                f'satisfied {sorted(_truthy(ca))} after `cylc set --out` but '
                f'{sorted(_truthy(cb))} after the job produced them'))
        if ca['flows'] != cb['flows']:
            viol.append(Violation(
                'C29:set-differs-from-natural-completion:child-flows',
                f'target {tid}: child {cid} flows {ca["flows"]} after set, '
                f'{cb["flows"]} after natural completion'))
    if compared:
        classes.add('diff-children-compared')
    else:
        classes.add('diff-no-children')
    uniq = {}
    for v in viol:
        uniq.setdefault(v.sig, v)
    return CaseResult(list(uniq.values()), compared > 0, sorted(classes),
                      info={'flow': A['flow_text']})


def run_shard(ctx: Ctx):
    hyp_run(ctx, cases(), check_case, ctx.share(BUDGET[ctx.tier]))
