"""C20 Crash-restart neither loses nor duplicates work.

Engine S.  One *scenario* = (workflow AST, job outcomes, command-return
delays).  Every scheduler incarnation is a fresh ``Sim`` (own event loop, own
``Scheduler`` object) on one run directory; the virtual cluster's durable
state (launch journal, messages the jobs have emitted) lives in an
append-only file written with os.write + fsync and is rebuilt from that file
by the next incarnation:

* a **reference incarnation** runs the scenario uninterrupted under the fair
  drain and counts *effect events* (below); it yields K, the kind of every
  effect, the cluster journal and the final ``task_outputs`` table;
* for each kill point k a **crash incarnation** replays the same scenario
  and dies immediately after effect k;
* a **restart incarnation** rebuilds the cluster, lets the jobs carry on while
  the scheduler is down (their messages are lost), starts a new ``Scheduler``
  on the same run directory and drains to the end (optionally it is itself
  killed at its effect k2 - e.g. during the restart load - and followed by
  another one).

Dying.  DESIGN 2.5 asks for a forked child and ``os._exit(137)``.  That is
implemented (``_run_fork``) but a fork of the worker costs 2-6 s here (every
copy-on-write fault of the child takes ~0.5 ms on this VM, a bare fork
0.3 s) against 0.1 s for the incarnation itself, so by default death is
emulated **in process** (``_run_inproc``): the effect hook marks the
incarnation dead and raises ``_Killed`` (a BaseException - cylc has no
handler for it); from that instant every durable operation the incarnation
could still attempt from ``finally`` / ``__exit__`` code (private-DB connect,
execute, executemany, commit; cluster launch; cluster record) raises again,
a still-parked scheduler task is cancelled with ``handle_exception``
replaced so that no shutdown code runs, and all its sqlite cursors and
connections are closed WITHOUT commit (an open transaction is rolled back,
as SQLite does for a dead process' hot journal).  The equivalence is not
only argued but checked: for a sample of kill points (``xfork``) the same
kill is carried out both ways and the complete private database (all
tables, wall-clock columns and uuid excluded), the cluster file and the
kill position must be identical (a difference is a harness error, exit 2).
``C20_FORK_ALL=1`` runs everything with real forks (used by findings/).

Effect events: every execute / executemany / commit on the private database
(``cylc.flow.rundb`` sees a proxy of the sqlite3 module whose ``connect``
returns a counting ``Connection`` subclass for ``.service/db``), every
command launch on the virtual cluster, every command callback return, every
task message dequeue and every message processed, every main-loop iteration
boundary.
"""
from __future__ import annotations

import json
import os
import shutil
import signal
import sqlite3 as real_sqlite3
import traceback
from collections import Counter
from pathlib import Path

from hypothesis import strategies as st

from vf.core import CaseResult, Ctx, Violation, exc_sig, hyp_run
from vf.gen.wfspec import render_flow, wfspecs
from vf.sim.drive import Driver, outcome_maps, point_maps, run_async
from vf.sim.engine import Job, Sim
from vf.sim.model import Model

PROP_ID = 'C20'
LEVEL = 'fault_enumeration'
# budget = scenarios; each carries KILLS_PER_SCENARIO kill points (quick) or
# all of them (thorough)
BUDGET = {'quick': 64, 'thorough': 192}
KILLS_PER_SCENARIO = 12
XFORK_ONE_IN = {'quick': 6, 'thorough': 3}
EXHAUSTIVE = {'quick': False, 'thorough': False}
WALL_LIMIT = {'quick': 1500, 'thorough': 6 * 3600}
MANIFEST = {
    'engine': 'S',
    'technique': 'fault enumeration: the real scheduler is killed after its '
                 'k-th effect event (DB statement / commit, cluster launch, '
                 'callback, message dequeue, iteration boundary) - in '
                 'process with all durable operations refused from that '
                 'instant, cross-checked against os._exit in a forked child '
                 '- restarted from the private DB and compared with the '
                 'uninterrupted run',
    'level_text': 'kill points of each generated scenario: 12 sampled per '
                  'scenario incl. every boundary class (quick) / all k <= K '
                  'for scenarios with K <= 400 (thorough); scenarios sampled',
    'level_note': 'process death (_exit), not power loss: SQLite journal / '
                  'fsync ordering is trusted; kill points before the first '
                  'incarnation has finished starting up are not explored',
}
RULE = (
    'Scenario = generated workflow (<= 12 task instances; OR / offsets / '
    'custom and optional outputs / absolute triggers; no retries) + job outcome exceptions + '
    'command-return delays for the fair drain.  A reference child measures '
    'K = number of effect events of the uninterrupted run.  Quick: 12 kill '
    'points per scenario, one from each boundary class in turn (last '
    'statement before a commit, after an early commit, after the last commit '
    'of an iteration, after a jobs-submit launch, launch+1, inside the window '
    'launch..commit-of-submitted, after a callback, after a message dequeue, '
    'after a message was processed, iteration boundary, any mid-transaction '
    'statement, any k), each with a drawn amount of job progress while the '
    'scheduler is down (none / one step / to the end; messages lost) and in '
    'one quarter of them a second kill of the restarted scheduler at its '
    'effect k2 <= 90 (restart load or later).  Thorough: every k <= K '
    '(K > 400: strided), every 5th with a second kill.  One kill point of '
    'every ~6th scenario (~3rd in thorough) is also carried out by '
    'os._exit(137) in a forked child and must leave the same database and '
    'cluster file as the in-process kill.  A '
    'kill point is non-trivial iff at the kill >= 1 job had been launched '
    'and the restarted scheduler still had work to do (it launched a job or '
    'changed a task state); a scenario is non-trivial iff it has such a kill '
    'point; distinct by (scenario, set of non-trivial kill points).')
ASSUMPTIONS = [
    'Reference = the uninterrupted run of the same scenario under the same '
    'deterministic fair schedule; "runs every task instance" = the set of '
    '(cycle, task) with >= 1 jobs-submit launch on the cluster across all '
    'incarnations is a superset of the reference set; "same final outputs" '
    '= for every instance of the reference set the completed outputs in the '
    'task_outputs table at the end equal the reference\'s.  Both are decided '
    'only when reference and continued run end conclusively (shutdown or '
    'quiescence of the fair drain).',
    '"Run again in the same flow" = more distinct submit numbers launched for '
    'one instance than its retry allowance (N+1) (retries off: 1); a second '
    'launch of the SAME submit number is judged by the third clause only.',
    'Process death is emulated in process (fork + os._exit(137) costs 2-6 s '
    'per incarnation on this VM): right after effect k the incarnation is '
    'marked dead and a BaseException unwinds it; from then on every private-'
    'DB connect / execute / executemany / commit, every cluster launch and '
    'cluster record it attempts raises, no shutdown code runs, and its '
    'cursors and connections are closed without commit, so an open '
    'transaction is rolled back exactly as SQLite rolls back the hot journal '
    'of a dead process.  Equivalence for the durable state is checked, not '
    'assumed: one kill point of every ~6th scenario is also executed by '
    'os._exit(137) in a forked child and the full private DB (all tables, '
    'minus wall-clock columns and uuid), the cluster file and the kill '
    'position must be equal (evidence: fork_crosschecks, '
    'fork_crosschecks_with_hot_journal); only first-incarnation kills are '
    'cross-checked.  No power loss: SQLite journal semantics are trusted.',
    'The stale contact file of the dead scheduler is removed by the harness: '
    'this is what workflow_files.detect_old_contact_file does once `cylc '
    'psutil` (a subprocess) reports the recorded PID dead.',
    'While the scheduler is down jobs keep running on the cluster and their '
    'messages are lost (a real `cylc message` fails); messages emitted but '
    'not yet processed at the kill are lost with the process; job status '
    'stays visible to jobs-poll.',
    'jobs-poll output is synthesised in the order of the real '
    'JobRunnerManager.jobs_poll: [TASK JOB MESSAGE] lines before the '
    '[TASK JOB SUMMARY] line of each job (the shared engine emits them the '
    'other way round; overridden here).',
    'Retries are off in the generated workflows (clause 2 then reads: at '
    'most one submit number per instance).  With execution retries the '
    'check trips over a different restart defect that belongs to C02/C10/C19 '
    'and was not triaged here: TaskProxy.run_mode is None for tasks loaded '
    'from the DB, so the "retry lined up: ignore late poll result" guard of '
    '_process_message_check (run_mode == LIVE) is skipped and a failure '
    'reported both by message and by the restart poll consumes two tries.',
    'Command-return delays apply to jobs-submit; a jobs-poll (the restart '
    'poll) returns at the next process() call, so its result is never '
    'processed after a newer message of the same job (late poll results: '
    'recorded C09/C10 finding, excluded here).',
    'The virtual clock of incarnation n starts 100000 s after that of '
    'incarnation n-1 (it never runs backwards across a restart).',
    'Kill points start when the first incarnation has completed start-up '
    '(initial pool committed); killing the very first start-up is outside '
    'the domain ("a restart from the database" presupposes one).',
    'The order in which the scheduler drains the process pool inside its own '
    'shutdown loop is FIFO (engine S assumption).',
]

WID = 'c20w'
CLOCK0 = 1_000_000_000.0
CLOCK_STEP = 100_000.0
KILL_CLASSES = [
    'commit-1', 'early-commit', 'final-commit', 'launch', 'launch+1',
    'window', 'callback', 'dequeue', 'msg-done', 'iter', 'mid-tx', 'any',
]


# ---------------------------------------------------------------------------
# effect counting

class _Killed(BaseException):
    """In-process stand-in for process death (never caught by cylc: it has
    no handler for BaseException subclasses other than CancelledError /
    KeyboardInterrupt on the paths used here)."""


class Effects:
    """Counts the effect events of one incarnation and "kills" it right
    after number kill_at: os._exit in a forked child, or - in process - by
    raising _Killed after marking the incarnation dead, whereupon every
    durable operation it could still attempt (private-DB connect / execute /
    executemany / commit, cluster launch, cluster record) refuses."""

    def __init__(self, scratch: str, kill_at: int = 0, record: bool = False,
                 fork: bool = False):
        self.n = 0
        self.on = False
        self.dead = False
        self.fork = fork
        self.kill_at = kill_at
        self.record = record
        self.log = []          # kind strings (record mode)
        self.nrec = []         # cluster records written before each effect
        self.iters = []        # iteration number at each effect
        self.sim = None
        self.cluster_records = 0
        self.conns = []
        self.cursors = []
        self.info = None
        self.killinfo = os.path.join(scratch, 'c20.killinfo')

    def guard(self):
        if self.dead:
            raise _Killed()

    def hit(self, kind: str):
        if not self.on or self.dead:
            return
        self.n += 1
        if self.record:
            self.log.append(kind)
            self.nrec.append(self.cluster_records)
            self.iters.append(self.sim.iteration if self.sim else 0)
        if self.n == self.kill_at:
            self.info = {
                'n': self.n, 'kind': kind,
                'it': self.sim.iteration if self.sim else 0,
                'nrec': self.cluster_records}
            if self.fork:
                fd = os.open(self.killinfo,
                             os.O_WRONLY | os.O_CREAT | os.O_TRUNC, 0o600)
                os.write(fd, json.dumps(self.info).encode())
                os.close(fd)
                os._exit(137)
            self.dead = True
            raise _Killed()


def _conn_class(eff: Effects):
    class KConn(real_sqlite3.Connection):
        def execute(self, sql, *a):
            eff.guard()
            r = super().execute(sql, *a)
            eff.cursors.append(r)
            head = sql.lstrip()[:6].upper()
            eff.hit('r' if head == 'SELECT' else 'w')
            return r

        def executemany(self, sql, *a):
            eff.guard()
            r = super().executemany(sql, *a)
            eff.hit('x')
            return r

        def executescript(self, *a):
            raise RuntimeError('harness: executescript not expected')

        def commit(self):
            eff.guard()
            open_tx = self.in_transaction
            r = super().commit()
            eff.hit('c' if open_tx else 'c0')
            return r

        def __exit__(self, *a):
            raise RuntimeError('harness: connection context not expected')

    return KConn


class _SqliteProxy:
    """What cylc.flow.rundb sees as the sqlite3 module."""

    def __init__(self, eff: Effects):
        self._eff = eff
        self._cls = _conn_class(eff)

    def __getattr__(self, name):
        return getattr(real_sqlite3, name)

    def connect(self, path, *a, **k):
        self._eff.guard()
        if str(path).endswith(os.path.join('.service', 'db')):
            k['factory'] = self._cls
            conn = real_sqlite3.connect(path, *a, **k)
            self._eff.conns.append(conn)
            return conn
        return real_sqlite3.connect(path, *a, **k)


class ClusterFile:
    """The virtual cluster's durable state: an append-only record file."""

    def __init__(self, scratch: str):
        self.path = os.path.join(scratch, 'c20.cluster')
        self.fd = None

    def reset(self):
        with open(self.path, 'w'):
            pass

    def open(self):
        self.fd = os.open(self.path, os.O_WRONLY | os.O_APPEND | os.O_CREAT,
                          0o600)

    def close(self):
        if self.fd is not None:
            os.close(self.fd)
            self.fd = None

    def append(self, rec: list):
        os.write(self.fd, (json.dumps(rec) + '\n').encode())
        os.fsync(self.fd)

    def read(self) -> list:
        out = []
        try:
            with open(self.path) as f:
                for line in f:
                    if line.endswith('\n'):
                        out.append(json.loads(line))
        except FileNotFoundError:
            pass
        return out


# ---------------------------------------------------------------------------
# driver of one incarnation

class CDriver(Driver):
    """Driver on a fixed run directory which may already exist."""

    def __init__(self, spec, outcomes, ctx, fresh: bool):
        self.spec = spec
        self.outcomes = outcomes or {}
        self.ctx = ctx
        self.to_int, self.to_str = point_maps(spec)
        self.flow_text = render_flow(spec)
        run_dir = Path(os.environ['HOME']) / 'cylc-run' / WID
        keep = run_dir.with_name(WID + '.keep')
        if fresh:
            shutil.rmtree(keep, ignore_errors=True)
        elif run_dir.exists():
            os.rename(run_dir, keep)
        # (Sim.__init__ wipes and re-creates the run directory)
        self.sim = Sim(ctx.scratch, self.flow_text, WID)
        if not fresh and keep.exists():
            shutil.rmtree(run_dir)
            os.rename(keep, run_dir)
        self.sim._script_for = self._script_for
        self.sim._poll_lines = self._poll_lines
        self.after_loop = []
        self.after_cmd = []
        self.after_restart = []
        self.model = Model(spec)

    def _poll_lines(self, rel, job, ts):
        """As Sim._poll_lines, in the real jobs-poll order: the job's
        messages first, its summary line last."""
        lines = Sim._poll_lines(self.sim, rel, job, ts)
        return lines[1:] + lines[:1]


def _instrument(drv: CDriver, eff: Effects, cf: ClusterFile):
    """Cluster records + effect events of one incarnation."""
    sim = drv.sim
    eff.sim = sim

    def hook(kind, data):
        if kind == 'launch':
            eff.guard()
            cf.append(['L', data['cycle'], data['name'], data['submit_num'],
                       sim.incarnation])
            eff.cluster_records += 1
        elif kind == 'emit':
            eff.guard()
            cf.append(['E', data['job'], data['msg'], sim.incarnation])
            eff.cluster_records += 1

    sim.hooks.append(hook)
    orig_launch = sim.on_launch

    def on_launch(it):
        eff.guard()
        had = set(sim.jobs)
        r = orig_launch(it)
        kind = it.get('kind')
        if kind == 'jobs-submit':
            # a second jobs-submit for a (cycle, task, submit number) that
            # is already on the cluster is a new job run in the same job
            # directory: it lives its scripted life again (the engine would
            # keep the first job's state)
            for key in it.get('jobs', ()):
                if key in had:
                    script, ok = drv._script_for(*key)
                    sim.jobs[key] = Job(*key, script, ok)
        eff.hit({'jobs-submit': 'L', 'jobs-poll': 'P'}.get(kind, 'O')
                + str(it['id']))
        if kind == 'jobs-poll':
            # a poll returns at the next process() call, i.e. before any
            # message the jobs send after the poll looked at them is
            # processed: late (stale) poll results are the subject of a
            # recorded C09/C10 finding and are kept out of this domain
            return True
        return r

    sim.on_launch = on_launch
    orig_attach = sim.cluster_attach

    def cluster_attach(cluster):
        orig_attach(cluster)
        orig_exit = cluster._run_command_exit

        def _run_command_exit(ctx, *a, **k):
            r = orig_exit(ctx, *a, **k)
            it = sim.returning
            if it is not None:
                eff.hit('B' + str(it['id']))
            return r

        cluster._run_command_exit = _run_command_exit

    sim.cluster_attach = cluster_attach


def _instrument_schd(drv: CDriver, eff: Effects):
    """After start(): message dequeue / processed events."""
    schd = drv.sim.schd
    q = schd.message_queue
    orig_get = q.get

    def get(*a, **k):
        r = orig_get(*a, **k)
        eff.hit('M')
        return r

    q.get = get
    tem = schd.task_events_mgr
    orig_pm = tem.process_message
    depth = [0]

    def process_message(*a, **k):
        depth[0] += 1
        ok = False
        try:
            r = orig_pm(*a, **k)
            ok = True
            return r
        finally:
            depth[0] -= 1
            if ok and depth[0] == 0:
                eff.hit('m')

    tem.process_message = process_message


def _rebuild_cluster(drv: CDriver, records: list):
    """Harness-side cluster state from the durable records."""
    sim = drv.sim
    for rec in records:
        if rec[0] == 'L':
            _, cycle, name, sn, _inc = rec
            key = (cycle, name, sn)
            sim.journal.append(key)
            # (a repeated launch starts a new job run, see _instrument)
            script, ok = drv._script_for(cycle, name, sn)
            sim.jobs[key] = Job(cycle, name, sn, script, ok)
        elif rec[0] == 'E':
            _, rel, msg, _inc = rec
            cycle, name, nn = rel.split('/')
            job = sim.jobs[(cycle, name, int(nn))]
            got = job.next_message()
            if got != msg:
                raise HarnessError(
                    f'cluster record {rec} does not replay '
                    f'(job would emit {got!r})')


class _suppress:
    def __enter__(self):
        return self

    def __exit__(self, *a):
        return a[0] is not None and issubclass(a[0], OSError)


def _copy_db(path: str, copy_to: str) -> str:
    """Copy db + hot journal so that the scheduler under test stays the
    first opener of the real file."""
    os.makedirs(copy_to, exist_ok=True)
    tgt = os.path.join(copy_to, 'db')
    for suffix in ('', '-journal', '-wal', '-shm'):
        with _suppress():
            os.unlink(tgt + suffix)
        if os.path.exists(path + suffix):
            shutil.copy(path + suffix, tgt + suffix)
    return tgt


def _db_tables(path: str, copy_to: str = None) -> dict:
    """task_pool / task_states / task_outputs through a fresh connection."""
    if not os.path.exists(path):
        return {'pool': {}, 'states': {}, 'outputs': {}, 'prereqs': {}}
    if copy_to:
        path = _copy_db(path, copy_to)
    con = real_sqlite3.connect(path, timeout=5)
    try:
        names = {r[0] for r in con.execute(
            "SELECT name FROM sqlite_master WHERE type='table'")}
        pool, states, outputs, prereqs = {}, {}, {}, {}
        if 'task_prerequisites' in names:
            for c, n, pn, pc, po, sat in con.execute(
                    'SELECT cycle, name, prereq_name, prereq_cycle, '
                    'prereq_output, satisfied FROM task_prerequisites'):
                prereqs.setdefault(f'{c}/{n}', {})[f'{pc}/{pn}:{po}'] = (
                    sat not in (0, '0', None, ''))
        if 'task_pool' in names:
            for c, n, f, s in con.execute(
                    'SELECT cycle, name, flow_nums, status FROM task_pool'):
                pool[f'{c}/{n}'] = s
        if 'task_states' in names:
            for c, n, f, sn, s in con.execute(
                    'SELECT cycle, name, flow_nums, submit_num, status '
                    'FROM task_states'):
                states[f'{c}/{n}'] = [sn, s, f]
        if 'task_outputs' in names:
            for c, n, f, o in con.execute(
                    'SELECT cycle, name, flow_nums, outputs FROM task_outputs'):
                try:
                    flows = json.loads(f)
                except ValueError:
                    flows = []
                if 1 not in flows:
                    continue
                d = json.loads(o)
                outputs[f'{c}/{n}'] = sorted(
                    set(outputs.get(f'{c}/{n}', [])) | set(d))
    finally:
        con.close()
    return {'pool': pool, 'states': states, 'outputs': outputs,
            'prereqs': prereqs}


def _dump_db(path: str, copy_to: str) -> dict:
    """Every table of (a copy of) the private DB as sorted row lists, minus
    wall-clock columns and the run's random uuid (fork / in-process
    cross-check)."""
    if not os.path.exists(path):
        return {}
    con = real_sqlite3.connect(_copy_db(path, copy_to), timeout=5)
    out = {}
    try:
        names = sorted(r[0] for r in con.execute(
            "SELECT name FROM sqlite_master WHERE type='table'"))
        for t in names:
            cols = [r[1] for r in con.execute(f'PRAGMA table_info({t})')]
            keep = [c for c in cols if not (
                c.startswith('time') or c.endswith('_time'))]
            rows = con.execute(
                f'SELECT {", ".join(keep)} FROM {t}').fetchall()
            if t == 'workflow_params':
                rows = [r for r in rows if r[0] != 'uuid_str']
            out[t] = sorted(json.dumps(r, default=str) for r in rows)
    finally:
        con.close()
    return out


# ---------------------------------------------------------------------------
# one incarnation

class HarnessError(RuntimeError):
    pass


async def _incarnation(case, ctx, n_inc: int, kill_at: int, record: bool,
                       down: int, fork: bool):
    """Start incarnation n_inc (1 = fresh run directory) and drive it with
    the fair drain.  Returns ('done', result) or ('killed', info)."""
    import cylc.flow.rundb as rundb
    eff = Effects(ctx.scratch, kill_at=kill_at, record=record, fork=fork)
    cf = ClusterFile(ctx.scratch)
    rundb.sqlite3 = _SqliteProxy(eff)
    box = {}
    try:
        res = await _incarnation_body(case, ctx, n_inc, down, eff, cf, box)
        if eff.dead:
            raise _Killed()
        return 'done', res
    except _Killed:
        if os.environ.get('C20_TRACE') and box.get('drv') is not None:
            eff.info['trace'] = _dbg_trace(box['drv'].sim)
        return 'killed', eff.info
    finally:
        await _teardown(box.get('drv'), eff)
        cf.close()
        rundb.sqlite3 = real_sqlite3


async def _teardown(drv, eff: Effects):
    from contextlib import suppress
    sim = drv.sim if drv is not None else None
    if eff.dead:
        # abandon the scheduler object: no shutdown code may run
        if sim is not None and sim.task is not None and not sim.task.done():
            async def _no_shutdown(exc):
                raise _Killed()
            sim.schd.handle_exception = _no_shutdown
            sim.task.cancel()
            with suppress(BaseException):
                await sim.task
        # what process death does to its connections: statements dropped,
        # connection closed, never committed (an unfinalised SELECT cursor
        # kept alive by an abandoned frame would keep a closed connection -
        # and its file lock - alive)
        for cur in eff.cursors:
            with suppress(Exception):
                cur.close()
        for conn in eff.conns:
            with suppress(Exception):
                real_sqlite3.Connection.close(conn)
        if sim is not None:
            sim.crashed = None
    elif sim is not None:
        eff.on = False
        with suppress(Exception):
            await sim.force_stop()
    eff.cursors = []


async def _incarnation_body(case, ctx, n_inc, down, eff, cf, box):
    from cylc.flow.exceptions import CylcError
    from cylc.flow.parsec.exceptions import ParsecError
    from cylc.flow.scheduler import SchedulerStop
    spec, outcomes = case['spec'], case.get('outcomes') or {}
    fresh = n_inc == 1
    if fresh:
        cf.reset()
    drv = box['drv'] = CDriver(spec, outcomes, ctx, fresh=fresh)
    sim = drv.sim
    sim.clock.set(CLOCK0 + (n_inc - 1) * CLOCK_STEP)
    sim.incarnation = n_inc - 1
    cf.open()
    _instrument(drv, eff, cf)
    res = {'inc': n_inc, 'rejected': None, 'crash': None, 'db_at_crash': None}
    db_path = str(sim.run_dir / '.service' / 'db')
    if not fresh:
        res['db_at_crash'] = _db_tables(
            db_path, copy_to=os.path.join(ctx.scratch, 'c20.dbcopy'))
        with open(os.path.join(ctx.scratch, f'c20.dbat.{n_inc}'), 'w') as f:
            json.dump(res['db_at_crash'], f)
        _rebuild_cluster(drv, cf.read())
        # the scheduler is down: jobs carry on, their messages are lost
        for _ in range({0: 0, 1: 1}.get(down, 20)):
            for job in sorted(sim.live_jobs(), key=lambda j: j.key):
                msg = sim.advance(job)
                if msg is not None:
                    sim.deliver(msg)       # -> msg-lost
        with _suppress():
            os.unlink(str(sim.run_dir / '.service' / 'contact'))
        eff.on = True          # the restart load is part of the kill domain
    n_launch0 = len(sim.journal)
    try:
        await drv.start()
    except (CylcError, ParsecError) as exc:
        res['rejected'] = type(exc).__name__
        if not fresh:
            res['crash'] = f'{PROP_ID}:restart-refused:' + exc_sig(exc)
            res['crash_detail'] = repr(exc)
    except Exception as exc:
        res['rejected'] = 'startup-crash'
        res['crash'] = f'{PROP_ID}:startup-crash:' + exc_sig(exc)
        res['crash_detail'] = repr(exc)
    shut = quiescent = False
    if res['rejected'] is None:
        if sim.crashed is not None or not sim.running:
            exc = sim.crashed or sim.shutdown_reason
            if isinstance(exc, _Killed):
                raise exc
            if fresh and isinstance(exc, (CylcError, ParsecError)) \
                    and sim.iteration == 0:
                res['rejected'] = type(exc).__name__
        if res['rejected'] is None:
            _instrument_schd(drv, eff)
            eff.on = True
            eff.hit('S')
            drv.after_loop.append(lambda d: eff.hit('I'))
            kw = {}
            if case.get('ret_delays'):
                kw['ret_delays'] = case['ret_delays']
            shut, quiescent = await drv.drain(cap=600, **kw)
            if eff.dead:
                raise _Killed()
            reason = sim.shutdown_reason
            if sim.crashed is not None or (
                    reason is not None
                    and not isinstance(reason, SchedulerStop)):
                exc = sim.crashed or reason
                res['crash'] = f'{PROP_ID}:scheduler-crash:' + exc_sig(exc)
                res['crash_detail'] = repr(exc)
    eff.on = False
    # observations for the oracle / class labels
    state_changes = sum(
        1 for e in sim.trace
        if e['k'] == 'state' and e['before'][0] != e['after'][0]
        and 'load_db_task_pool_for_restart' not in e['site'])
    res.update(
        shut=shut, quiescent=quiescent, K=eff.n, log=eff.log, nrec=eff.nrec,
        iters=eff.iters,
        launched_here=len(sim.journal) - n_launch0,
        state_changes=state_changes,
        iterations=sim.iteration,
        db=_db_tables(db_path),
        pool_end=[[t['cycle'], t['name'], t['status']]
                  for t in sim.pool_snapshot()] if sim.running else None,
        flow=drv.flow_text,
    )
    if os.environ.get('C20_TRACE'):
        res['trace'] = _dbg_trace(sim)
    return res


def _dbg_trace(sim):
    return [
        {k: v for k, v in e.items()
         if k not in ('done', 'pool', 'sat', 'inc', 'timers')}
        for e in sim.trace
        if e['k'] in ('add', 'remove', 'state', 'pm', 'launch', 'deliver',
                      'msg-lost', 'return', 'poll-launch', 'stopped',
                      'shutdown', 'stalled', 'spawn-refused', 'started')]


_WARM = [False]


def _warm():
    """Import everything an incarnation needs once in the worker (forked
    children inherit it); no Sim, event loop or connection is created."""
    if _WARM[0]:
        return
    import vf.sim.engine as engine
    engine.install_patches()
    import cylc.flow.scheduler_cli  # noqa
    import cylc.flow.cfgspec.glbl_cfg  # noqa
    import cylc.flow.commands  # noqa
    import cylc.flow.network.resolvers  # noqa
    import cylc.flow.job_file  # noqa
    import cylc.flow.platforms  # noqa
    engine.VCluster.cls  # build the virtual cluster class
    _WARM[0] = True


def _load(path):
    with open(path) as f:
        return json.load(f)


def _dbat(ctx, n_inc):
    return _load(os.path.join(ctx.scratch, f'c20.dbat.{n_inc}'))


def _run_inproc(case, ctx, n_inc, kill_at=0, record=False, down=0):
    _warm()
    return run_async(_incarnation(
        case, ctx, n_inc, kill_at, record, down, fork=False))


def _run_fork(case, ctx, n_inc, kill_at=0, record=False, down=0):
    """The same incarnation in a forked child; a kill is os._exit(137)."""
    _warm()
    out_path = os.path.join(ctx.scratch, 'c20.res.json')
    err_path = os.path.join(ctx.scratch, 'c20.err')
    for p in (out_path, err_path):
        with _suppress():
            os.unlink(p)
    pid = os.fork()
    if pid == 0:
        code = 3
        try:
            signal.alarm(600)      # watchdog: never outlive the worker
            status, res = run_async(_incarnation(
                case, ctx, n_inc, kill_at, record, down, fork=True))
            with open(out_path, 'w') as f:
                json.dump(res, f)
            code = 0
        except BaseException:      # noqa
            with open(err_path, 'w') as f:
                traceback.print_exc(file=f)
        finally:
            os._exit(code)
    _, status = os.waitpid(pid, 0)
    rc = os.waitstatus_to_exitcode(status)
    if rc == 137:
        return 'killed', _load(os.path.join(ctx.scratch, 'c20.killinfo'))
    if rc != 0 or not os.path.exists(out_path):
        err = ''
        if os.path.exists(err_path):
            with open(err_path) as f:
                err = f.read()
        raise HarnessError(f'child (incarnation {n_inc}) exit {rc}\n{err}')
    return 'done', _load(out_path)


def _run(case, ctx, n_inc, kill_at=0, record=False, down=0):
    if os.environ.get('C20_FORK_ALL'):
        return _run_fork(case, ctx, n_inc, kill_at, record, down)
    return _run_inproc(case, ctx, n_inc, kill_at, record, down)


def _crosscheck_kill(case, ctx, k):
    """Kill incarnation 1 after effect k twice - by real process death in a
    forked child and in process - and require the same durable state."""
    db_path = str(Path(os.environ['HOME']) / 'cylc-run' / WID
                  / '.service' / 'db')
    cf = ClusterFile(ctx.scratch)
    tmp = os.path.join(ctx.scratch, 'c20.dbcopy')
    status, info_f = _run_fork(case, ctx, 1, kill_at=k)
    dump_f = (status, _dump_db(db_path, tmp), cf.read())
    hot = os.path.exists(db_path + '-journal')
    status, info_p = _run_inproc(case, ctx, 1, kill_at=k)
    dump_p = (status, _dump_db(db_path, tmp), cf.read())
    core = ('n', 'kind', 'it', 'nrec')
    if dump_f != dump_p or [info_f[x] for x in core] != [
            info_p[x] for x in core]:
        diff = [t for t in set(dump_f[1]) | set(dump_p[1])
                if dump_f[1].get(t) != dump_p[1].get(t)]
        raise HarnessError(
            f'in-process kill after effect {k} is not equivalent to process '
            f'death: {info_f} / {info_p}; tables differing {diff}: '
            + '; '.join(f'{t}: fork {dump_f[1].get(t)} inproc '
                        f'{dump_p[1].get(t)}' for t in diff[:3])
            + f'; cluster {dump_f[2]} / {dump_p[2]}')
    return status, info_p, hot


# ---------------------------------------------------------------------------
# kill-point classes (from the reference log)

def classify_log(log: list, iters: list) -> dict:
    """class name -> sorted list of effect numbers (1-based)."""
    K = len(log)
    pos = {c: [] for c in KILL_CLASSES}
    pos.update({'db-read': [], 'before-first-iteration': [],
                'noop-commit': [], 'poll-launch': [], 'shutdown-tail': []})
    commits = [i for i in range(K) if log[i] == 'c']
    last_commit_of_iter = {}
    for i in commits:
        last_commit_of_iter[iters[i]] = i
    finals = set(last_commit_of_iter.values())
    window = set()
    for i, kind in enumerate(log):
        if kind[0] == 'L':
            cid = kind[1:]
            j = next((x for x in range(i + 1, K) if log[x] == 'B' + cid), None)
            cj = None if j is None else next(
                (x for x in commits if x > j), None)
            end = K if cj is None else cj
            window.update(range(i, end))
    for i, kind in enumerate(log):
        k = i + 1
        if kind in ('x', 'w'):
            pos['mid-tx'].append(k)
            if i + 1 < K and log[i + 1] == 'c':
                pos['commit-1'].append(k)
        elif kind == 'c':
            pos['final-commit' if i in finals else 'early-commit'].append(k)
        elif kind == 'c0':
            pos['noop-commit'].append(k)
        elif kind == 'r':
            pos['db-read'].append(k)
        elif kind[0] == 'L':
            pos['launch'].append(k)
            if k + 1 <= K:
                pos['launch+1'].append(k + 1)
        elif kind[0] == 'P':
            pos['poll-launch'].append(k)
        elif kind[0] == 'B':
            pos['callback'].append(k)
        elif kind == 'M':
            pos['dequeue'].append(k)
        elif kind == 'm':
            pos['msg-done'].append(k)
        elif kind == 'I':
            pos['iter'].append(k)
        elif kind == 'S':
            pos['before-first-iteration'].append(k)
        if i in window:
            pos['window'].append(k)
    pos['any'] = list(range(1, K + 1))
    return pos


def labels_of(k: int, pos: dict) -> list:
    names = {
        'commit-1': 'kill:mid-transaction:last-statement-before-commit',
        'mid-tx': 'kill:mid-transaction',
        'early-commit': 'kill:between-commits:after-early-commit',
        'final-commit': 'kill:after-last-commit-of-iteration',
        'launch': 'kill:right-after-job-launch',
        'launch+1': 'kill:one-effect-after-job-launch',
        'window': 'kill:between-job-launch-and-commit-recording-it',
        'callback': 'kill:after-command-callback',
        'dequeue': 'kill:after-message-dequeue',
        'msg-done': 'kill:after-message-processed',
        'iter': 'kill:iteration-boundary',
        'db-read': 'kill:after-db-read',
        'before-first-iteration': 'kill:before-first-iteration',
        'poll-launch': 'kill:after-poll-launch',
        'noop-commit': 'kill:after-noop-commit',
    }
    return [names[c] for c in names if k in pos.get(c, ())]


def resolve_kills(kills, pos, K) -> list:
    """[(k, k2, down)] from the case's selectors; de-duplicated on k."""
    out, seen = [], set()
    if kills == 'all':
        for k in range(1, K + 1):
            # every 5th point is followed by a second kill of the restarted
            # scheduler (k2 spread over its restart load and first loops)
            out.append((k, (k * 7) % 90 + 1 if k % 5 == 0 else 0, k % 3))
        return out
    for sel in kills:
        ci, n, k2, down = sel
        cands = pos.get(KILL_CLASSES[ci % len(KILL_CLASSES)]) or pos['any']
        if not cands:
            continue
        k = cands[n % len(cands)]
        if k in seen:
            # same point again: take the n-th point overall instead
            k = pos['any'][n % K]
            if k in seen:
                continue
        seen.add(k)
        out.append((k, k2, down % 3))
    return out


# ---------------------------------------------------------------------------
# oracle

def retry_allowance(spec, name) -> int:
    r = (spec.get('retries') or {}).get(name) or {}
    return (r.get('exec', 0) + 1) * (r.get('submit', 0) + 1)


def judge(spec, ref, records, chain, final, k=0, first_commit_k=0) -> list:
    """Violations of one kill scenario.

    ref: reference child result; records: cluster records over all
    incarnations; chain: [(kill info, db-at-that-crash)] per killed
    incarnation; final: result of the last (uninterrupted) incarnation."""
    viol = []
    launches = [(r[1], r[2], r[3], r[4]) for r in records if r[0] == 'L']
    # instances hit by the one understood window: their job reached the
    # cluster in an incarnation that was killed before the commit recording
    # it as submitted (the next incarnation found the task `preparing` under
    # that submit number: it neither polls the job nor knows it exists)
    relaunched = set()
    for cyc, name, sn, inc in launches:
        ident = f'{cyc}/{name}'
        db = next((d for (_info, d, i) in chain if i == inc), None)
        if (db is not None and db['pool'].get(ident) == 'preparing'
                and (db['states'].get(ident) or [None])[0] == sn):
            relaunched.add((cyc, name))
    # instances with a custom output whose message the job had sent before
    # a crash (or while the scheduler was down) but which the database at
    # that crash did not have although the task was active there: only the
    # restart poll can recover it - unless the task completes first
    n_final = final.get('inc', 0)
    at_risk = {}
    unrestored_custom = set()
    for r in records:
        if r[0] != 'E' or r[3] >= n_final:
            continue
        cyc, name, _nn = r[1].split('/')
        ident = f'{cyc}/{name}'
        db = next((d for (_info, d, i) in chain if i == r[3]), None)
        if db is None or db['pool'].get(ident) not in (
                'submitted', 'running'):
            continue
        for o, msg in (spec.get('custom', {}).get(name) or {}).items():
            if msg != r[2]:
                continue
            if o not in db['outputs'].get(ident, ()):
                at_risk.setdefault((cyc, name), set()).add(o)
            # (a committed output is restored by the restart load - since
            # /repo b62f691 also when its message differs from its name - so
            # it is not at risk; if it goes missing that is reported under
            # the generic signature)
    lost_msg = set()
    if final.get('db'):
        for (cyc, name), outs in at_risk.items():
            got = set(final['db']['outputs'].get(f'{cyc}/{name}', ()))
            if outs - got:
                lost_msg.add((cyc, name))
    # (3) no (cycle, task, submit_num) launched twice on the cluster
    first = {}
    for cyc, name, sn, inc in launches:
        key = (cyc, name, sn)
        if key not in first:
            first[key] = inc
            continue
        # narrow classification of the one understood cause: the first
        # launch happened in an incarnation that was killed before the
        # commit recording the job as submitted, i.e. the database that
        # the next incarnation loaded still had the task as `preparing`
        # under this submit number
        # (db = what the relaunching incarnation found when it started)
        db = next((d for (info, d, i) in chain if i == inc - 1), None)
        ident = f'{cyc}/{name}'
        first_killed = any(i == first[key] for (_info, _d, i) in chain)
        prep = (db is not None and first_killed
                and db['pool'].get(ident) == 'preparing'
                and (db['states'].get(ident) or [None])[0] == sn)
        sig = f'{PROP_ID}:job-launched-twice-under-same-submit-number'
        if prep:
            sig += ':killed-between-launch-and-commit-of-submitted'
        viol.append(Violation(
            sig,
            f'{ident} submit {sn:02d}: jobs-submit reached the cluster in '
            f'incarnation {first[key]} and again in incarnation {inc}; the '
            f'database at the crash had task_pool status '
            f'{None if db is None else db["pool"].get(ident)!r}, '
            f'task_states {None if db is None else db["states"].get(ident)}'))
    # (2) no instance run again beyond its retry allowance
    subs = {}
    for cyc, name, sn, inc in launches:
        subs.setdefault((cyc, name), set()).add(sn)
    for (cyc, name), sns in sorted(subs.items()):
        allow = retry_allowance(spec, name)
        if len(sns) > allow:
            viol.append(Violation(
                f'{PROP_ID}:instance-run-again-in-same-flow',
                f'{cyc}/{name}: submit numbers {sorted(sns)} launched, retry '
                f'allowance {allow}'))
    if final.get('crash'):
        viol.append(Violation(final['crash'], final.get('crash_detail', '')))
        return viol
    # (1) nothing lost - only for conclusive runs
    ref_ok = ref['shut'] or ref['quiescent']
    fin_ok = final['shut'] or final['quiescent']
    if ref_ok and fin_ok:
        ref_set = {(r[1], r[2]) for r in ref['records'] if r[0] == 'L'}
        got_set = set(subs)
        missing = sorted(ref_set - got_set)
        if missing:
            sig = f'{PROP_ID}:instance-never-run-after-crash-restart'
            # narrow classification of two understood causes:
            # (a) the task_pool table is first written at the end of the
            #     first main-loop iteration; a scheduler killed before that
            #     commit leaves a database with an empty pool;
            # (b) TaskPool.remove() commits early: the rows of children
            #     spawned by the finishing task reach task_states (waiting,
            #     submit 0) while task_pool is only rewritten at the end of
            #     the iteration; killed in between, the restarted scheduler
            #     finds history without outputs for the child and refuses
            #     to spawn it ("task was removed")
            db1 = chain[0][1] if chain else None
            if (0 < k < first_commit_k and db1 is not None
                    and not db1['pool'] and missing == sorted(ref_set)):
                sig += ':killed-before-first-task-pool-commit'
            else:
                to_int, _to_str = point_maps(spec)
                model = Model(spec)
                miss = set(missing)
                dbs = [d for (_i, d, _n) in chain if d is not None]
                active = ('preparing', 'submitted', 'running')

                def atoms(m):
                    p = to_int.get(m[0])
                    if p is None:
                        return []
                    return [(f'{_to_str.get(q)}/{u}', u, o)
                            for (u, q, o) in model.real_atoms(m[1], p)]

                def orphan(m):
                    # row of a spawned child flushed by an early commit
                    # (TaskPool.remove(), absolute outputs): in task_states
                    # (waiting, submit 0) but not in task_pool, which is
                    # rewritten only at the end of the iteration.  (An EMPTY
                    # task_pool is a different state - torn rewrite, or the
                    # first-iteration case above - and is not accepted.)
                    ident = f'{m[0]}/{m[1]}'
                    return any(
                        d['pool'] and ident not in d['pool']
                        and (d['states'].get(ident) or [None, None])[:2]
                        == [0, 'waiting'] for d in dbs)

                def behind_committed_output(m):
                    # an upstream output was already committed as complete
                    # (early commit of an absolute-trigger output) while the
                    # database had neither spawned m nor satisfied its
                    # prerequisite on that output
                    ident = f'{m[0]}/{m[1]}'
                    for d in dbs:
                        for (up, u, o) in atoms(m):
                            if o not in d['outputs'].get(up, ()):
                                continue
                            if d['pool'].get(up) not in active:
                                continue
                            msg = spec.get('custom', {}).get(u, {}).get(o, o)
                            if ident not in d['pool'] \
                                    and ident not in d['states']:
                                return True
                            pr = d['prereqs'].get(ident, {})
                            if d['pool'].get(ident) == 'waiting' and any(
                                    key in pr and not pr[key]
                                    for key in (f'{up}:{o}', f'{up}:{msg}')):
                                return True
                    return False

                roots = {m for m in miss if orphan(m)}
                roots_e = {m for m in miss if behind_committed_output(m)}

                def downstream(m, of):
                    return any((up.split('/', 1)[0], u) in of
                               for (up, u, _o) in atoms(m))
                def behind_lost_message(m):
                    # m waits for exactly an output whose message was lost
                    # in the crash (received but uncommitted, or sent while
                    # the scheduler was down); the task then completed
                    # before the restart poll returned, and the polled
                    # message for a task no longer in the pool does not
                    # satisfy / spawn anything
                    return any(
                        o in at_risk.get((up.split('/', 1)[0], u), ())
                        for (up, u, o) in atoms(m))

                def after_missing_parentless(m):
                    # parentless instances are spawned one after the other
                    # (when the previous one leaves the runahead pool): the
                    # successor of a lost parentless instance is lost too
                    p = to_int.get(m[0])
                    if p is None or not model.parentless(m[1], p):
                        return False
                    prev = [q for q in model.valid.get(m[1], ()) if q < p]
                    return bool(prev) and (
                        _to_str.get(max(prev)), m[1]) in miss

                def after_orphan(m):
                    # the orphaned child itself need not be among the
                    # missing launches (the uninterrupted run may never have
                    # launched it either): a parentless instance is only
                    # spawned as the successor of the task's previous
                    # instance, so it is lost with that orphaned instance
                    p = to_int.get(m[0])
                    if p is None or not model.parentless(m[1], p):
                        return False
                    prev = [q for q in model.valid.get(m[1], ()) if q < p]
                    return bool(prev) and orphan(
                        (_to_str.get(max(prev)), m[1]))

                roots_o = {m for m in miss if after_orphan(m)}
                if all(m in roots or m in roots_e or m in roots_o
                       or downstream(m, miss)
                       or downstream(m, relaunched)
                       or behind_lost_message(m)
                       or after_missing_parentless(m) for m in miss):
                    if roots or roots_o:
                        sig += (':spawned-child-in-task_states-but-not-in-'
                                'task_pool-at-crash')
                    elif roots_e:
                        sig += (':output-committed-before-children-spawned-'
                                'or-satisfied')
                    elif any(behind_lost_message(m) for m in miss):
                        sig += (':downstream-of-output-message-lost-in-'
                                'crash-and-task-completed-before-restart-'
                                'poll-returned')
                    else:
                        # consequence of the launch / commit window: the
                        # first job run reports to a scheduler that thinks
                        # the task is still to be submitted; outputs it
                        # reported while the scheduler was down are lost
                        sig += (':downstream-of-job-launched-before-crash-'
                                'but-db-still-preparing')
            viol.append(Violation(
                sig,
                f'the uninterrupted run launched {sorted(ref_set)}; across '
                f'the crash and restart {missing} never reached the cluster '
                f'(final pool {final.get("pool_end")}, ended '
                f'{"shutdown" if final["shut"] else "quiescent"})'))
        diffs = []
        diff_ids = []
        for (cyc, name) in sorted(ref_set & got_set):
            ident = f'{cyc}/{name}'
            want = ref['db']['outputs'].get(ident, [])
            got = final['db']['outputs'].get(ident, [])
            if want != got:
                diffs.append(f'{ident}: reference {want}, after restart {got}')
                diff_ids.append(ident)
        if diffs and not missing:
            sig = f'{PROP_ID}:final-outputs-differ-from-uninterrupted-run'
            # narrow classification of two understood causes:
            # (a) restart load, not the crash: completed outputs are
            #     restored only for tasks loaded as running / succeeded /
            #     failed, so a retained submit-failed task comes back
            #     without its submit-failed output;
            # (b) the instance itself was hit by the launch / commit window
            #     above: the restarted scheduler does not poll it, messages
            #     sent while it was down are lost, the task completes on the
            #     first run's "succeeded" (before or after the relaunch)

            def unrestored(ident):
                want = set(ref['db']['outputs'].get(ident, []))
                got = set(final['db']['outputs'].get(ident, []))
                return (want - got == {'submit-failed'} and got <= want
                        and any(d is not None
                                and d['pool'].get(ident) == 'submit-failed'
                                for (_i, d, _n) in chain))
            groups = {}
            for ident, text in zip(diff_ids, diffs):
                cyc, name = ident.split('/', 1)
                if (cyc, name) in relaunched:
                    g = ':job-launched-before-crash-but-db-still-preparing'
                elif unrestored(ident):
                    g = ':submit-failed-output-not-restored-on-restart'
                elif ((cyc, name) in lost_msg
                      and set(final['db']['outputs'].get(ident, ()))
                      <= set(ref['db']['outputs'].get(ident, ()))
                      and set(ref['db']['outputs'].get(ident, ()))
                      - set(final['db']['outputs'].get(ident, ()))
                      <= at_risk[(cyc, name)]):
                    # (c) the message of a custom output was received but
                    #     not yet committed when the scheduler died; after
                    #     the restart the job's "succeeded" was processed
                    #     before the restart poll returned, the task left
                    #     the pool and the polled message was ignored
                    g = (':output-message-lost-in-crash-and-task-completed-'
                         'before-restart-poll-returned')
                    if (cyc, name) in unrestored_custom:
                        g = (':custom-output-not-restored-at-restart-load-'
                             'and-task-completed-before-restart-poll-'
                             'returned')
                else:
                    g = ''
                groups.setdefault(g, []).append(text)
            for g, texts in sorted(groups.items()):
                viol.append(Violation(sig + g, '; '.join(texts)))
    return viol


# ---------------------------------------------------------------------------

@st.composite
def cases(draw, tier='quick'):
    pf = {'max_tasks': 4, 'max_fcp': 3, 'min_tasks': 2}
    # retries are off in the generated domain (see ASSUMPTIONS); the switch
    # and the oracle's retry allowance are kept for hand-written cases
    with_retries = False
    spec = draw(wfspecs(pf))
    n_inst = len(Model(spec).instances())
    if n_inst > 12:
        spec['fcp'] = 2
        from vf.gen.wfspec import _repair
        _repair(spec)
    if with_retries:
        for t in spec['tasks']:
            if draw(st.booleans()):
                spec['retries'][t] = {'exec': draw(st.integers(1, 2)),
                                      'submit': 0}
    outcomes = draw(outcome_maps(spec, max_subs=2 if with_retries else 1))
    if with_retries:
        # make a retry actually happen: first job of some instance of a
        # task with retries fails, the second does the default
        insts = [(t, p) for (t, p) in Model(spec).instances()
                 if t in spec['retries']]
        if insts and draw(st.integers(0, 3)) != 0:
            t, p = draw(st.sampled_from(insts))
            outcomes[f'{p}/{t}'] = [{'final': 'failed'}, {'final': None}]
    ret_delays = draw(st.lists(st.integers(0, 2), max_size=4))
    case = {'spec': spec, 'outcomes': outcomes, 'ret_delays': ret_delays}
    # one kill point of some scenarios is also carried out by real process
    # death in a forked child and must leave the same durable state
    if draw(st.integers(0, XFORK_ONE_IN[tier] - 1)) == 1:
        case['xfork'] = draw(st.integers(0, 400))
    if tier == 'thorough':
        case['kills'] = 'all'
    else:
        kills = []
        for i in range(KILLS_PER_SCENARIO):
            k2 = draw(st.integers(1, 90)) if draw(st.integers(0, 3)) == 0 else 0
            kills.append([i, draw(st.integers(0, 400)), k2,
                          draw(st.integers(0, 2))])
        case['kills'] = kills
    return case


def check_case(case, ctx: Ctx) -> CaseResult:
    try:
        return _check_case(case, ctx)
    finally:
        shutil.rmtree(Path(os.environ['HOME']) / 'cylc-run' / WID,
                      ignore_errors=True)
        shutil.rmtree(Path(os.environ['HOME']) / 'cylc-run' / (WID + '.keep'),
                      ignore_errors=True)


def _check_case(case, ctx: Ctx) -> CaseResult:
    spec = case['spec']
    cf = ClusterFile(ctx.scratch)
    extra = ctx.col.extra
    # 1. reference = dry run
    status, ref = _run(case, ctx, 1, record=True)
    if ref['rejected']:
        if ref['rejected'] != 'startup-crash':
            ctx.col.rejected += 1
        v = [Violation(ref['crash'], ref.get('crash_detail', ''))] \
            if ref.get('crash') else []
        return CaseResult(v, False, ['rejected:' + ref['rejected']])
    ref['records'] = cf.read()
    if ref.get('crash'):
        # the uninterrupted run itself aborts: not this property's subject
        return CaseResult([], False, ['reference-run-crashed'],
                          inconclusive=True)
    K = ref['K']
    pos = classify_log(ref['log'], ref['iters'])
    classes = set()
    if not (ref['shut'] or ref['quiescent']):
        classes.add('reference-inconclusive')
    kills = resolve_kills(case['kills'], pos, K)
    if case['kills'] == 'all' and K > 400:
        kills = kills[::max(1, K // 400 + 1)]
        classes.add('K>400:strided')
    viol = []
    nontrivial_ks = []
    incon = False
    kstat = Counter()
    first_commit_k = (pos['final-commit'] + pos['early-commit'] + [K + 1])
    first_commit_k = min(first_commit_k)
    xfork = None
    if case.get('xfork') is not None and kills:
        xfork = kills[case['xfork'] % len(kills)][0]
    for (k, k2, down) in kills:
        kstat['kill_points'] += 1
        # 2. incarnation 1 killed after effect k
        if xfork is not None and k == xfork:
            status, info, hot = _crosscheck_kill(case, ctx, k)
            kstat['fork_crosschecks'] += 1
            if hot:
                kstat['fork_crosschecks_with_hot_journal'] += 1
        else:
            status, info = _run(case, ctx, 1, kill_at=k)
        if status != 'killed':
            raise HarnessError(
                f'kill point {k} <= K={K} not reached on replay')
        records = cf.read()
        if records != ref['records'][:ref['nrec'][k - 1]] or \
                info['kind'] != ref['log'][k - 1]:
            raise HarnessError(
                f'replay of the scenario diverged before effect {k}: '
                f'{info} vs {ref["log"][k - 1]}; cluster {records} vs '
                f'{ref["records"][:ref["nrec"][k - 1]]}')
        labs = labels_of(k, pos)
        chain = []
        n_inc = 2
        # 3. restart (optionally killed again), drain
        kill_next = k2
        while True:
            status, res = _run(case, ctx, n_inc, kill_at=kill_next,
                                 down=down)
            if status == 'killed':
                # the killed child cannot report: its view of the previous
                # crash is re-read by the next one; remember where it died
                chain.append((res, None, n_inc))
                labs.append('kill2:during-restart-load' if res['it'] == 0
                            else 'kill2:after-restart')
                kstat['second_kills'] += 1
                n_inc += 1
                kill_next = 0
                continue
            break
        final = res
        # database as it was after each crash (written by the successor of
        # each killed incarnation before it started its scheduler)
        chain = [(info, _dbat(ctx, 2), 1)] + [
            (inf, _dbat(ctx, inc_no + 1), inc_no)
            for (inf, _d, inc_no) in chain]
        v = judge(spec, ref, cf.read(), chain, final, k=k,
                  first_commit_k=first_commit_k)
        conclusive = final['shut'] or final['quiescent']
        if not conclusive:
            incon = True
            labs.append('continued-run-inconclusive')
        launched_before = ref['nrec'][k - 1] and any(
            r[0] == 'L' for r in ref['records'][:ref['nrec'][k - 1]])
        had_work = final['launched_here'] > 0 or final['state_changes'] > 0
        if launched_before and had_work:
            nontrivial_ks.append(k)
            kstat['nontrivial_kill_points'] += 1
        if final['launched_here']:
            labs.append('restart:launched-jobs')
        if (final['db_at_crash'] or {}).get('pool') and any(
                s == 'preparing'
                for s in final['db_at_crash']['pool'].values()):
            labs.append('restart:db-had-preparing-task')
        if (final['db_at_crash'] or {}).get('pool') and any(
                s in ('submitted', 'running')
                for s in final['db_at_crash']['pool'].values()):
            labs.append('restart:db-had-active-job')
        labs.append(f'down:{("frozen", "one-step", "to-the-end")[down]}')
        for lab in labs:
            kstat[lab] += 1
        classes.update(labs)
        for x in v:
            x.detail = (f'kill after effect {k}/{K} '
                        f'({ref["log"][k - 1]}, iteration '
                        f'{ref["iters"][k - 1]}; {",".join(labs_short(labs))}'
                        f'; k2={k2}, down={down}): ' + x.detail)
        viol.extend(v)
    # bookkeeping for the evidence
    kp = extra.setdefault('kill_points', {})
    for name, n in kstat.items():
        kp[name] = kp.get(name, 0) + n
    kh = extra.setdefault('K_histogram', {})
    bucket = f'{(K // 50) * 50:03d}-{(K // 50) * 50 + 49:03d}'
    kh[bucket] = kh.get(bucket, 0) + 1
    if spec.get('retries'):
        classes.add('scenario:retries-configured')
    if any(r[0] == 'L' and r[3] > 1 for r in ref['records']):
        classes.add('scenario:retry-consumed-in-reference')
    uniq = {}
    for x in viol:
        uniq.setdefault(x.sig, x)
    return CaseResult(
        list(uniq.values()), bool(nontrivial_ks), sorted(classes),
        inconclusive=incon,
        distinct_key=[case['spec'], case.get('outcomes'),
                      case.get('ret_delays'), sorted(nontrivial_ks)],
        info={'flow': ref['flow'], 'K': K,
              'kill_points': [k for k, _, _ in kills]})


def labs_short(labs):
    return [x.split(':', 1)[1] for x in labs if x.startswith('kill')]


def run_shard(ctx: Ctx):
    hyp_run(ctx, cases(ctx.tier), check_case, ctx.share(BUDGET[ctx.tier]))


# ---------------------------------------------------------------------------
# stand-alone demonstration entry (used by findings/C20_*.py)

def explain(case, scratch=None, fork=True):
    """Run one scenario (its kill points by REAL process death in forked
    children when fork=True) and print what happened."""
    import tempfile
    from vf.core import Collector
    made = scratch is None
    if made:
        scratch = tempfile.mkdtemp(prefix='c20-explain-')
        os.environ['HOME'] = os.path.join(scratch, 'home')
        os.environ['CYLC_CONF_PATH'] = os.path.join(scratch, 'conf')
        os.makedirs(os.environ['HOME'], exist_ok=True)
        os.makedirs(os.environ['CYLC_CONF_PATH'], exist_ok=True)
        os.chdir(scratch)
    os.environ['C20_TRACE'] = '1'
    if fork:
        os.environ['C20_FORK_ALL'] = '1'
    ctx = Ctx(PROP_ID, 'quick', 1, 0, 1, scratch, Collector(PROP_ID))
    ctx.col.known = {}
    g = globals()
    orig = g['_run']

    def show(e):
        k, it = e['k'], e['it']
        if k == 'state':
            if e['before'][0] != e['after'][0]:
                print(f"      [{it}] {e['cycle']}/{e['name']}: "
                      f"{e['before'][0]} -> {e['after'][0]} (submit "
                      f"{e['submit_num']:02d}) in {e['site'][:1]}")
        elif k == 'pm':
            print(f"      [{it}] message {e['msg']!r} {e['flag']} for "
                  f"{e['cycle']}/{e['name']}: outputs now {e['after'][2]}")
        elif k in ('add', 'remove'):
            print(f"      [{it}] {k} {e['cycle']}/{e['name']} "
                  f"{e.get('outputs', '')}")
        elif k == 'launch':
            print(f"      [{it}] JOBS-SUBMIT reaches the cluster: "
                  f"{e['cycle']}/{e['name']}/{e['submit_num']:02d}")
        elif k in ('poll-launch', 'spawn-refused', 'stalled', 'shutdown',
                   'msg-lost', 'deliver'):
            print(f"      [{it}] {k} "
                  f"{ {a: b for a, b in e.items() if a not in ('k', 'it')} }")

    def run(case, ctx, n_inc, kill_at=0, record=False, down=0):
        status, res = orig(case, ctx, n_inc, kill_at, record, down)
        what = 'uninterrupted reference run' if record else (
            f'incarnation {n_inc}'
            + (f', killed by os._exit(137) after its effect {kill_at} '
               f'({res.get("kind")}, main-loop iteration {res.get("it")})'
               if status == 'killed' else ' (runs to the end)'))
        print(f'--- {what}')
        if res.get('db_at_crash'):
            d = res['db_at_crash']
            print(f'    private DB found by this incarnation: task_pool '
                  f'{d["pool"]}; task_states {d["states"]}; task_outputs '
                  f'{d["outputs"]}')
        for e in res.get('trace') or ():
            show(e)
        if status == 'done':
            print(f'    ended: shutdown={res["shut"]} quiescent='
                  f'{res["quiescent"]}; final task_outputs '
                  f'{res["db"]["outputs"]}; pool {res["pool_end"]}')
        return status, res

    g['_run'] = run
    try:
        print(render_flow(case['spec']))
        print('job outcomes (exceptions to "succeed, emit every output"):',
              case.get('outcomes') or {})
        res = check_case(case, ctx)
    finally:
        g['_run'] = orig
        os.environ.pop('C20_FORK_ALL', None)
        os.environ.pop('C20_TRACE', None)
        if made:
            os.chdir('/')
            shutil.rmtree(scratch, ignore_errors=True)
    print()
    for v in res.violations:
        print('VIOLATION', v.sig)
        print('   ', v.detail)
    if not res.violations:
        print('no violation')
    return res
