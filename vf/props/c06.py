"""C06 Held tasks never submit; holds persist and apply to future instances."""
from __future__ import annotations

from hypothesis import strategies as st

from vf.core import CaseResult, Ctx, Violation, hyp_run
from vf.gen.wfspec import wfspecs
from vf.sim.c06c43_util import (
    read_db, return_polls_promptly, run_schedule_ext, scheduler_holds,
    wrap_commands)
from vf.sim.drive import SCase, outcome_maps, run_async

PROP_ID = 'C06'
LEVEL = 'exploration'
BUDGET = {'quick': 400, 'thorough': 8000}
MANIFEST = {
    'engine': 'S',
    'technique': 'stateful model-based PBT on the stepped scheduler: a model '
                 'of the held set / hold point built from the issued commands '
                 'is compared with every entry into job preparation, every '
                 'spawn, the pool after each restart and the DB tables',
}
RULE = (
    'Generated workflow (C01 domain, <=4 tasks, <=5 cycles, optional retries, '
    'optional [scheduling]hold after cycle point, optional default queue '
    'limit 1-2), outcomes, and a history of <=45 steps over loop / return / '
    'advance / deliver / fair-rounds plus the commands hold and release (of a '
    'pooled task or of any model instance, i.e. also finished or not yet '
    'spawned ones), hold-point, release-hold-point, trigger, pause, resume '
    'and restart (real stop --now or clean stop, jobs optionally carry on '
    'while down, new scheduler on the same run dir); then resume + fair '
    'drain, a short tail of release / release-hold-point / trigger / restart '
    'commands and a second drain.  A model keeps the set of held instances '
    'and the hold point from the commands alone (hold adds; release discards; '
    'hold-point p adds every pooled instance beyond p and every instance '
    'entering the pool beyond p; release-hold-point clears; trigger of an '
    'instance outside the pool releases it).  Oracle: (1) no task proxy whose '
    'held flag is set, and (2) no instance the model says is held, enters the '
    'preparing state unless it carries the manual-submit flag or a trigger '
    'command named it after it was last held; (3) an instance held while '
    'outside the pool, or beyond the hold point, has the held flag when it '
    'is added to the pool; (4) at every restart the held flag of every '
    'pooled task, the tasks-to-hold set and the hold point right after the '
    'load must equal either what the scheduler had at shutdown or the model '
    '(a difference from both is a violation), and the tasks_to_hold / '
    'workflow_params(holdcp) tables read through a fresh connection while '
    'the scheduler is down must likewise equal one of the two.  Non-trivial '
    '= a held task was otherwise ready to run (prerequisites satisfied, not '
    'runahead limited) at the end of some iteration, or a hold placed on an '
    'absent instance / the hold point took effect at spawn, or a restart '
    'happened with holds in place; distinct by the whole case.')
ASSUMPTIONS = [
    'Weakest reading of "held": the task proxy has the held flag, or the '
    'instance was named by an accepted hold command / lies beyond the hold '
    'point in effect when it entered the pool (or when the hold point was '
    'set) and no release / release-hold-point / trigger has named it since.',
    '"Manually triggered" = the proxy carries is_manual_submit when it enters '
    'preparation, or a trigger command named the instance after its latest '
    'hold.',
    '"Enters job preparation" = the status change to preparing.  Holding a '
    'submitted/running task does not affect its current job (nothing is '
    'asserted about jobs already preparing or active when the hold arrives).',
    '"Survive a restart": state right after the load is compared with the '
    'state at shutdown and with the model; only a value that differs from '
    'both is reported.  With [scheduling]hold after cycle point configured, '
    'a restart after release-hold-point re-applies the configured point '
    '(documented priority: DB/CLI value, else configuration); the model '
    'follows that and re-holds every pooled instance beyond it.',
    'kill, remove and set are not in the command alphabet (kill and '
    'remove hold the tasks they act on, which the statement does not cover); '
    'reload (definition unchanged) is: it must not disturb holds.',
    'Command IDs name single instances (no globs / families).',
    'The restart poll returns in the main-loop iteration after the one '
    'that launched it (a poll result that arrives after newer job messages is the '
    'recorded C09/C10 late-poll-result finding and is kept out of the '
    'schedules).',
    'Status changes are taken from the pooled task proxy only (state events '
    'of data-store ghost proxies / proxies rebuilt from DB history are '
    'dropped by comparing with the pooled proxy and the call site).',
    'Known finding (own narrow signature ...:hold-dropped-by-pool-removal): '
    'TaskPool.remove() discards the removed proxy from tasks_to_hold, so an '
    'instance held by command whose proxy leaves the pool (removed as a side '
    'effect of re-triggering its parent, or on completion) is not held when '
    'it is spawned again.  The model keeps such an instance held (the '
    'statement speaks of instances); its later unheld submission is reported '
    'under that signature only, and its unheld re-spawn is not reported '
    'separately.',
]

CMD_OPS = ['hold', 'hold', 'hold', 'release', 'release', 'hold-point',
           'release-hold-point', 'trigger', 'pause', 'resume', 'restart',
           'reload']
BASE_OPS = ['loop', 'loop', 'loop', 'ret', 'adv', 'del', 'del', 'fair',
            'fair']


@st.composite
def cases(draw):
    spec = draw(wfspecs({'max_tasks': 4, 'max_fcp': 5, 'retries': True,
                         'abs': False, 'future': False}))
    if draw(st.integers(0, 2)) == 0:
        spec['extra']['hold_after'] = draw(
            st.integers(spec['icp'], spec['fcp']))
    if draw(st.integers(0, 3)) == 0:
        spec['extra']['queues'] = [
            {'name': 'default', 'limit': draw(st.integers(1, 2))}]
    outcomes = draw(outcome_maps(spec))
    step = st.tuples(st.sampled_from(BASE_OPS + CMD_OPS),
                     st.integers(0, 31)).map(list)
    # early commands (before much has been spawned) so that holds of absent
    # instances and the hold point meet later spawning
    early = draw(st.lists(
        st.tuples(st.sampled_from(['hold', 'hold', 'hold-point', 'fair']),
                  st.integers(0, 31)).map(list), max_size=3))
    sched = early + draw(st.lists(step, min_size=8, max_size=42))
    tail = draw(st.lists(
        st.tuples(st.sampled_from(
            ['release', 'release', 'release-hold-point', 'trigger',
             'restart', 'hold', 'fair']),
            st.integers(0, 31)).map(list), max_size=5))
    if draw(st.integers(0, 3)) == 0:
        # scripted ending: a task t with required success fails (retained as
        # incomplete), is held, and its parent u is re-run in a new flow,
        # which reaches t again (absorbs and re-queues it): t must stay held
        from vf.gen.wfspec import atoms_of
        from vf.sim.model import Model
        model = Model(spec)
        insts = model.instances()
        pairs = []
        for sec in spec['sections']:
            for ln in sec['lines']:
                for a in atoms_of(ln['lhs']):
                    if (not a.get('off') and a.get('abs') is None
                            and a['out'] == 'succeeded'):
                        for t in ln['rhs']:
                            o = spec['opt'].get(t, {})
                            if t != a['t'] and not o.get('succ') and \
                                    not o.get('fail_required'):
                                pairs.append((a['t'], t))
        if pairs:
            u, t = draw(st.sampled_from(sorted(set(pairs))))
            pts = sorted(set(model.valid[u]) & set(model.valid[t]))
            if pts:
                p = draw(st.sampled_from(pts))
                outcomes[f'{p}/{t}'] = [{'final': 'failed'}]
                spec['retries'].pop(t, None)
                n_t = 2 * insts.index((t, p)) + 1
                n_u = 2 * insts.index((u, p)) + 1
                tail = [['hold', n_t], ['trigger', n_u, ['new'], False],
                        ['fair', 3], ['fair', 3]]
    # some triggers start a new flow (a flow that reaches a held, finished
    # but incomplete task absorbs it and re-queues it: it must stay held)
    for stp in sched + tail:
        if stp[0] == 'trigger' and len(stp) == 2 and \
                draw(st.integers(0, 2)) == 0:
            stp.extend([['new'], False])
    return {'spec': spec, 'outcomes': outcomes, 'schedule': sched,
            'tail': tail}


def check_case(case, ctx: Ctx) -> CaseResult:
    return run_async(_check(case, ctx))


class HoldModel:
    """Held set and hold point from the issued commands (never from cylc's
    tasks_to_hold); pool membership is observed."""

    def __init__(self, sc):
        self.sc = sc
        self.sim = sc.sim
        self.to_int = sc.drv.to_int
        self.to_str = sc.drv.to_str
        self.cfg_h = sc.spec['extra'].get('hold_after')
        self.H = self.cfg_h
        self.T: set = set()
        self.exempt: set = set()        # triggered since last held
        # held (model) instances whose proxy was removed from the pool: the
        # scheduler drops the hold at that moment (TaskPool.remove)
        self.dropped: set = set()
        self.in_trigger = None          # instance named by the running trigger
        self.down = False
        self.unsure = False
        self.viol: list = []
        self.classes: set = set()
        self.before: dict = {}          # scheduler's own state at shutdown
        self.db_down: dict = {}
        self.restarts = 0
        self.diag: list = []
        self.T_down: set = set()
        self.H_down = None
        # start-up: the configured hold point was applied to the first pool
        if self.H is not None:
            self.classes.add('cfg-hold-after')
            for t in self.sim.pool_snapshot():
                if self.pt(t['cycle']) > self.H:
                    self.T.add(f'{t["cycle"]}/{t["name"]}')

    def pt(self, cycle):
        p = self.to_int.get(cycle)
        return p if p is not None else -10 ** 6

    def is_pool_event(self, ident, ev) -> bool:
        """The engine's state monitor also sees TaskProxy objects that are
        not pool members (ghost proxies the data store builds for window
        nodes, proxies built from DB history with their recorded status):
        keep only changes of the pooled proxy itself."""
        schd = self.sim.schd
        itask = schd.pool._get_task_by_id(ident) if schd else None
        if itask is None:
            return False
        st = itask.state
        now = [st.status, st.is_held, st.is_queued, st.is_runahead]
        return ([bool(x) if i else x for i, x in enumerate(now)]
                == [bool(x) if i else x for i, x in enumerate(ev['after'])]
                and itask.submit_num == ev['submit_num'])

    def v(self, sig, detail):
        self.viol.append(Violation('C06:' + sig, detail))

    # -- trace hook ---------------------------------------------------------
    def on_ev(self, kind, ev):
        if kind == 'add':
            ident = f'{ev["cycle"]}/{ev["name"]}'
            p = self.pt(ev['cycle'])
            if self.down or self.unsure:
                return      # restart load: decided in after_restart
            if ident in self.T:
                if ident in self.dropped:
                    self.classes.add('respawn-after-held-proxy-removed')
                elif not ev['held']:
                    self.v('held-absent-instance-spawned-unheld',
                           f'{ident} was held while outside the pool (model '
                           f'held set {sorted(self.T)}) but entered the pool '
                           f'at iteration {ev["it"]} without the held flag')
                else:
                    self.classes.add('future-hold-took-effect')
            elif self.H is not None and p > self.H:
                if not ev['held']:
                    self.v('spawned-unheld-beyond-hold-point',
                           f'{ident} entered the pool at iteration '
                           f'{ev["it"]} without the held flag; hold point '
                           f'{self.H}')
                else:
                    self.classes.add('hold-point-took-effect-on-spawn')
                self.T.add(ident)
                if ident != self.in_trigger:
                    # (an instance (re)spawned by the trigger command that
                    # names it stays "manually triggered")
                    self.exempt.discard(ident)
            if ev['held']:
                self.dropped.discard(ident)
        elif kind == 'remove':
            ident = f'{ev["cycle"]}/{ev["name"]}'
            if ident in self.T and not self.down:
                self.dropped.add(ident)
                self.classes.add('held-proxy-removed-from-pool')
        elif kind == 'state':
            ident = f'{ev["cycle"]}/{ev["name"]}'
            b, a = ev['before'], ev['after']
            if not self.is_pool_event(ident, ev):
                return
            if a[1] and a[2]:
                self.classes.add('queued-and-held')
            if (a[1] and not b[1] and b[0] in ('submitted', 'running')):
                self.classes.add('hold-active-task')
            if a[0] == 'preparing' and b[0] != 'preparing' and (
                    'prep_submit_task_jobs' in ev['site']
                    or 'submit_nonlive_task_jobs' in ev['site']):
                manual = bool(ev.get('manual')) or ident in self.exempt
                if b[1]:
                    if manual:
                        self.classes.add('held-task-ran-by-trigger')
                    else:
                        self.v('held-task-entered-preparation',
                               f'{ident} has the held flag but entered the '
                               f'preparing state at iteration {ev["it"]} '
                               f'(call sites {ev.get("site")}), not manually '
                               f'triggered')
                elif ident in self.T and not self.unsure:
                    if manual:
                        self.classes.add('held-task-ran-by-trigger')
                    else:
                        sig = 'model-held-instance-entered-preparation'
                        if ident in self.dropped:
                            sig += ':hold-dropped-by-pool-removal'
                        self.v(sig,
                               f'{ident} was held by command / hold point '
                               f'(model held set {sorted(self.T)}, hold point '
                               f'{self.H}) and not released or triggered '
                               f'since, but entered the preparing state at '
                               f'iteration {ev["it"]} with the held flag '
                               f'unset')
        elif kind == 'shutdown':
            held, hp = scheduler_holds(self.sim)
            self.before = {
                'pool': {f'{t["cycle"]}/{t["name"]}': bool(t['held'])
                         for t in ev['pool']},
                'T': set(held), 'H': hp}
        elif kind == 'stopped':
            self.down = True
            self.db_down = read_db(self.sim)
            # model state when the scheduler went down
            self.T_down = set(self.T)
            self.H_down = self.H
        elif kind == 'started':
            self.down = False

    # -- command hooks ------------------------------------------------------
    def pre(self, name, info):
        if name == 'trigger':
            ident = info['task']
            self.in_trigger = ident
            self.exempt.add(ident)
            pooled = {f'{t["cycle"]}/{t["name"]}'
                      for t in self.sim.pool_snapshot()}
            if ident not in pooled:
                # trigger overrides the hold of an instance it (re)spawns
                self.T.discard(ident)
                self.dropped.discard(ident)

    def post(self, name, info, ev):
        self.classes.add('cmd:' + name)
        self.in_trigger = None
        if ev.get('err'):
            self.unsure = True
            self.classes.add('command-error')
            return
        if name == 'hold':
            self.T.add(info['task'])
            self.exempt.discard(info['task'])
            self.dropped.discard(info['task'])
        elif name == 'release':
            if info['task'] in self.T:
                self.classes.add('release-of-held')
            self.T.discard(info['task'])
            self.dropped.discard(info['task'])
        elif name == 'hold-point':
            self.H = info['point']
            for t in ev['before']:
                if self.pt(t['cycle']) > self.H:
                    ident = f'{t["cycle"]}/{t["name"]}'
                    self.T.add(ident)
                    self.exempt.discard(ident)
                    self.dropped.discard(ident)
        elif name == 'release-hold-point':
            self.H = None
            self.T.clear()
            self.dropped.clear()

    # -- per-iteration observation -------------------------------------------
    def after_loop(self, drv):
        if not self.sim.running:
            return
        for t in self.sim.pool_snapshot():
            ident = f'{t["cycle"]}/{t["name"]}'
            if (t['held'] and t['status'] == 'waiting' and t['prereqs_all']
                    and not t['runahead']
                    and all(t['xtriggers'].values())):
                self.classes.add('held-task-otherwise-ready')
            if not self.unsure and ident not in self.dropped and \
                    bool(t['held']) != (ident in self.T):
                self.classes.add('diag:pool-held-flag-differs-from-model')
                if len(self.diag) < 3:
                    self.diag.append(
                        f'it {self.sim.iteration}: {ident} held='
                        f'{t["held"]} model={ident in self.T} '
                        f'status={t["status"]}')

    # -- restart --------------------------------------------------------------
    def after_restart(self, drv):
        sim = self.sim
        self.restarts += 1
        self.classes.add('restart')
        if self.T or self.H is not None:
            self.classes.add('restart-with-holds')
        snap = sim.pool_snapshot()
        exp_h = self.H if self.H is not None else self.cfg_h
        # model: the restored / configured hold point is applied to the pool
        self.H = exp_h
        if exp_h is not None:
            for t in snap:
                if self.pt(t['cycle']) > exp_h:
                    self.T.add(f'{t["cycle"]}/{t["name"]}')
        if self.unsure:
            return
        exp_h_s = self.to_str[exp_h] if exp_h is not None else None
        held_after, hp_after = scheduler_holds(sim)
        held_after = set(held_after)
        B = self.before
        db = self.db_down
        where = f'restart {self.restarts} (iteration {sim.iteration})'
        # hold point
        if hp_after != exp_h_s and hp_after != B.get('H'):
            self.v('restart-hold-point-differs',
                   f'{where}: hold point after the load is {hp_after}; at '
                   f'shutdown {B.get("H")}; model {exp_h_s}; DB holdcp while '
                   f'down {db.get("holdcp")}')
        h_down_s = (self.to_str[self.H_down]
                    if self.H_down is not None else None)
        if 'holdcp' in db and db['holdcp'] != B.get('H') and \
                db['holdcp'] != h_down_s:
            self.v('db-hold-point-differs',
                   f'{where}: workflow_params.holdcp = {db["holdcp"]} while '
                   f'down; scheduler had {B.get("H")} at shutdown; model '
                   f'{h_down_s}')
        # pooled tasks
        for t in snap:
            ident = f'{t["cycle"]}/{t["name"]}'
            got = bool(t['held'])
            want_m = ident in self.T
            want_b = B.get('pool', {}).get(ident)
            if got != want_m and want_b is not None and got != want_b:
                self.v('restart-lost-held-flag' if not got
                       else 'restart-gained-held-flag',
                       f'{where}: {ident} held={got} after the load; '
                       f'held={want_b} at shutdown; model held={want_m} '
                       f'(hold point {exp_h_s})')
        # tasks-to-hold set (covers instances outside the pool)
        bT = B.get('T', set())
        for ident in sorted(self.T - held_after):
            if ident in bT:
                self.v('restart-lost-held-instance',
                       f'{where}: {ident} is held (model and scheduler at '
                       f'shutdown) but missing from the restored held set '
                       f'{sorted(held_after)}')
        for ident in sorted(held_after - self.T):
            if ident not in bT:
                self.v('restart-gained-held-instance',
                       f'{where}: {ident} is in the restored held set but '
                       f'was not held at shutdown ({sorted(bT)}) nor in the '
                       f'model ({sorted(self.T)})')
        # DB table while down
        if 'tasks_to_hold' in db:
            dT = set(db['tasks_to_hold'])
            mT = self.T_down
            for ident in sorted((mT & bT) - dT):
                self.v('db-tasks-to-hold-misses-held-instance',
                       f'{where}: {ident} held at shutdown but not in the '
                       f'tasks_to_hold table {sorted(dT)}')
            for ident in sorted(dT - mT - bT):
                self.v('db-tasks-to-hold-has-unheld-instance',
                       f'{where}: {ident} in the tasks_to_hold table but not '
                       f'held at shutdown ({sorted(bT)}) nor in the model '
                       f'({sorted(mT)})')


async def _check(case, ctx: Ctx) -> CaseResult:
    async with SCase(case, ctx) as sc:
        if sc.rejected:
            return CaseResult(sc.crash_violations('C06'), False,
                              ['rejected:' + sc.rejected])
        sim = sc.sim
        m = HoldModel(sc)

        sim.hooks.append(m.on_ev)
        wrap_commands(sc.drv, m.pre, m.post)
        sc.drv.after_loop.append(m.after_loop)
        sc.drv.after_restart.append(m.after_restart)
        sc.drv.after_loop.append(return_polls_promptly)
        await run_schedule_ext(sc)
        if sim.running:
            await sc.drv.cmd_resume(0)
        await sc.drain()
        if sim.running and case.get('tail'):
            await run_schedule_ext(sc, case['tail'])
            await sc.drain()
        viol = sc.crash_violations('C06') + m.viol
        uniq = {}
        for v in viol:
            uniq.setdefault(v.sig, v)
        nontrivial = bool(m.classes & {
            'held-task-otherwise-ready', 'future-hold-took-effect',
            'hold-point-took-effect-on-spawn', 'restart-with-holds'})
        info = {'flow': sc.drv.flow_text}
        if m.diag:
            info['diag'] = m.diag
        return CaseResult(list(uniq.values()), nontrivial, sorted(m.classes),
                          inconclusive=sc.inconclusive, info=info)


def run_shard(ctx: Ctx):
    hyp_run(ctx, cases(), check_case, ctx.share(BUDGET[ctx.tier]))
