"""C16 Integer recurrences denote the clipped arithmetic progression.

Oracle: an explicit finite set.  Each recurrence form is translated (from the
form table in the header comment of cylc/flow/cycling/integer.py) into an
unclipped arithmetic progression, which is listed on a window, clipped to
[initial, final] and has the excluded points removed.  Every public query of
IntegerSequence is compared with the same query on that list.

Part 1 (exhaustive): every form x start/end/context in [-2, 9] x step 1..4 x
reps 1..4 x a menu of exclusions derived from the expected set.
Part 2 (Hypothesis): the same forms with values up to 10**6.
"""
from __future__ import annotations

import bisect
import itertools

from hypothesis import strategies as st

from vf.core import CaseResult, Ctx, Violation, hyp_run, exc_sig

PROP_ID = 'C16'
LEVEL = 'exploration'
# total cases (exhaustive box part + Hypothesis part) over all shards
HYP_N = {'quick': 5000, 'thorough': 80000}
BOX_STRIDE = {'quick': 20, 'thorough': 1}
# box: 178650 main tuples x (on average 4.2) exclusion lists = ~755000 cases
BUDGET = {'quick': 43000, 'thorough': 835000}
_DEFAULT_BUDGET = dict(BUDGET)
EXHAUSTIVE = {'quick': False, 'thorough': True}
RULE = (
    'Part 1: itertools.product over 14 recurrence forms (Rn/S/E, S/Pk, Pk, '
    'Pk/E, R1/S, Rn/S/Pk, R/S/Pk, Rn//Pk, Rn/Pk/E, R/Pk/E, Rn/Pk, R/Pk, R1, '
    'R1//E) x start and end each in {-2..9 absolute, +P0 +P1 +P3 -P1 -P2 '
    'relative} x step 1..4 x reps 1..4 x initial point -2..9 x final point '
    '(initial..9 or none) x a menu of up to 13 exclusion lists derived from '
    'the expected set (first/last/middle/two adjacent/off-sequence/all points, '
    'exclusion sequences S/Pk, Rn/S/Pk, Pk, +P1/Pk, mixed); thorough = whole '
    'box, quick = every 20th main tuple (offset by VERIF_SEED) with the full '
    'menu. Part 2: Hypothesis draws the same forms with base values up to '
    '10**6, steps up to 5000 and up to 80 points. Each case: is_valid on a '
    'window around every anchor, get_start_point, get_stop_point, and '
    'get_first_point / get_next_point / get_prev_point / '
    'get_nearest_prev_point at every (box) or sampled (large) point between '
    'the initial and final point. Non-trivial = clipping to the initial/final '
    'point or an exclusion removed at least one point of the unclipped '
    'progression; distinct by the whole case.')
ASSUMPTIONS = [
    'The progression of each form is the one in the form table of '
    'cycling/integer.py: format 1 "run n times between START and END", '
    'format 3 "start at START, keep adding INTV (if n, only n points)", '
    'format 4 "start at END, keep subtracting INTV (if n, only n points)"; '
    'a missing START is the initial point, a missing END the final point; '
    '+Pn/-Pn starts are relative to the initial point, ends to the final point.',
    'Rn/S/E with n>1 whose (E-S) is not a positive multiple of n-1 defines no '
    'integer progression: any rejection is accepted there.',
    'Query methods are only asked about points between the initial and the '
    'final point (the range of task cycle points callers pass in); is_valid '
    'is also asked outside (membership must be false there).',
    'start/stop point are only compared when the expected set is non-empty; '
    'an unbounded sequence must report stop point None.',
    'An exclusion sequence with an implicit or relative start (Pk, +Pj/Pk) may '
    'be read relative to the first/last point of the main sequence (what '
    'the module does) or to the initial/final point; a result consistent with '
    'either reading is accepted.',
    'Exclusion points are absolute integers; reps >= 1; final >= initial.',
]
MANIFEST = {'engine': 'P', 'technique': 'exhaustive small box + Hypothesis'}

FORMS = {
    'Rn/S/E': 'R{n}/{S}/{E}',
    'S/Pk': '{S}/P{k}',
    'Pk': 'P{k}',
    'Pk/E': 'P{k}/{E}',
    'R1/S': 'R1/{S}',
    'Rn/S/Pk': 'R{n}/{S}/P{k}',
    'R/S/Pk': 'R/{S}/P{k}',
    'Rn//Pk': 'R{n}//P{k}',
    'Rn/Pk/E': 'R{n}/P{k}/{E}',
    'R/Pk/E': 'R/P{k}/{E}',
    'Rn/Pk': 'R{n}/P{k}',
    'R/Pk': 'R/P{k}',
    'R1': 'R1',
    'R1//E': 'R1//{E}',
}
# which parameters each form uses
USES = {
    'Rn/S/E': 'nSE', 'S/Pk': 'Sk', 'Pk': 'k', 'Pk/E': 'kE', 'R1/S': 'S',
    'Rn/S/Pk': 'nSk', 'R/S/Pk': 'Sk', 'Rn//Pk': 'nk', 'Rn/Pk/E': 'nkE',
    'R/Pk/E': 'kE', 'Rn/Pk': 'nk', 'R/Pk': 'k', 'R1': '', 'R1//E': 'E',
}
INF = None
# the explicit listing of an unbounded set extends this many steps beyond the
# last query point (exclusions remove at most 3 consecutive points)
MARGIN = 6
# frames allowed on top of 4 per consecutive excluded point
RECURSION_ROOM = 80
MAX_EXCLUDED_RUN = 40


def pstr(spec):
    kind, v = spec
    if kind == 'a':
        return str(v)
    return ('+P%d' % v) if v >= 0 else ('-P%d' % -v)


def expr_of(case):
    S = pstr(case['S']) if case.get('S') else ''
    E = pstr(case['E']) if case.get('E') else ''
    expr = FORMS[case['form']].format(
        n=case.get('n'), k=case.get('k'), S=S, E=E)
    excl = case.get('excl') or []
    if len(excl) == 1:
        expr += '!' + excl[0]
    elif excl:
        expr += '!(' + ','.join(excl) + ')'
    return expr


def resolve(spec, ctx_point):
    """Absolute value of a start/end spec; None if it needs a missing context."""
    if spec is None:
        return ctx_point
    kind, v = spec
    if kind == 'a':
        return v
    if ctx_point is None:
        return None
    return ctx_point + v


class Reject(Exception):
    pass


def progression(form, S, E, k, n, cs, ce):
    """Unclipped progression of a form.

    Returns ('one', v) | ('up', a0, k, count|None) | ('down', e, k, count|None)
    Raises Reject(reason) where the form defines nothing (see ASSUMPTIONS).
    """
    uses = USES[form]
    s = resolve(S, cs) if 'S' in uses else cs
    if 'E' in uses:
        e = resolve(E, ce)
        if e is None:
            raise Reject('needs-final-point')
    else:
        e = ce
    if form == 'Rn/S/E':
        if n == 1:
            return ('one', s)
        if e <= s or (e - s) % (n - 1):
            raise Reject('no-integer-step')
        return ('up', s, (e - s) // (n - 1), n)
    if form in ('R1/S', 'R1'):
        return ('one', s)
    if form == 'R1//E':
        return ('one', e)
    if form in ('S/Pk', 'Pk', 'R/S/Pk'):
        return ('up', s, k, INF)
    if form in ('Rn/S/Pk', 'Rn//Pk'):
        if n == 1:
            return ('one', s)
        return ('up', s, k, n)
    if form in ('Pk/E', 'R/Pk/E', 'R/Pk'):
        if e is None:
            raise Reject('needs-final-point')
        return ('down', e, k, INF)
    if form in ('Rn/Pk/E', 'Rn/Pk'):
        if e is None:
            raise Reject('needs-final-point')
        if n == 1:
            return ('one', e)
        return ('down', e, k, n)
    raise AssertionError(form)


def listing(prog, lo, hi):
    """Sorted points of the progression within [lo, hi]."""
    if hi < lo:
        return []
    kind = prog[0]
    if kind == 'one':
        return [prog[1]] if lo <= prog[1] <= hi else []
    _, a, k, cnt = prog
    if kind == 'up':
        i0 = max(0, -((a - lo) // k))          # first i with a+ik >= lo
        i1 = (hi - a) // k                      # last i with a+ik <= hi
        if cnt is not None:
            i1 = min(i1, cnt - 1)
        return [a + i * k for i in range(i0, i1 + 1)]
    i0 = max(0, -((hi - a) // k))               # first i with a-ik <= hi
    i1 = (a - lo) // k                          # last i with a-ik >= lo
    if cnt is not None:
        i1 = min(i1, cnt - 1)
    return [a - i * k for i in range(i1, i0 - 1, -1)]


def prog_min(prog):
    kind = prog[0]
    if kind == 'one':
        return prog[1]
    _, a, k, cnt = prog
    if kind == 'up':
        return a
    return None if cnt is None else a - (cnt - 1) * k


def prog_max(prog):
    kind = prog[0]
    if kind == 'one':
        return prog[1]
    _, a, k, cnt = prog
    if kind == 'down':
        return a
    return None if cnt is None else a + (cnt - 1) * k


# --- exclusion items -------------------------------------------------------
# strings: '5' (absolute point) | 'S/Pk' | 'Rn/S/Pk' | 'Pk' | '+Pj/Pk'

def parse_excl_item(item):
    """-> ('pt', v) | ('seq', form, S, k, n, relative?)"""
    import re
    if re.fullmatch(r'-?\d+', item):
        return ('pt', int(item))
    m = re.fullmatch(r'(-?\d+)/P(\d+)', item)
    if m:
        return ('seq', 'S/Pk', ['a', int(m[1])], int(m[2]), None, False)
    m = re.fullmatch(r'R(\d+)/(-?\d+)/P(\d+)', item)
    if m:
        return ('seq', 'Rn/S/Pk', ['a', int(m[2])], int(m[3]), int(m[1]),
                False)
    m = re.fullmatch(r'P(\d+)', item)
    if m:
        return ('seq', 'Pk', None, int(m[1]), None, True)
    m = re.fullmatch(r'\+P(\d+)/P(\d+)', item)
    if m:
        return ('seq', 'S/Pk', ['r', int(m[1])], int(m[2]), None, True)
    raise AssertionError(item)


class Expected:
    """The expected explicit set on a window, with query functions."""

    def __init__(self, points, unbounded):
        self.pts = points            # sorted list
        self.set = set(points)
        self.unbounded = unbounded   # continues beyond the window top

    def first(self, p):     # min m >= p
        i = bisect.bisect_left(self.pts, p)
        return self.pts[i] if i < len(self.pts) else None

    def next(self, p):      # min m > p
        i = bisect.bisect_right(self.pts, p)
        return self.pts[i] if i < len(self.pts) else None

    def prev(self, p):      # max m < p
        i = bisect.bisect_left(self.pts, p)
        return self.pts[i - 1] if i > 0 else None


def expected_sets(case, wlo, whi):
    """-> (prog, U, [M under reading A, M under reading B], info) on [wlo, whi].

    U = clipped progression without exclusions; M = U minus exclusions.
    """
    cs, ce = case['cs'], case['ce']
    prog = progression(case['form'], case.get('S'), case.get('E'),
                       case.get('k'), case.get('n'), cs, ce)
    hi = whi if ce is None else min(ce, whi)
    U = listing(prog, max(cs, wlo), hi)
    unbounded = ce is None and prog_max(prog) is None
    items = [parse_excl_item(i) for i in (case.get('excl') or [])]
    info = {'excl_rel': False, 'excl_start_clip_unaligned': False,
            'excl_stop_clip': False}
    if not items or not U:
        return prog, U, [U], unbounded, info
    ulast = None if unbounded else U[-1]
    readings = []
    for (lo_ctx, hi_ctx) in ((U[0], ulast), (cs, ce)):
        X = set()
        for it in items:
            if it[0] == 'pt':
                X.add(it[1])
                continue
            _, form, S, k, n, rel = it
            if rel:
                info['excl_rel'] = True
            xprog = progression(form, S, None, k, n, lo_ctx, hi_ctx)
            xhi = whi if hi_ctx is None else min(hi_ctx, whi)
            X.update(listing(xprog, max(lo_ctx, wlo), xhi))
            if lo_ctx == U[0]:
                # would the module's own clipping be exercised on this
                # exclusion sequence (context = main start/stop)?
                xmin, xmax = prog_min(xprog), prog_max(xprog)
                if (xprog[0] != 'one' and xmin is not None
                        and xmin < lo_ctx and (lo_ctx - xmin) % k):
                    info['excl_start_clip_unaligned'] = True
                if (xprog[0] != 'one' and xmax is not None
                        and hi_ctx is not None and xmax > hi_ctx):
                    info['excl_stop_clip'] = True
        readings.append([p for p in U if p not in X])
        if not info['excl_rel']:
            break
    if len(readings) == 2 and readings[0] == readings[1]:
        readings.pop()
    return prog, U, readings, unbounded, info


def input_classes(case, prog, info):
    """Classes of the *input* that select a clipping branch of the
    constructor (used for root-cause signatures; computed from the case and
    the oracle only, never from cylc's answer)."""
    cs, ce = case['cs'], case['ce']
    out = []
    form = case['form']
    if form in ('Pk/E', 'R/Pk/E'):
        e = prog[1]
        if ce is None:
            out.append('Pk/E-no-final-point')
        elif (e - ce) % prog[2]:
            out.append('Pk/E-end-not-congruent-to-final-point')
    if prog[0] == 'one':
        if prog[1] < cs or (ce is not None and prog[1] > ce):
            out.append('one-off-outside-context')
    else:
        k = prog[2]
        pmin, pmax = prog_min(prog), prog_max(prog)
        if pmin is not None and pmin < cs:
            if (cs - pmin) % k:
                out.append('start-clip-unaligned')
            else:
                out.append('start-clip-aligned')
        if pmax is not None and ce is not None and pmax > ce:
            out.append('stop-clip')
    if info['excl_start_clip_unaligned']:
        out.append('start-clip-unaligned')
    if info['excl_stop_clip']:
        out.append('stop-clip')
    return out


# Input classes diagnosed as one root cause each (a wrong branch of the
# constructor's clipping arithmetic): every answer of such a sequence derives
# from a wrong p_start/p_stop, so a violation in a case of such a class is
# reported under the class, whatever query exposed it.  The class applies to
# the main recurrence or to an exclusion sequence (clipped to the main one).
ROOT_CLASSES = [
    'Pk/E-end-not-congruent-to-final-point',
    'one-off-outside-context',
    'start-clip-unaligned',
    'stop-clip',
]
FAMILY = {'R/Pk/E': 'Pk/E'}


def _ival(x):
    return None if x is None else int(x)


def _anchors(case, prog):
    cs, ce = case['cs'], case['ce']
    k = prog[2] if prog[0] != 'one' else 1
    anchors = {cs}
    if ce is not None:
        anchors.add(ce)
    for v in (prog_min(prog), prog_max(prog)):
        if v is not None:
            anchors.add(v)
    for it in case.get('excl') or []:
        p = parse_excl_item(it)
        if p[0] == 'pt':
            anchors.add(p[1])
        elif p[2] is not None and p[2][0] == 'a':
            anchors.add(p[2][1])
    return anchors, k


def _depth():
    import sys
    f = sys._getframe()
    n = 0
    while f is not None:
        n += 1
        f = f.f_back
    return n


def _exc_name(exc):
    if isinstance(exc, RecursionError):
        return 'RecursionError'      # innermost frame is arbitrary
    return exc_sig(exc)


def check_case(case, ctx: Ctx) -> CaseResult:
    import sys
    from cylc.flow.cycling.integer import IntegerSequence, IntegerPoint
    from cylc.flow.exceptions import (
        CylcMissingContextPointError, IntervalParsingError,
        PointParsingError, SequenceParsingError)

    cs, ce = case['cs'], case['ce']
    big = bool(case.get('big'))
    expr = expr_of(case)
    form = case['form']
    classes = ['form:' + form, 'large-values' if big else 'box']
    if ce is None:
        classes.append('no-final-point')
    if case.get('excl'):
        classes.append('has-exclusions')
        if any(parse_excl_item(i)[0] == 'seq' for i in case['excl']):
            classes.append('has-exclusion-sequence')

    # ---- expected -------------------------------------------------------
    try:
        prog = progression(form, case.get('S'), case.get('E'),
                           case.get('k'), case.get('n'), cs, ce)
    except Reject as rej:
        # outside the domain of the property: any outcome is fine
        try:
            IntegerSequence(expr, str(cs), None if ce is None else str(ce))
        except Exception:
            pass
        ctx.col.rejected += 1
        return CaseResult([], False, classes + ['undefined:' + str(rej)])

    anchors, k = _anchors(case, prog)
    if big:
        qs = set(case.get('q') or [])
        for a in anchors:
            for d in (0, 1, -1, k, -k, k + 1, -k - 1, k - 1, 1 - k, 2 * k,
                      -2 * k):
                qs.add(a + d)
        wlo, whi = min(qs) - 1, max(qs) + MARGIN * k + 1
        window = sorted(qs)
    else:
        lo = min(anchors) - k - 2
        hi = max(anchors) + 2 * k + 2
        wlo, whi = lo, hi + MARGIN * k + 1
        window = list(range(lo, hi + 1))
    prog, U, readings, unbounded, info = expected_sets(case, wlo, whi)
    if unbounded and U and any(
            not [p for p in M if p > whi - (MARGIN - 1) * k] for M in readings):
        # the exclusions remove a whole infinite tail of an unbounded
        # sequence: deciding emptiness of such a set is outside the domain
        ctx.col.rejected += 1
        return CaseResult([], False, classes + ['undefined:infinite-tail-'
                                                'excluded'])
    in_classes = input_classes(case, prog, info)
    classes += ['in:' + c for c in sorted(set(in_classes))]
    root = next((c for c in ROOT_CLASSES if c in in_classes), None)
    full = listing(prog, wlo, whi)
    clipped = len(U) < len(full)
    excluded = any(len(m) < len(U) for m in readings)
    if clipped:
        classes.append('clipped')
    if excluded:
        classes.append('exclusion-removed-point')
    if not readings[0]:
        classes.append('empty-set')
    if unbounded:
        classes.append('unbounded')
    if len(readings) == 2:
        classes.append('two-readings-differ')
    nontrivial = clipped or excluded
    where = f'IntegerSequence({expr!r}, {str(cs)!r}, ' + (
        'None)' if ce is None else f'{str(ce)!r})')

    # ---- construct ------------------------------------------------------
    fam = FAMILY.get(form, form)
    try:
        seq = IntegerSequence(expr, str(cs), None if ce is None else str(ce))
    except (SequenceParsingError, IntervalParsingError, PointParsingError,
            CylcMissingContextPointError, ValueError) as exc:
        return CaseResult(
            [Violation(f'C16:construct:{fam}:rejected:{type(exc).__name__}',
                       f'{where} raised {exc!r}; expected points '
                       f'{readings[0][:12]}')],
            nontrivial, classes)
    except Exception as exc:
        return CaseResult(
            [Violation(f'C16:construct:{fam}:crash:{_exc_name(exc)}',
                       f'{where} raised {exc!r}; expected points '
                       f'{readings[0][:12]}')],
            nontrivial, classes)

    # ---- compare under each admissible reading --------------------------
    old_limit = sys.getrecursionlimit()
    # cylc recurses once per consecutive excluded point; a recursion much
    # deeper than the longest excluded run never terminates: fail it fast (a
    # RecursionError at the default limit costs ~0.5 s)
    run = best = 0
    mset = set(readings[0])
    for p in U:
        run = 0 if p in mset else run + 1
        best = max(best, run)
    if best > MAX_EXCLUDED_RUN:
        # cylc walks excluded runs recursively and get_nearest_prev_point is
        # cubic in the run length: minutes per case.  Not generated on
        # purpose; a cost limit of the harness, not a verdict.
        ctx.col.rejected += 1
        return CaseResult([], False, classes + ['skipped:long-excluded-run'])
    sys.setrecursionlimit(_depth() + RECURSION_ROOM + 4 * best)
    try:
        found = None
        for M in readings:
            res = _compare(seq, Expected(M, unbounded), U, window, cs, ce,
                           whi, k, 'one-off' if prog[0] == 'one' else
                           'stepped', big, IntegerPoint, where)
            if not res:
                return CaseResult([], nontrivial, classes)
            if found is None:
                found = res
    finally:
        sys.setrecursionlimit(old_limit)
    viol = []
    for aspect, qual, detail in found:
        if root is not None:
            s = f'C16:{root}'
        else:
            s = f'C16:{aspect}:{qual}'
        if not any(v.sig == s for v in viol):
            viol.append(Violation(s, detail))
    return CaseResult(viol, nontrivial, classes)


def _compare(seq, exp, U, window, cs, ce, whi, k, kind, big, IntegerPoint,
             where):
    """[] if all answers agree with `exp`, else [(method, qualifier, detail)]
    (first occurrence of each distinct (method, qualifier))."""
    out = {}

    def call(name, *a):
        try:
            return ('ok', _ival(getattr(seq, name)(*a)))
        except Exception as exc:  # any exception from a query is a crash
            return ('exc', exc)

    def bad(aspect, qual, q, got, want):
        if got[0] == 'exc':
            g = f'raised {got[1]!r}'
            qual = 'crash:' + _exc_name(got[1])
        else:
            g = repr(got[1])
        if (aspect, qual) in out:
            return
        qs = '' if q is None else str(q)
        out[(aspect, qual)] = (
            aspect, qual,
            f'{where}.{aspect}({qs}) -> {g}; expected {want!r}; expected '
            f'set (listed on a window) = {exp.pts[:14]}'
            f'{"..." if len(exp.pts) > 14 else ""}')

    lo_u = U[0] if U else None
    hi_u = U[-1] if U else None

    def qual_of(p):
        return kind + ':' + rel(p)

    def rel(p):
        """where the query point lies w.r.t. the clipped progression"""
        if lo_u is None:
            return 'empty-set'
        if p < lo_u - k and kind == 'stepped':
            return 'more-than-a-step-below-start'
        if p < lo_u:
            return 'below-start'
        if p > hi_u and not exp.unbounded:
            return 'above-stop'
        return 'in-range'

    # membership
    for p in window:
        got = call('is_valid', IntegerPoint(str(p)))
        want = p in exp.set
        if got[0] == 'ok':
            got = ('ok', bool(got[1]))
        if got != ('ok', want):
            bad('is_valid', qual_of(p), p, got, want)
    if exp.pts:
        got = call('get_start_point')
        if got != ('ok', exp.pts[0]):
            bad('get_start_point', 'wrong', None, got, exp.pts[0])
        want = None if exp.unbounded else exp.pts[-1]
        got = call('get_stop_point')
        if got != ('ok', want):
            bad('get_stop_point',
                'unbounded' if exp.unbounded else 'wrong', None, got, want)
    # queries between the initial and final point
    top = ce if ce is not None else whi - MARGIN * k - 1
    qpts = [p for p in window if cs <= p <= top]
    for name, fn in (('get_first_point', exp.first),
                     ('get_next_point', exp.next),
                     ('get_prev_point', exp.prev),
                     ('get_nearest_prev_point', exp.prev)):
        pts = qpts
        if big and name == 'get_nearest_prev_point' and len(pts) > 8:
            pts = pts[::max(1, len(pts) // 8)]    # linear in #points each
        for p in pts:
            got = call(name, IntegerPoint(str(p)))
            want = fn(p)
            if got == ('ok', want):
                continue
            if (name == 'get_prev_point' and got == ('ok', None)
                    and rel(p) in ('above-stop', 'empty-set')):
                # "None if out of bounds" may refer to the query point: both
                # cycling implementations answer None beyond the stop point
                continue
            bad(name, qual_of(p), p, got, want)
            if got[0] == 'exc' and isinstance(got[1], RecursionError):
                break    # recorded once; each repeat costs a full unwinding
    return list(out.values())


# --------------------------------------------------------------------------
# Part 1: the box
# --------------------------------------------------------------------------
BOX = list(range(-2, 10))
REL_S = [0, 1, 3, -1, -2]
REL_E = [0, -1, -3, 1, 2]
STEPS = [1, 2, 3, 4]
REPS = [1, 2, 3, 4]


def main_tuples():
    """Yield main (exclusion-free) cases of the box in a fixed order."""
    s_specs = [['a', v] for v in BOX] + [['r', v] for v in REL_S]
    e_specs = [['a', v] for v in BOX] + [['r', v] for v in REL_E]
    ctxs = [(cs, ce) for cs in BOX for ce in
            [None] + [c for c in BOX if c >= cs]]
    for form, uses in USES.items():
        dims = [
            REPS if 'n' in uses else [None],
            s_specs if 'S' in uses else [None],
            e_specs if 'E' in uses else [None],
            STEPS if 'k' in uses else [None],
        ]
        for n, S, E, k in itertools.product(*dims):
            for cs, ce in ctxs:
                if ce is None and E is not None and E[0] == 'r':
                    continue   # end relative to a final point that is not set
                yield {'form': form, 'S': S, 'E': E, 'k': k, 'n': n,
                       'cs': cs, 'ce': ce, 'excl': []}


def excl_menu(case):
    """Exclusion lists derived from the expected (exclusion-free) set."""
    cs, ce = case['cs'], case['ce']
    try:
        prog = progression(case['form'], case['S'], case['E'], case['k'],
                           case['n'], cs, ce)
    except Reject:
        return [[]]
    U = listing(prog, cs, ce if ce is not None else cs + 30)
    menu = [[]]
    if not U:
        return menu
    k = prog[2] if prog[0] != 'one' else 1
    s = str
    menu.append([s(U[0])])
    menu.append([s(U[-1])])
    menu.append([s(U[len(U) // 2])])
    menu.append([s(U[0] + 1 if k > 1 else U[0] - 1)])       # off-sequence
    if len(U) >= 2:
        menu.append([s(U[0]), s(U[1])])
        menu.append([s(U[-1]), s(U[-2])])
    if len(U) <= 3:
        menu.append([s(u) for u in U])                       # everything
    if len(U) >= 2:
        menu.append([f'{U[0]}/P{2 * k}'])
        menu.append([f'R2/{U[1]}/P{k}'])
        menu.append([f'{U[0] - k}/P{3 * k}'])
        menu.append([f'P{2 * k}'])
        menu.append([f'+P{k}/P{2 * k}'])
        menu.append([s(U[1]), f'P{3 * k}'])
    return menu


def run_box(ctx: Ctx, stride: int):
    offset = ctx.seed % stride
    col = ctx.col
    j = 0
    n_main = 0
    for idx, main in enumerate(main_tuples()):
        n_main += 1
        if idx % stride != offset:
            continue
        j += 1
        if j % ctx.nshards != ctx.shard:
            continue
        for excl in excl_menu(main):
            case = dict(main, excl=excl)
            res = check_case(case, ctx)
            col.record(case, res)
            for v in col.filter_known(res.violations):
                col.add_violation(v, case)
    if ctx.shard == 0:
        col.extra['box_main_tuples'] = n_main
        col.extra['box_stride'] = stride


# --------------------------------------------------------------------------
# Part 2: Hypothesis, large values
# --------------------------------------------------------------------------
@st.composite
def big_cases(draw):
    form = draw(st.sampled_from(sorted(FORMS)))
    uses = USES[form]
    base = draw(st.one_of(st.integers(0, 50), st.integers(0, 10 ** 6)))
    k = draw(st.one_of(st.integers(1, 12), st.integers(1, 5000)))
    m = draw(st.one_of(st.integers(0, 12), st.integers(0, 80)))
    cs = base
    has_ce = draw(st.integers(0, 3)) > 0
    ce = cs + k * m + draw(st.integers(0, k)) if has_ce else None
    span = k * m + k

    def point_spec(near_lo, near_hi, rel_to, allow_rel=True):
        kind = draw(st.integers(0, 3))
        if kind == 0 and allow_rel and rel_to is not None:
            return ['r', draw(st.integers(-3 * k - 2, span))]
        anchor = draw(st.sampled_from([near_lo, near_hi]))
        v = anchor + draw(st.integers(-3 * k - 2, 3 * k + 2))
        if kind == 1:
            v = draw(st.integers(near_lo - 2 * k, near_hi + 2 * k))
        return ['a', max(v, 0)]

    top = ce if ce is not None else cs + span
    S = point_spec(cs, top, cs) if 'S' in uses else None
    E = point_spec(cs, top, ce) if 'E' in uses else None
    n = draw(st.integers(1, 12)) if 'n' in uses else None
    if form == 'Rn/S/E' and n and n > 1 and draw(st.integers(0, 5)) > 0:
        # mostly make the step integral so that the form is in the domain
        s = resolve(S, cs)
        step = draw(st.integers(1, max(1, span // max(1, n - 1))))
        E = ['a', s + step * (n - 1)]
    case = {'form': form, 'S': S, 'E': E, 'k': k if 'k' in uses else None,
            'n': n, 'cs': cs, 'ce': ce, 'excl': [], 'big': True}
    # exclusions derived from the expected set
    try:
        prog = progression(form, S, E, case['k'], n, cs, ce)
    except Reject:
        return case
    U = listing(prog, cs, top)
    kk = prog[2] if prog[0] != 'one' else 1
    n_ex = draw(st.integers(0, 3)) if U else 0
    excl = []
    for _ in range(n_ex):
        kind = draw(st.integers(0, 5))
        if kind in (3, 5):
            if any('/P' in x or x.startswith('P') for x in excl
                   if not x.startswith('R')):
                kind = 4     # at most one unbounded exclusion sequence
        u = U[draw(st.sampled_from(
            [0] + 3 * [-1, len(U) // 2, 1 % len(U), -2 % len(U)]))]
        if kind <= 2:
            excl.append(str(u))
        elif kind == 3:
            # (an unbounded exclusion with the main step itself would
            # exclude a whole infinite tail: emptiness of such a set is not
            # something the API can be asked to decide)
            excl.append(f'{max(0, u - draw(st.integers(0, 2)) * kk)}'
                        f'/P{kk * draw(st.integers(2, 3))}')
        elif kind == 4:
            excl.append(f'R{draw(st.integers(1, 4))}/{u}/P{kk}')
        else:
            excl.append(draw(st.sampled_from(
                [f'P{2 * kk}', f'+P{kk}/P{2 * kk}', f'P{3 * kk}'])))
    # de-duplicate, keep order
    seen = []
    for x in excl:
        if x not in seen:
            seen.append(x)
    case['excl'] = seen
    case['q'] = sorted(set(draw(st.lists(
        st.integers(cs, top), max_size=6))))
    return case


def run_shard(ctx: Ctx):
    # --budget below the default scales both parts down (development only)
    scale = min(1.0, BUDGET[ctx.tier] / _DEFAULT_BUDGET[ctx.tier])
    stride = max(1, round(BOX_STRIDE[ctx.tier] / scale))
    run_box(ctx, stride)
    hyp_run(ctx, big_cases(), check_case,
            ctx.share(max(1, int(HYP_N[ctx.tier] * scale))))
